(* Frame, conservation and termination properties of the top-level transition [step].

   Part A: which fields a keeper computation can change ([keeps]), supply and balance
           conservation, the frame of the fault reports.
   Part B: no ABCI call hangs when the seed has at most 400 digits.
   Part C: order and shard identifiers. *)
From SaoVerif Require Import Base.Prelude Base.Ints Base.Dec Model.Did Model.Types Model.Monad Model.Bank Model.Select
     Model.Node Model.Storage Model.Sao Model.Hooks Model.App Model.Spec Proofs.SelectFacts.
From RecordUpdate Require Import RecordUpdate.
Import RecordSetNotations.

(** * The compositional predicate *)
(* [mok R h m]: from every state, a normal or error return of [m] ends in a state related
   to the initial one by [R]; [m] hangs only if [h] is true. Panics discard the state. *)
Definition mok {A} (R : State -> State -> Prop) (h : bool) (m : M A) : Prop :=
  forall s, match m s with
            | Ok _ s' => R s s'
            | Err _ s' => R s s'
            | Panic _ => True
            | Hang => h = true
            end.

Definition keeps {T A} (f : State -> T) (m : M A) : Prop :=
  forall s, match m s with Ok _ s' => f s' = f s | Err _ s' => f s' = f s | Panic _ => True | Hang => True end.

Definition nohang {A} (m : M A) : Prop := forall s, m s <> Hang.

Definition eqon {T} (f : State -> T) (s s' : State) : Prop := f s' = f s.

Global Instance eqon_preorder {T} (f : State -> T) : PreOrder (eqon f).
Proof. split; [intros s; reflexivity|intros a b c H1 H2; unfold eqon in *; congruence]. Qed.

Lemma keeps_mok {T A} (f : State -> T) (m : M A) : keeps f m <-> mok (eqon f) true m.
Proof.
  unfold keeps, mok, eqon. split; intros H s; specialize (H s); destruct (m s); auto.
Qed.

Lemma mok_keeps {T A} (f : State -> T) h (m : M A) : mok (eqon f) h m -> keeps f m.
Proof. unfold keeps, mok, eqon. intros H s; specialize (H s); destruct (m s); auto. Qed.

Lemma mok_nohang {A} R (m : M A) : mok R false m -> nohang m.
Proof. intros H s E. specialize (H s). rewrite E in H. discriminate. Qed.

Lemma mok_weaken {A} (R R' : State -> State -> Prop) h h' (m : M A) :
  (forall s s', R s s' -> R' s s') -> (h = true -> h' = true) -> mok R h m -> mok R' h' m.
Proof. intros HR Hh H s. specialize (H s). destruct (m s); auto. Qed.

Lemma keeps_proj {T U A} (f : State -> T) (g : T -> U) (m : M A) : keeps f m -> keeps (fun s => g (f s)) m.
Proof. intros H s. specialize (H s). destruct (m s); auto; congruence. Qed.

Section Rules.
  Context (R : State -> State -> Prop) `{!PreOrder R} (h : bool).

  Lemma mok_ret {A} (a : A) : mok R h (ret a).
  Proof. intros s. cbn. reflexivity. Qed.
  Lemma mok_fail {A} e : mok R h (@fail A e).
  Proof. intros s. cbn. reflexivity. Qed.
  Lemma mok_panic {A} e : mok R h (@panic A e).
  Proof. intros s. exact I. Qed.
  Lemma mok_get : mok R h get.
  Proof. intros s. cbn. reflexivity. Qed.
  Lemma mok_gets {A} (f : State -> A) : mok R h (gets f).
  Proof. intros s. cbn. reflexivity. Qed.
  Lemma mok_modify g : (forall s, R s (g s)) -> mok R h (modify g).
  Proof. intros H s. cbn. apply H. Qed.
  Lemma mok_bind {A B} (m : M A) (k : A -> M B) :
    mok R h m -> (forall a, mok R h (k a)) -> mok R h (bind m k).
  Proof.
    intros Hm Hk s. unfold bind. specialize (Hm s). destruct (m s) as [a s1|e s1|e|]; auto.
    specialize (Hk a s1). destruct (k a s1); auto; etransitivity; eauto.
  Qed.
  Lemma mok_try {A} (m : M A) : mok R h m -> mok R h (try_ m).
  Proof. intros Hm s. unfold try_. specialize (Hm s). destruct (m s); auto. Qed.
  Lemma mok_forM {A} (l : list A) (f : A -> M unit) : (forall a, mok R h (f a)) -> mok R h (forM l f).
  Proof.
    intros Hf. induction l as [|x l IH]; cbn [forM]; [apply mok_ret|].
    apply mok_bind; [apply Hf|intros _; exact IH].
  Qed.
  (* a state-dependent computation given as a function *)
  Lemma mok_fun {A} (F : State -> M A) : (forall s0, mok R h (F s0)) -> mok R h (fun s => F s s).
  Proof. intros H s. apply (H s s). Qed.
End Rules.

(** the [keeps] and [nohang] forms of the rules *)
Lemma keeps_ret {T A} (f : State -> T) (a : A) : keeps f (ret a).
Proof. apply keeps_mok, mok_ret, _. Qed.
Lemma keeps_fail {T A} (f : State -> T) e : keeps f (@fail A e).
Proof. apply keeps_mok, mok_fail, _. Qed.
Lemma keeps_panic {T A} (f : State -> T) e : keeps f (@panic A e).
Proof. apply keeps_mok, mok_panic. Qed.
Lemma keeps_get {T} (f : State -> T) : keeps f get.
Proof. apply keeps_mok, mok_get, _. Qed.
Lemma keeps_gets {T A} (f : State -> T) (g : State -> A) : keeps f (gets g).
Proof. apply keeps_mok, mok_gets, _. Qed.
Lemma keeps_modify {T} (f : State -> T) g : (forall s, f (g s) = f s) -> keeps f (modify g).
Proof. intros H. apply keeps_mok, mok_modify. exact H. Qed.
Lemma keeps_bind {T A B} (f : State -> T) (m : M A) (k : A -> M B) :
  keeps f m -> (forall a, keeps f (k a)) -> keeps f (bind m k).
Proof. intros H1 H2. apply keeps_mok, mok_bind; try exact _; [apply keeps_mok, H1|intros a; apply keeps_mok, H2]. Qed.
Lemma keeps_try {T A} (f : State -> T) (m : M A) : keeps f m -> keeps f (try_ m).
Proof. intros H. apply keeps_mok, mok_try, keeps_mok, H. Qed.
Lemma keeps_forM {T A} (f : State -> T) (l : list A) (g : A -> M unit) :
  (forall a, keeps f (g a)) -> keeps f (forM l g).
Proof. intros H. apply keeps_mok, mok_forM; try exact _; intros a; apply keeps_mok, H. Qed.
Lemma keeps_if {T A} (f : State -> T) (b : bool) (m1 m2 : M A) :
  keeps f m1 -> keeps f m2 -> keeps f (if b then m1 else m2).
Proof. destruct b; auto. Qed.
Lemma keeps_option {T A B} (f : State -> T) (o : option B) (m1 : B -> M A) (m2 : M A) :
  (forall b, keeps f (m1 b)) -> keeps f m2 -> keeps f (match o with Some b => m1 b | None => m2 end).
Proof. destruct o; auto. Qed.

Lemma nohang_mok {A} (m : M A) : nohang m <-> mok (fun _ _ => True) false m.
Proof.
  split; [|apply mok_nohang]. intros H s. specialize (H s). destruct (m s); auto; try congruence.
Qed.

(** * The tactic *)
(* side conditions of [modify]: the written field is not the projected one *)
Ltac mok_side :=
  first [ reflexivity
        | progress (unfold eqon); first [reflexivity | cbn; reflexivity | unfold set; simpl; reflexivity]
        | cbn; reflexivity
        | unfold set; simpl; reflexivity ].

Create HintDb mok discriminated.

Ltac mok_step :=
  lazymatch goal with
  | |- mok _ _ (bind _ _) => apply mok_bind; try exact _; [ | intros ?]
  | |- mok _ _ (ret _) => apply mok_ret; try exact _
  | |- mok _ _ (fail _) => apply mok_fail; try exact _
  | |- mok _ _ (panic _) => apply mok_panic
  | |- mok _ _ get => apply mok_get; try exact _
  | |- mok _ _ (gets _) => apply mok_gets; try exact _
  | |- mok _ _ (modify _) => apply mok_modify; intros ?; try mok_side
  | |- mok _ _ (try_ _) => apply mok_try
  | |- mok _ _ (forM _ _) => apply mok_forM; try exact _; intros ?
  | |- mok _ _ (let _ := _ in _) => cbv zeta
  | |- mok _ _ (match ?x with _ => _ end) => first [is_var x; destruct x | destruct x eqn:?]
  | |- mok _ _ _ => solve [auto with mok]
  end.
Ltac mok_tac := repeat mok_step.

(* the same for goals stated with [keeps] *)
Ltac keeps_tac := try apply keeps_mok; mok_tac.

(* one-step unfolding of a local [fix] applied to a constructor (no delta: named
   combinators stay folded) *)
Ltac fix_unfold := lazy beta match fix.

(* [mok] of a local loop [(fix go l a := ...) l0 a0]: by induction on the list *)
Ltac mok_loop :=
  lazymatch goal with
  | |- mok ?R ?h (?F ?l ?a) =>
      let HF := fresh "HF" in
      assert (HF : forall l' a', mok R h (F l' a'));
      [ let ll := fresh "ll" in let x := fresh "x" in let IH := fresh "IH" in
        intros ll; induction ll as [|x ll IH]; intros ?; fix_unfold
      | apply HF ]
  end.

(** * Sums over tables *)
Lemma sum_map_insert {K} `{Countable K} {A} (f : A -> Z) (m : gmap K A) k v :
  sum_map f (<[k:=v]> m) = sum_map f m - (match m !! k with Some x => f x | None => 0 end) + f v.
Proof.
  unfold sum_map.
  assert (Hc : forall (m' : gmap K A) (j1 j2 : K) (z1 z2 : A) (y : Z), j1 <> j2 -> m' !! j1 = Some z1 -> m' !! j2 = Some z2 ->
               f z1 + (f z2 + y) = f z2 + (f z1 + y)) by (intros; lia).
  destruct (m !! k) as [x|] eqn:E.
  - rewrite <- (insert_delete_insert m k v).
    rewrite (map_fold_insert_L (fun _ a acc => f a + acc) 0 k v (delete k m)); [|apply Hc|apply lookup_delete].
    rewrite <- (insert_delete m k x E) at 2.
    rewrite (map_fold_insert_L (fun _ a acc => f a + acc) 0 k x (delete k m)); [|apply Hc|apply lookup_delete].
    lia.
  - rewrite (map_fold_insert_L (fun _ a acc => f a + acc) 0 k v m); [|apply Hc|exact E]. lia.
Qed.

Lemma sum_bal_move from to amt s : sum_bal (move from to amt s) = sum_bal s.
Proof.
  unfold sum_bal, move, balance. cbn.
  rewrite !sum_map_insert.
  destruct (decide (from = to)) as [->|Hne].
  - rewrite lookup_insert. cbn. destruct (bal s !! to); cbn; lia.
  - rewrite lookup_insert_ne by exact Hne. destruct (bal s !! to), (bal s !! from); cbn; lia.
Qed.

(** * The projection kept by every handler of the storage modules *)
Definition core (s : State) :=
  (nparams s, vals s, dels s, pg s, did s, faults s, fault_idx s, fishing s, supply s, sum_bal s).

Lemma core_move from to amt s : core (move from to amt s) = core s.
Proof. unfold core. rewrite sum_bal_move. reflexivity. Qed.

Definition seed_ok (cx : Ctx) : Prop := 0 <= cx_seed cx < 10 ^ 400.

Section Core.
  Context (cx : Ctx) (h : bool) (Hh : seed_ok cx \/ h = true).
  Local Notation RC := (eqon core).

  (** ** bank *)
  Lemma send_strict_ok f t a : mok RC h (send_strict f t a).
  Proof.
    intros s. unfold send_strict. destruct (a <=? 0); [reflexivity|].
    destruct (balance s f <? a); [reflexivity|]. apply core_move.
  Qed.
  Hint Resolve send_strict_ok : mok.
  Lemma send_lenient_ok f t a : mok RC h (send_lenient f t a).
  Proof.
    intros s. unfold send_lenient. destruct (a =? 0); [reflexivity|]. apply send_strict_ok.
  Qed.
  Hint Resolve send_lenient_ok : mok.
  Lemma coin_sub_ok a b : mok RC h (coin_sub a b).
  Proof. unfold coin_sub. mok_tac. Qed.
  Hint Resolve coin_sub_ok : mok.

  (** ** node *)
  Lemma reward_age_ok p : mok RC h (reward_age p).
  Proof. unfold reward_age. mok_tac. Qed.
  Lemma end_block_node_ok : mok RC h (end_block_node cx).
  Proof. unfold end_block_node, do_penalty. mok_tac. Qed.
  Lemma node_create_ok c : mok RC h (node_create cx c).
  Proof. unfold node_create. mok_tac. Qed.
  Lemma node_reset_ok m : mok RC h (node_reset cx m).
  Proof. unfold node_reset. mok_tac. Qed.
  Lemma add_vstorage_ok c sz : mok RC h (add_vstorage c sz).
  Proof. unfold add_vstorage. mok_tac. Qed.
  Lemma remove_vstorage_ok c sz : mok RC h (remove_vstorage c sz).
  Proof. unfold remove_vstorage. mok_tac. Qed.
  Lemma repay_debt_ok sp rw : mok RC h (repay_debt sp rw).
  Proof. unfold repay_debt. mok_tac. Qed.
  Hint Resolve repay_debt_ok : mok.
  Lemma shard_pledge_ok id sh price : mok RC h (shard_pledge id sh price).
  Proof. unfold shard_pledge. mok_tac. Qed.
  Hint Resolve shard_pledge_ok : mok.
  Lemma shard_release_ok sp sh : mok RC h (shard_release sp sh).
  Proof. unfold shard_release. mok_tac. Qed.
  Hint Resolve shard_release_ok : mok.
  Lemma market_claim_ok sp : mok RC h (market_claim cx sp).
  Proof. unfold market_claim. mok_tac. Qed.
  Hint Resolve market_claim_ok : mok.
  Lemma claim_reward_ok c : mok RC h (claim_reward cx c).
  Proof. unfold claim_reward. mok_tac. Qed.
  Lemma increase_reputation_ok n v : mok RC h (increase_reputation n v).
  Proof. unfold increase_reputation. mok_tac. Qed.
  Hint Resolve increase_reputation_ok : mok.
  Lemma random_sp_m_ok count ignore size : mok RC h (random_sp_m cx count ignore size).
  Proof.
    unfold random_sp_m. mok_step; [mok_step|].
    destruct (random_sp _ _ _ _ _ _ _) as [[sps r]| |] eqn:E; mok_tac.
    destruct Hh as [[H0 H1]| ->].
    - exfalso. exact (random_sp_terminates _ _ _ _ _ _ _ H0 H1 E).
    - intros s. reflexivity.
  Qed.
  Hint Resolve random_sp_m_ok : mok.

  (** ** market, order, model *)
  Lemma send_to_did_balances_ok md d amt : mok RC h (send_to_did_balances md d amt).
  Proof.
    intros s. unfold send_to_did_balances. destruct (amt =? 0); [reflexivity|]. exact I.
  Qed.
  Hint Resolve send_to_did_balances_ok : mok.
  Lemma worker_release_ok o sh : mok RC h (worker_release cx o sh).
  Proof. unfold worker_release. mok_tac. Qed.
  Hint Resolve worker_release_ok : mok.
  Lemma worker_append_ok o sh : mok RC h (worker_append cx o sh).
  Proof. unfold worker_append. mok_tac. Qed.
  Hint Resolve worker_append_ok : mok.
  Lemma market_deposit_ok o : mok RC h (market_deposit o).
  Proof. unfold market_deposit. mok_tac. Qed.
  Hint Resolve market_deposit_ok : mok.
  Lemma market_withdraw_ok oid o : mok RC h (market_withdraw cx oid o).
  Proof. unfold market_withdraw. mok_tac. mok_loop; mok_tac. Qed.
  Hint Resolve market_withdraw_ok : mok.
  Lemma append_order_ok o : mok RC h (append_order o).
  Proof. unfold append_order. mok_tac. Qed.
  Hint Resolve append_order_ok : mok.
  Lemma append_shard_ok sh : mok RC h (append_shard sh).
  Proof. unfold append_shard. mok_tac. Qed.
  Hint Resolve append_shard_ok : mok.
  Lemma new_shard_task_ok oid o p : mok RC h (new_shard_task oid o p).
  Proof. unfold new_shard_task. mok_tac. Qed.
  Hint Resolve new_shard_task_ok : mok.
  Lemma gen_shards_ok oid sps : forall o, mok RC h (gen_shards oid o sps).
  Proof. induction sps as [|sp sps IH]; intros o; cbn [gen_shards]; mok_tac. Qed.
  Hint Resolve gen_shards_ok : mok.
  Lemma generate_shards_ok oid o sps : mok RC h (generate_shards oid o sps).
  Proof. unfold generate_shards. mok_tac. Qed.
  Hint Resolve generate_shards_ok : mok.
  Lemma new_order_ok o sps : mok RC h (new_order cx o sps).
  Proof. unfold new_order. mok_tac. Qed.
  Hint Resolve new_order_ok : mok.
  Lemma renew_order_ok o : mok RC h (renew_order o).
  Proof. unfold renew_order. mok_tac. Qed.
  Hint Resolve renew_order_ok : mok.
  Lemma order_terminate_ok oid refund : mok RC h (order_terminate oid refund).
  Proof. unfold order_terminate. mok_tac. Qed.
  Hint Resolve order_terminate_ok : mok.
  Lemma refund_order_ok oid : mok RC h (refund_order oid).
  Proof. unfold refund_order. mok_tac. Qed.
  Hint Resolve refund_order_ok : mok.
  Lemma set_data_expire_ok d a : mok RC h (set_data_expire d a).
  Proof. unfold set_data_expire. mok_tac. Qed.
  Hint Resolve set_data_expire_ok : mok.
  Lemma remove_data_expire_ok d a : mok RC h (remove_data_expire d a).
  Proof. unfold remove_data_expire. mok_tac. Qed.
  Hint Resolve remove_data_expire_ok : mok.
  Lemma new_meta_ok o d m : mok RC h (new_meta cx o d m).
  Proof. unfold new_meta. mok_tac. Qed.
  Hint Resolve new_meta_ok : mok.
  Lemma reset_meta_duration_ok d m : mok RC h (reset_meta_duration cx d m).
  Proof. unfold reset_meta_duration. mok_tac. Qed.
  Hint Resolve reset_meta_duration_ok : mok.
  Lemma extend_meta_duration_ok d e : mok RC h (extend_meta_duration d e).
  Proof. unfold extend_meta_duration. mok_tac. Qed.
  Hint Resolve extend_meta_duration_ok : mok.
  Lemma delete_meta_ok d : mok RC h (delete_meta d).
  Proof. unfold delete_meta. mok_tac. Qed.
  Hint Resolve delete_meta_ok : mok.
  Lemma model_terminate_order_ok oid o : mok RC h (model_terminate_order cx oid o).
  Proof. unfold model_terminate_order. mok_tac. Qed.
  Hint Resolve model_terminate_order_ok : mok.
  Lemma remove_shards_ok ids : mok RC h (remove_shards ids).
  Proof. unfold remove_shards. mok_tac. Qed.
  Hint Resolve remove_shards_ok : mok.
  Lemma force_push_loop_ok lc ro : forall acc, mok RC h (force_push_loop cx ro lc acc).
  Proof. induction ro as [|oid ro IH]; intros acc; cbn [force_push_loop]; mok_tac. Qed.
  Hint Resolve force_push_loop_ok : mok.
  Lemma update_meta_ok oid o : mok RC h (update_meta cx oid o).
  Proof. unfold update_meta. mok_tac. Qed.
  Hint Resolve update_meta_ok : mok.
  Lemma update_meta_status_commit_ok oid o : mok RC h (update_meta_status_commit cx oid o).
  Proof. unfold update_meta_status_commit. mok_tac. Qed.
  Hint Resolve update_meta_status_commit_ok : mok.
  Lemma rollback_meta_ok d : mok RC h (rollback_meta cx d).
  Proof. unfold rollback_meta. mok_tac. Qed.
  Hint Resolve rollback_meta_ok : mok.
  Lemma cancel_order_ok oid : mok RC h (cancel_order cx oid).
  Proof. unfold cancel_order. mok_tac. Qed.
  Hint Resolve cancel_order_ok : mok.
  Lemma update_permission_ok ow d ro rw : mok RC h (update_permission ow d ro rw).
  Proof. unfold update_permission. mok_tac. Qed.
  Hint Resolve update_permission_ok : mok.
  Lemma end_block_model_ok : mok RC h (end_block_model cx).
  Proof. unfold end_block_model. mok_tac. Qed.

  (** ** sao *)
  Lemma set_timeout_block_ok oid a : mok RC h (set_timeout_block oid a).
  Proof. unfold set_timeout_block. mok_tac. Qed.
  Hint Resolve set_timeout_block_ok : mok.
  Lemma set_expired_shard_block_ok sid a : mok RC h (set_expired_shard_block sid a).
  Proof. unfold set_expired_shard_block. mok_tac. Qed.
  Hint Resolve set_expired_shard_block_ok : mok.
  Lemma get_sps_ok o d : mok RC h (get_sps cx o d).
  Proof. unfold get_sps. mok_tac. Qed.
  Hint Resolve get_sps_ok : mok.
  Lemma sao_store_ok m : mok RC h (sao_store cx m).
  Proof. unfold sao_store. mok_tac. Qed.
  Lemma sao_ready_ok c p oid : mok RC h (sao_ready cx c p oid).
  Proof. unfold sao_ready. mok_tac. Qed.
  Lemma complete_migration_ok oid o sid sh : mok RC h (complete_migration cx oid o sid sh).
  Proof. unfold complete_migration. mok_tac. Qed.
  Hint Resolve complete_migration_ok : mok.
  Lemma sao_complete_ok c p oid cid sz ok : mok RC h (sao_complete cx c p oid cid sz ok).
  Proof. unfold sao_complete. mok_tac. Qed.
  Lemma sao_cancel_ok c p oid : mok RC h (sao_cancel cx c p oid).
  Proof. unfold sao_cancel. mok_tac. Qed.
  Lemma renew_one_ok m sd d : mok RC h (renew_one cx m sd d).
  Proof. unfold renew_one. mok_tac. mok_loop; mok_tac. Qed.
  Hint Resolve renew_one_ok : mok.
  Lemma sao_renew_ok m : mok RC h (sao_renew cx m).
  Proof. unfold sao_renew. mok_tac. Qed.
  Lemma sao_terminate_ok c p ow d sg : mok RC h (sao_terminate cx c p ow d sg).
  Proof. unfold sao_terminate. mok_tac. mok_loop; mok_tac. Qed.
  Lemma migrate_one_ok p d : mok RC h (migrate_one cx p d).
  Proof. unfold migrate_one. mok_tac. mok_loop; mok_tac. Qed.
  Hint Resolve migrate_one_ok : mok.
  Lemma sao_migrate_ok c p d : mok RC h (sao_migrate cx c p d).
  Proof. unfold sao_migrate. mok_tac. Qed.
  Lemma sao_update_permission_ok c p ow d ro rw sg v : mok RC h (sao_update_permission cx c p ow d ro rw sg v).
  Proof. unfold sao_update_permission. mok_tac. Qed.
  Lemma handle_timeout_order_ok oid : mok RC h (handle_timeout_order cx oid).
  Proof. unfold handle_timeout_order. mok_tac. all: try (mok_loop; mok_tac). Qed.
  Hint Resolve handle_timeout_order_ok : mok.
  Lemma handle_expired_shard_ok sid : mok RC h (handle_expired_shard cx sid).
  Proof. unfold handle_expired_shard. mok_tac. Qed.
  Hint Resolve handle_expired_shard_ok : mok.
  Lemma end_block_sao_ok : mok RC h (end_block_sao cx).
  Proof. unfold end_block_sao. mok_tac. Qed.
End Core.

(** * The handlers outside the common frame *)
Ltac mok_side ::=
  first [ reflexivity
        | progress (unfold eqon); first [reflexivity | cbn; reflexivity | unfold set; simpl; reflexivity
                                        | repeat case_match; reflexivity]
        | cbn; reflexivity
        | unfold set; simpl; reflexivity ].

(* everything but the DID registry *)
Definition nodid (s : State) :=
  (nodes s, pledges s, debts s, pool s, round s, faults s, fault_idx s, fishing s, nparams s, orders s, order_count s,
   shards s, shard_count s, metas s, models s, expdata s, timeouts s, expshards s, workers s, bal s, supply s,
   vals s, dels s, pg s).

Lemma lift_did_ok cx o h : mok (eqon nodid) h (lift_did cx o).
Proof. intros s. unfold lift_did. destruct (did_handle _ _ _); reflexivity. Qed.

(* everything but the fault tables and the fishing rewards *)
Definition nofault (s : State) :=
  (did s, nodes s, pledges s, debts s, pool s, round s, nparams s, orders s, order_count s,
   shards s, shard_count s, metas s, models s, expdata s, timeouts s, expshards s, workers s, bal s, supply s,
   vals s, dels s, pg s).

Lemma set_fault_ok h k f : mok (eqon nofault) h (set_fault k f).
Proof. unfold set_fault. mok_tac. Qed.
Global Hint Resolve set_fault_ok : mok.
Lemma sao_report_faults_ok cx h c p fl : mok (eqon nofault) h (sao_report_faults cx c p fl).
Proof. unfold sao_report_faults. mok_tac. Qed.
Lemma sao_recover_faults_ok cx h c p fl : mok (eqon nofault) h (sao_recover_faults cx c p fl).
Proof. unfold sao_recover_faults. mok_tac. Qed.

(* what the staking transactions and hooks leave alone *)
Definition nostake (s : State) :=
  (did s, pledges s, debts s, pool s, round s, faults s, fault_idx s, fishing s, nparams s, orders s, order_count s,
   shards s, shard_count s, metas s, models s, expdata s, timeouts s, expshards s, workers s, supply s).

Lemma set_role_ok h c r v : mok (eqon nostake) h (set_role c r v).
Proof. unfold set_role. mok_tac. Qed.
Global Hint Resolve set_role_ok : mok.
Lemma verify_super_ok h v a b : mok (eqon nostake) h (verify_super v a b).
Proof. unfold verify_super. mok_tac. Qed.
Global Hint Resolve verify_super_ok : mok.
Lemma st_event_ok h e : mok (eqon nostake) h (st_event e).
Proof. unfold st_event. mok_tac. Qed.
Global Hint Resolve st_event_ok : mok.
Lemma staking_tx_ok h evs : mok (eqon nostake) h (staking_tx evs).
Proof. unfold staking_tx. mok_tac. Qed.

(* the block reward: mints, and updates the pool *)
Definition nomint (s : State) :=
  (did s, nodes s, pledges s, debts s, round s, faults s, fault_idx s, fishing s, nparams s, orders s, order_count s,
   shards s, shard_count s, metas s, models s, expdata s, timeouts s, expshards s, workers s,
   vals s, dels s, pg s, sum_bal s - supply s).

Lemma sum_bal_mint s k a :
  sum_map (fun x : Z => x) (<[k := balance s k + a]> (bal s)) = sum_bal s + a.
Proof.
  rewrite sum_map_insert. unfold sum_bal, balance. destruct (bal s !! k); cbn; lia.
Qed.

Lemma mint_ok h m a : mok (eqon nomint) h (mint m a).
Proof.
  intros s. unfold mint. destruct (a <=? 0); [reflexivity|].
  unfold eqon, nomint. cbn. unfold sum_bal at 1. cbn. rewrite sum_bal_mint.
  f_equal. lia.
Qed.
Global Hint Resolve mint_ok : mok.
Lemma reward_age_ok' R `{!PreOrder R} h p : mok R h (reward_age p).
Proof. unfold reward_age. mok_tac. Qed.
Lemma begin_block_ok cx h : mok (eqon nomint) h (begin_block cx).
Proof. unfold begin_block. mok_tac. apply reward_age_ok'; exact _. Qed.

Definition supply_le (s s' : State) : Prop := supply s <= supply s'.
Global Instance supply_le_preorder : PreOrder supply_le.
Proof. split; [intros s; unfold supply_le; lia|intros a b c; unfold supply_le; lia]. Qed.
Ltac mok_side ::= apply Z.le_refl.
Lemma begin_block_supply_ok cx h : mok supply_le h (begin_block cx).
Proof.
  unfold begin_block. mok_tac; try (apply reward_age_ok'; exact _); try (apply Z.le_refl).
  intros s. unfold mint. destruct (_ <=? 0) eqn:E; unfold supply_le; [lia|].
  apply Z.leb_gt in E. unfold set; simpl. lia.
Qed.
Ltac mok_side ::=
  first [ reflexivity
        | progress (unfold eqon); first [reflexivity | cbn; reflexivity | unfold set; simpl; reflexivity
                                        | repeat case_match; reflexivity]
        | cbn; reflexivity
        | unfold set; simpl; reflexivity ].

(** * From handlers to [step] *)
(* the state a rejected transaction leaves: the store of [s], the process variable of [s'] *)
Definition with_pg (s : State) (p : Z) : State :=
  mkState (did s) (nodes s) (pledges s) (debts s) (pool s) (round s) (faults s) (fault_idx s) (fishing s)
          (nparams s) (orders s) (order_count s) (shards s) (shard_count s) (metas s) (models s) (expdata s)
          (timeouts s) (expshards s) (workers s) (bal s) (supply s) (vals s) (dels s) p.

Lemma deliver_state {A} (m : M A) s :
  (deliver m s).1.1 = match m s with Ok _ s' => s' | Err _ s' => with_pg s (pg s') | Panic _ => s | Hang => s end.
Proof. unfold deliver. destruct (m s); reflexivity. Qed.

Lemma block_phase_state {A} (m : M A) s :
  (block_phase m s).1.1 = match m s with Ok _ s' => s' | Err _ s' => s' | Panic _ => s | Hang => s end.
Proof. unfold block_phase. destruct (m s); reflexivity. Qed.

Lemma step_state cx s op :
  fst (step cx s op) =
  match op with
  | OBeginBlock => (block_phase (begin_block cx) s).1.1
  | OEndBlock evs => (block_phase (end_block cx evs) s).1.1
  | OSimulate evs => match staking_tx evs s with Ok _ s' | Err _ s' => with_pg s (pg s') | _ => s end
  | _ => match tx_of cx op with Some m => (deliver m s).1.1 | None => s end
  end.
Proof.
  destruct op; cbn [step tx_of];
    try (match goal with |- context [deliver ?m s] => destruct (deliver m s) as [[? ?] ?] end; reflexivity);
    try (match goal with |- context [block_phase ?m s] => destruct (block_phase m s) as [[? ?] ?] end; reflexivity).
  destruct (staking_tx evs s); reflexivity.
Qed.

(* the general transfer lemma: a relation established for every handler holds across [step] *)
Lemma step_rel (R : State -> State -> Prop) `{!PreOrder R} (P : Op -> Prop) cx :
  (forall s s', R s s' -> R s (with_pg s (pg s'))) ->
  (forall evs, P (OSimulate evs) -> forall s p, R s (with_pg s p)) ->
  (P OBeginBlock -> mok R true (begin_block cx)) ->
  (forall evs, P (OEndBlock evs) -> mok R true (end_block cx evs)) ->
  (forall op m, P op -> tx_of cx op = Some m -> mok R true m) ->
  forall s op, P op -> R s (fst (step cx s op)).
Proof.
  intros Hpg Hsim Hbb Heb Htx s op HP. rewrite step_state.
  assert (Hblk : forall A (m : M A), mok R true m -> R s (block_phase m s).1.1).
  { intros A m Hm. rewrite block_phase_state. specialize (Hm s). destruct (m s); auto; reflexivity. }
  assert (Hdel : forall m, tx_of cx op = Some m -> R s (deliver m s).1.1).
  { intros m Hm. rewrite deliver_state. specialize (Htx op m HP Hm s). destruct (m s); auto; reflexivity. }
  destruct op; try (apply Hdel; reflexivity).
  - apply Hblk, Hbb, HP.
  - apply Hblk, Heb, HP.
  - destruct (staking_tx evs s); try reflexivity; eapply Hsim; exact HP.
Qed.

Lemma step_keeps {T} (f : State -> T) (P : Op -> Prop) cx :
  (forall s s', f s' = f s -> f (with_pg s (pg s')) = f s) ->
  (forall evs, P (OSimulate evs) -> forall s p, f (with_pg s p) = f s) ->
  (P OBeginBlock -> keeps f (begin_block cx)) ->
  (forall evs, P (OEndBlock evs) -> keeps f (end_block cx evs)) ->
  (forall op m, P op -> tx_of cx op = Some m -> keeps f m) ->
  forall s op, P op -> f (fst (step cx s op)) = f s.
Proof.
  intros Hpg Hsim Hbb Heb Htx s op HP.
  apply (step_rel (eqon f) P cx); auto.
  - intros H. apply keeps_mok, Hbb, H.
  - intros evs H. apply keeps_mok, Heb, H.
  - intros op' m H E. apply keeps_mok, (Htx op' m H E).
Qed.

(* change of projection *)
Lemma keeps_sub {T U A} (f : State -> T) (g : State -> U) (m : M A) :
  (forall s s', f s' = f s -> g s' = g s) -> keeps f m -> keeps g m.
Proof. intros Hfg H s. specialize (H s). destruct (m s); auto. Qed.
Lemma mok_sub {T U A} (f : State -> T) (g : State -> U) h (m : M A) :
  (forall s s', f s' = f s -> g s' = g s) -> mok (eqon f) h m -> keeps g m.
Proof. intros Hfg H. eapply keeps_sub; [exact Hfg|]. eapply mok_keeps, H. Qed.

Ltac sub_tac :=
  let s := fresh "s" in let s' := fresh "s'" in let E := fresh "E" in
  intros s s' E; injection E; intros; try reflexivity; try congruence.

(** ** the handlers of the common frame, by operation *)
Definition core_op (op : Op) : bool :=
  match op with
  | ODid _ | OReportFaults _ _ _ | ORecoverFaults _ _ _ | OStaking _ | OSimulate _ | OBeginBlock | OEndBlock _ => false
  | _ => true
  end.

Lemma tx_core cx h (Hh : seed_ok cx \/ h = true) op m :
  core_op op = true -> tx_of cx op = Some m -> mok (eqon core) h m.
Proof.
  intros Hc E. destruct op; try discriminate Hc; cbn [tx_of] in E; injection E as <-.
  - apply node_create_ok.
  - apply node_reset_ok.
  - apply add_vstorage_ok.
  - apply remove_vstorage_ok.
  - apply mok_bind; try exact _; [apply claim_reward_ok|intros; apply mok_ret; exact _].
  - apply sao_store_ok; exact Hh.
  - apply sao_ready_ok; exact Hh.
  - apply sao_complete_ok; exact Hh.
  - apply sao_cancel_ok.
  - apply sao_renew_ok.
  - apply sao_terminate_ok.
  - apply sao_migrate_ok; exact Hh.
  - apply sao_update_permission_ok.
  - apply send_strict_ok.
Qed.

Lemma end_block_tail_ok cx h (Hh : seed_ok cx \/ h = true) :
  mok (eqon core) h (end_block_sao cx ;;; end_block_node cx ;;; end_block_model cx).
Proof.
  apply mok_bind; try exact _; [apply end_block_sao_ok; exact Hh|intros _].
  apply mok_bind; try exact _; [apply end_block_node_ok|intros _; apply end_block_model_ok].
Qed.

(* a projection determined by each of the frames of the operations allowed by [P] is kept by [step] *)
Lemma step_keeps_all {T} (f : State -> T) (P : Op -> Prop) cx :
  (forall s s', f s' = f s -> f (with_pg s (pg s')) = f s) ->
  (forall evs, P (OSimulate evs) -> forall s p, f (with_pg s p) = f s) ->
  (forall s s', core s' = core s -> f s' = f s) ->
  (P OBeginBlock -> forall s s', nomint s' = nomint s -> f s' = f s) ->
  (forall o, P (ODid o) -> forall s s', nodid s' = nodid s -> f s' = f s) ->
  (forall c p fl, P (OReportFaults c p fl) \/ P (ORecoverFaults c p fl) -> forall s s', nofault s' = nofault s -> f s' = f s) ->
  (forall evs, P (OStaking evs) \/ (P (OEndBlock evs) /\ evs <> []) -> forall s s', nostake s' = nostake s -> f s' = f s) ->
  forall s op, P op -> f (fst (step cx s op)) = f s.
Proof.
  intros Hpg Hsim Hcore Hbb Hdid Hfl Hst.
  apply step_keeps; auto.
  - intros HP. eapply mok_sub; [apply Hbb, HP|apply (begin_block_ok cx true)].
  - intros evs HP. unfold end_block. apply keeps_bind.
    + destruct evs as [|e evs]; [apply keeps_ret|].
      eapply mok_sub; [apply (Hst (e :: evs)); right; split; [exact HP|discriminate]|apply (staking_tx_ok true)].
    + intros _. eapply mok_sub; [apply Hcore|apply (end_block_tail_ok cx true); right; reflexivity].
  - intros op m HP E. destruct (core_op op) eqn:Hc.
    + eapply mok_sub; [apply Hcore|apply (tx_core cx true (or_intror eq_refl) op m Hc E)].
    + destruct op; try discriminate Hc; try discriminate E; cbn [tx_of] in E; injection E as <-.
      * eapply mok_sub; [eapply Hdid, HP|apply (lift_did_ok _ _ true)].
      * eapply mok_sub; [eapply Hfl; left; exact HP|apply (sao_report_faults_ok _ true)].
      * eapply mok_sub; [eapply Hfl; right; exact HP|apply (sao_recover_faults_ok _ true)].
      * eapply mok_sub; [eapply Hst; left; exact HP|apply (staking_tx_ok true)].
Qed.

Definition no_staking (op : Op) : bool :=
  match op with
  | OStaking _ | OSimulate _ => false
  | OEndBlock evs => match evs with [] => true | _ => false end
  | _ => true
  end.

(** * Part A *)
(** 1. configuration and staking tables are never written by the storage modules *)
Theorem step_keeps_nparams : forall cx s op, nparams (fst (step cx s op)) = nparams s.
Proof.
  intros cx s op. apply (step_keeps_all nparams (fun _ => True) cx); auto; intros; try reflexivity;
    match goal with E : _ = _ |- _ => injection E; intros; congruence end.
Qed.
Print Assumptions step_keeps_nparams.

Theorem step_keeps_staking : forall cx s op, no_staking op = true ->
  vals (fst (step cx s op)) = vals s /\ dels (fst (step cx s op)) = dels s /\ pg (fst (step cx s op)) = pg s.
Proof.
  intros cx s op Hop.
  assert (H : (fun s => (vals s, dels s, pg s)) (fst (step cx s op)) = (fun s => (vals s, dels s, pg s)) s).
  { apply (step_keeps_all (fun s => (vals s, dels s, pg s)) (fun op => no_staking op = true) cx); [..|exact Hop].
    - intros s0 s' E. injection E; intros. cbn. congruence.
    - intros evs H. discriminate H.
    - sub_tac.
    - intros _. sub_tac.
    - intros o _. sub_tac.
    - intros c p fl _. sub_tac.
    - intros evs [H|[H Hne]]; [discriminate H|]. destruct evs; [contradiction|discriminate H]. }
  cbn beta in H. injection H; auto.
Qed.
Print Assumptions step_keeps_staking.

(** 2. coins are created only by the block reward, never destroyed *)
Theorem step_supply : forall cx s op, op <> OBeginBlock -> supply (fst (step cx s op)) = supply s.
Proof.
  intros cx s op Hop. apply (step_keeps_all supply (fun op => op <> OBeginBlock) cx); auto; intros; try reflexivity;
    try contradiction;
    match goal with E : _ = _ |- _ => injection E; intros; congruence end.
Qed.
Print Assumptions step_supply.

Theorem begin_block_supply : forall cx s, supply s <= supply (fst (step cx s OBeginBlock)).
Proof.
  intros cx s. rewrite step_state, block_phase_state.
  pose proof (begin_block_supply_ok cx true s) as H. destruct (begin_block cx s); auto; unfold supply_le in *; lia.
Qed.
Print Assumptions begin_block_supply.

(** 3. conservation *)
Theorem step_conserves : forall cx s op, no_staking op = true ->
  sum_bal (fst (step cx s op)) - sum_bal s = supply (fst (step cx s op)) - supply s.
Proof.
  intros cx s op Hop.
  enough (H : (fun s => sum_bal s - supply s) (fst (step cx s op)) = (fun s => sum_bal s - supply s) s) by (cbn beta in H; lia).
  apply (step_keeps_all (fun s => sum_bal s - supply s) (fun op => no_staking op = true) cx); [..|exact Hop].
  - intros s0 s' E. reflexivity.
  - intros evs H. discriminate H.
  - sub_tac.
  - intros _. sub_tac.
  - intros o _ s0 s' E. injection E; intros. unfold sum_bal. congruence.
  - intros c p fl _ s0 s' E. injection E; intros. unfold sum_bal. congruence.
  - intros evs [H|[H Hne]]; [discriminate H|]. destruct evs; [contradiction|discriminate H].
Qed.
Print Assumptions step_conserves.

(** 4. the DID registry changes only through DID messages *)
Theorem step_keeps_did : forall cx s op, (forall o, op <> ODid o) -> did (fst (step cx s op)) = did s.
Proof.
  intros cx s op Hop. apply (step_keeps_all did (fun op => forall o, op <> ODid o) cx); auto; intros; try reflexivity;
    try (match goal with H : forall o, ODid ?x <> ODid o |- _ => exfalso; exact (H x eq_refl) end);
    match goal with E : _ = _ |- _ => injection E; intros; congruence end.
Qed.
Print Assumptions step_keeps_did.

(** 5. C19 frame: fault reports touch only the fault tables and the fishing-reward table *)
Definition fault_frame (s s' : State) : Prop :=
  did s' = did s /\ nodes s' = nodes s /\ pledges s' = pledges s /\ debts s' = debts s /\ pool s' = pool s /\ round s' = round s /\
  orders s' = orders s /\ order_count s' = order_count s /\ shards s' = shards s /\ shard_count s' = shard_count s /\
  metas s' = metas s /\ models s' = models s /\ expdata s' = expdata s /\ timeouts s' = timeouts s /\ expshards s' = expshards s /\
  workers s' = workers s /\ bal s' = bal s /\ supply s' = supply s.

Lemma nofault_frame s s' : nofault s' = nofault s -> fault_frame s s'.
Proof. intros E. injection E; intros. unfold fault_frame. repeat split; assumption. Qed.

Lemma deliver_nofault (m : M unit) s : mok (eqon nofault) true m -> fault_frame s (deliver m s).1.1.
Proof.
  intros H. rewrite deliver_state. specialize (H s).
  destruct (m s); try (unfold fault_frame; repeat split; reflexivity). apply nofault_frame, H.
Qed.

Theorem report_faults_frame : forall cx s c p fl, fault_frame s (fst (step cx s (OReportFaults c p fl))).
Proof. intros. rewrite step_state. cbn [tx_of]. apply deliver_nofault, sao_report_faults_ok. Qed.
Print Assumptions report_faults_frame.

Theorem recover_faults_frame : forall cx s c p fl, fault_frame s (fst (step cx s (ORecoverFaults c p fl))).
Proof. intros. rewrite step_state. cbn [tx_of]. apply deliver_nofault, sao_recover_faults_ok. Qed.
Print Assumptions recover_faults_frame.

(* and nothing else touches the fault tables *)
Theorem faults_only_by_reports : forall cx s op,
  (forall c p fl, op <> OReportFaults c p fl) -> (forall c p fl, op <> ORecoverFaults c p fl) ->
  faults (fst (step cx s op)) = faults s /\ fault_idx (fst (step cx s op)) = fault_idx s /\ fishing (fst (step cx s op)) = fishing s.
Proof.
  intros cx s op H1 H2.
  assert (H : (fun s => (faults s, fault_idx s, fishing s)) (fst (step cx s op)) = (fun s => (faults s, fault_idx s, fishing s)) s).
  { apply (step_keeps_all (fun s => (faults s, fault_idx s, fishing s))
             (fun op => (forall c p fl, op <> OReportFaults c p fl) /\ (forall c p fl, op <> ORecoverFaults c p fl)) cx);
      [..|split; assumption].
    - intros s0 s' E. reflexivity.
    - intros evs _ s0 p0. reflexivity.
    - sub_tac.
    - intros _. sub_tac.
    - intros o _. sub_tac.
    - intros c p fl [[Ha _]|[_ Hb]]; [exfalso; exact (Ha c p fl eq_refl)|exfalso; exact (Hb c p fl eq_refl)].
    - intros evs _. sub_tac. }
  cbn beta in H. injection H; auto.
Qed.
Print Assumptions faults_only_by_reports.

(* who may file *)
Lemma step_tx_ok cx s op s' d m :
  tx_of cx op = Some m -> (forall evs, op <> OSimulate evs) -> step cx s op = (s', OutTx COk d) -> exists a, m s = Ok a s'.
Proof.
  intros Hm Hsim E.
  assert (Hd : (let '(s1, c1, d1) := deliver m s in (s1, OutTx c1 d1)) = (s', OutTx COk d)).
  { destruct op; try discriminate Hm; cbn [step tx_of] in E; cbn [tx_of] in Hm; injection Hm as <-; exact E. }
  unfold deliver in Hd. destruct (m s) as [a s1|e s1|e|]; try discriminate Hd.
  injection Hd as -> _. exists a. reflexivity.
Qed.

Theorem report_faults_requires_fishman : forall cx s c p fl s' d,
  step cx s (OReportFaults c p fl) = (s', OutTx COk d) ->
  is_Some (nodes s !! c) /\ is_fishman s c = true.
Proof.
  intros cx s c p fl s' d E.
  apply (step_tx_ok cx s _ s' d (sao_report_faults cx c p fl)) in E; [|reflexivity|discriminate].
  destruct E as [a E]. unfold sao_report_faults, bind, get in E.
  destruct (nodes s !! c) as [n|] eqn:Hn; [|discriminate E].
  destruct (is_fishman s c) eqn:Hf; [|discriminate E]. split; [eexists; reflexivity|reflexivity].
Qed.
Print Assumptions report_faults_requires_fishman.

Theorem recover_faults_requires : forall cx s c p fl s' d,
  step cx s (ORecoverFaults c p fl) = (s', OutTx COk d) ->
  exists n, nodes s !! c = Some n /\
            ((c = p /\ Z.land (n_status n) STATUS_SERVE_STORAGE <> 0) \/ (c <> p /\ is_fishman s c = true)).
Proof.
  intros cx s c p fl s' d E.
  apply (step_tx_ok cx s _ s' d (sao_recover_faults cx c p fl)) in E; [|reflexivity|discriminate].
  destruct E as [a E]. unfold sao_recover_faults, bind, get in E.
  destruct (nodes s !! c) as [n|] eqn:Hn; [|discriminate E]. exists n. split; [reflexivity|].
  destruct (String.eqb c p) eqn:Hcp.
  - apply String.eqb_eq in Hcp. subst p. left. split; [reflexivity|].
    destruct (Z.land (n_status n) STATUS_SERVE_STORAGE =? 0) eqn:Hz; [discriminate E|].
    apply Z.eqb_neq in Hz. exact Hz.
  - apply String.eqb_neq in Hcp. right. split; [exact Hcp|].
    cbn [andb negb] in E. destruct (is_fishman s c) eqn:Hf; [reflexivity|discriminate E].
Qed.
Print Assumptions recover_faults_requires.

(** * Part B: block processing never loops forever *)
Lemma tx_nohang cx op m : seed_ok cx -> tx_of cx op = Some m -> nohang m.
Proof.
  intros Hs E. destruct (core_op op) eqn:Hc.
  - eapply mok_nohang, (tx_core cx false (or_introl Hs) op m Hc E).
  - destruct op; try discriminate Hc; try discriminate E; cbn [tx_of] in E; injection E as <-.
    + eapply mok_nohang, (lift_did_ok _ _ false).
    + eapply mok_nohang, (sao_report_faults_ok _ false).
    + eapply mok_nohang, (sao_recover_faults_ok _ false).
    + eapply mok_nohang, (staking_tx_ok false).
Qed.

Lemma nohang_bind {A B} (m : M A) (k : A -> M B) : nohang m -> (forall a, nohang (k a)) -> nohang (bind m k).
Proof.
  intros H1 H2. apply nohang_mok, mok_bind; [split; auto|apply nohang_mok, H1|intros a; apply nohang_mok, H2].
Qed.

Lemma end_block_nohang cx evs : seed_ok cx -> nohang (end_block cx evs).
Proof.
  intros Hs. unfold end_block. apply nohang_bind; [eapply mok_nohang, (staking_tx_ok false)|intros _].
  eapply mok_nohang, (end_block_tail_ok cx false (or_introl Hs)).
Qed.

Theorem step_never_hangs : forall cx s op s' o, seed_ok cx -> step cx s op = (s', o) ->
  o <> OutTx CHang "" /\ (forall d, o <> OutBlock BHung d) /\ (forall d, o <> OutTx CHang d).
Proof.
  intros cx s op s' o Hs E.
  assert (Hblk : forall A (m : M A) s1 c d, nohang m -> block_phase m s = (s1, c, d) -> c <> BHung).
  { intros A m s1 c d Hm Hb. unfold block_phase in Hb. specialize (Hm s).
    destruct (m s); try contradiction; injection Hb as _ <- _; discriminate. }
  assert (Hdel : forall (m : M unit) s1 c d, nohang m -> deliver m s = (s1, c, d) -> c <> CHang).
  { intros m s1 c d Hm Hb. unfold deliver in Hb. specialize (Hm s).
    destruct (m s); try contradiction; injection Hb as _ <- _; discriminate. }
  assert (Hmain : (forall d, o <> OutBlock BHung d) /\ (forall d, o <> OutTx CHang d)).
  { pose proof (fun m => tx_nohang cx op m Hs) as Htx.
    destruct op; cbn [step tx_of] in E;
      try (match type of E with context [deliver ?m s] =>
             destruct (deliver m s) as [[s1 c1] d1] eqn:Ed; injection E as _ <-;
             assert (Hc : c1 <> CHang) by (eapply (Hdel m), Ed; apply Htx; reflexivity);
             split; intros d0 H0; [discriminate H0|injection H0 as H0 _; contradiction] end).
    - destruct (block_phase (begin_block cx) s) as [[s1 c1] d1] eqn:Ed; injection E as _ <-.
      assert (Hc : c1 <> BHung) by (eapply Hblk, Ed; eapply mok_nohang, (begin_block_ok cx false)).
      split; intros d0 H0; [injection H0 as H0 _; contradiction|discriminate H0].
    - match type of E with context [block_phase ?m s] => destruct (block_phase m s) as [[s1 c1] d1] eqn:Ed end.
      injection E as _ <-.
      assert (Hc : c1 <> BHung) by (eapply Hblk, Ed; apply end_block_nohang, Hs).
      split; intros d0 H0; [injection H0 as H0 _; contradiction|discriminate H0].
    - match type of E with context [staking_tx ?e s] => destruct (staking_tx e s) end;
        injection E as _ <-; split; intros d0 H0; discriminate H0. }
  destruct Hmain as [H1 H2]. split; [apply H2|split; assumption].
Qed.
Print Assumptions step_never_hangs.

(** * Part C: identifiers *)
(** ** handlers that only delete orders and shards, or leave both tables alone *)
Definition Rdel (t t' : State) : Prop :=
  order_count t' = order_count t /\ shard_count t' = shard_count t /\
  (forall id, is_Some (orders t' !! id) -> is_Some (orders t !! id)) /\
  (forall id, is_Some (shards t' !! id) -> is_Some (shards t !! id)).

Global Instance Rdel_preorder : PreOrder Rdel.
Proof.
  split.
  - intros t. unfold Rdel. auto.
  - intros a b c (H1 & H2 & H3 & H4) (G1 & G2 & G3 & G4). unfold Rdel.
    split; [congruence|]. split; [congruence|]. split; intros id H; auto.
Qed.

Definition ids4 (t : State) := (orders t, order_count t, shards t, shard_count t).

Lemma Rdel_frame t t' : ids4 t' = ids4 t -> Rdel t t'.
Proof. intros E. injection E as E1 E2 E3 E4. unfold Rdel. rewrite E1, E2, E3, E4. auto. Qed.

Lemma Rdel_move f t a s : Rdel s (move f t a s).
Proof. apply Rdel_frame. reflexivity. Qed.

Lemma Rdel_orders_delete t k : Rdel t (t <| orders ::= delete k |>).
Proof.
  unfold Rdel. cbn. split; [reflexivity|]. split; [reflexivity|]. split; intros id H; [|exact H].
  apply lookup_delete_is_Some in H. tauto.
Qed.
Lemma Rdel_shards_delete t k : Rdel t (t <| shards ::= delete k |>).
Proof.
  unfold Rdel. cbn. split; [reflexivity|]. split; [reflexivity|]. split; intros id H; [exact H|].
  apply lookup_delete_is_Some in H. tauto.
Qed.
Lemma fold_delete_is_Some {A} (ids : list Z) : forall (m : gmap Z A) id,
  is_Some (fold_left (fun m id => delete id m) ids m !! id) -> is_Some (m !! id).
Proof.
  induction ids as [|x ids IH]; intros m id H; cbn in H; [exact H|].
  apply IH in H. apply lookup_delete_is_Some in H. tauto.
Qed.
Lemma Rdel_shards_fold t ids : Rdel t (t <| shards := fold_left (fun m id => delete id m) ids (shards t) |>).
Proof.
  unfold Rdel. cbn. split; [reflexivity|]. split; [reflexivity|]. split; intros id H; [exact H|].
  eapply fold_delete_is_Some, H.
Qed.

Ltac mok_side ::=
  first [ apply Rdel_frame; reflexivity
        | apply Rdel_orders_delete
        | apply Rdel_shards_delete
        | apply Rdel_shards_fold
        | reflexivity
        | progress (unfold eqon); first [reflexivity | cbn; reflexivity | unfold set; simpl; reflexivity
                                        | repeat case_match; reflexivity] ].

Section DelPass.
  Context (cx : Ctx) (h : bool) (Hh : seed_ok cx \/ h = true).
  Local Notation R := (Rdel).
  Lemma send_strict_del f t a : mok R h (send_strict f t a).
  Proof.
    intros s. unfold send_strict. destruct (a <=? 0); [reflexivity|].
    destruct (balance s f <? a); [reflexivity|]. apply Rdel_move.
  Qed.
  Hint Resolve send_strict_del : mok.
  Lemma send_lenient_del f t a : mok R h (send_lenient f t a).
  Proof.
    intros s. unfold send_lenient. destruct (a =? 0); [reflexivity|]. apply send_strict_del.
  Qed.
  Hint Resolve send_lenient_del : mok.
  Lemma coin_sub_del a b : mok R h (coin_sub a b).
  Proof. unfold coin_sub. mok_tac. Qed.
  Hint Resolve coin_sub_del : mok.
  Lemma repay_debt_del sp rw : mok R h (repay_debt sp rw).
  Proof. unfold repay_debt. mok_tac. Qed.
  Hint Resolve repay_debt_del : mok.
  Lemma shard_release_del sp sh : mok R h (shard_release sp sh).
  Proof. unfold shard_release. mok_tac. Qed.
  Hint Resolve shard_release_del : mok.
  Lemma market_claim_del sp : mok R h (market_claim cx sp).
  Proof. unfold market_claim. mok_tac. Qed.
  Hint Resolve market_claim_del : mok.
  Lemma claim_reward_del c : mok R h (claim_reward cx c).
  Proof. unfold claim_reward. mok_tac. Qed.
  Hint Resolve claim_reward_del : mok.
  Lemma increase_reputation_del n v : mok R h (increase_reputation n v).
  Proof. unfold increase_reputation. mok_tac. Qed.
  Hint Resolve increase_reputation_del : mok.
  Lemma random_sp_m_del count ignore size : mok R h (random_sp_m cx count ignore size).
  Proof.
    unfold random_sp_m. mok_step; [mok_step|].
    destruct (random_sp _ _ _ _ _ _ _) as [[sps r]| |] eqn:E; mok_tac.
    destruct Hh as [[H0 H1]| ->].
    - exfalso. exact (random_sp_terminates _ _ _ _ _ _ _ H0 H1 E).
    - intros s. reflexivity.
  Qed.
  Hint Resolve random_sp_m_del : mok.
  Lemma node_create_del c : mok R h (node_create cx c).
  Proof. unfold node_create. mok_tac. Qed.
  Hint Resolve node_create_del : mok.
  Lemma node_reset_del m : mok R h (node_reset cx m).
  Proof. unfold node_reset. mok_tac. Qed.
  Hint Resolve node_reset_del : mok.
  Lemma add_vstorage_del c sz : mok R h (add_vstorage c sz).
  Proof. unfold add_vstorage. mok_tac. Qed.
  Hint Resolve add_vstorage_del : mok.
  Lemma remove_vstorage_del c sz : mok R h (remove_vstorage c sz).
  Proof. unfold remove_vstorage. mok_tac. Qed.
  Hint Resolve remove_vstorage_del : mok.
  Lemma end_block_node_del : mok R h (end_block_node cx ).
  Proof. unfold end_block_node, do_penalty. mok_tac. Qed.
  Hint Resolve end_block_node_del : mok.
  Lemma send_to_did_balances_del md d amt : mok R h (send_to_did_balances md d amt).
  Proof.
    unfold send_to_did_balances. destruct (amt =? 0); [apply mok_ret; exact _|]. intros s. exact I.
  Qed.
  Hint Resolve send_to_did_balances_del : mok.
  Lemma worker_release_del o sh : mok R h (worker_release cx o sh).
  Proof. unfold worker_release. mok_tac. Qed.
  Hint Resolve worker_release_del : mok.
  Lemma worker_append_del o sh : mok R h (worker_append cx o sh).
  Proof. unfold worker_append. mok_tac. Qed.
  Hint Resolve worker_append_del : mok.
  Lemma market_deposit_del o : mok R h (market_deposit o).
  Proof. unfold market_deposit. mok_tac. Qed.
  Hint Resolve market_deposit_del : mok.
  Lemma market_withdraw_del oid o : mok R h (market_withdraw cx oid o).
  Proof. unfold market_withdraw. mok_tac. mok_loop; mok_tac. Qed.
  Hint Resolve market_withdraw_del : mok.
  Lemma order_terminate_del oid refund : mok R h (order_terminate oid refund).
  Proof. unfold order_terminate. mok_tac. Qed.
  Hint Resolve order_terminate_del : mok.
  Lemma refund_order_del oid : mok R h (refund_order oid).
  Proof. unfold refund_order. mok_tac. Qed.
  Hint Resolve refund_order_del : mok.
  Lemma set_data_expire_del d a : mok R h (set_data_expire d a).
  Proof. unfold set_data_expire. mok_tac. Qed.
  Hint Resolve set_data_expire_del : mok.
  Lemma remove_data_expire_del d a : mok R h (remove_data_expire d a).
  Proof. unfold remove_data_expire. mok_tac. Qed.
  Hint Resolve remove_data_expire_del : mok.
  Lemma new_meta_del o d m : mok R h (new_meta cx o d m).
  Proof. unfold new_meta. mok_tac. Qed.
  Hint Resolve new_meta_del : mok.
  Lemma reset_meta_duration_del d m : mok R h (reset_meta_duration cx d m).
  Proof. unfold reset_meta_duration. mok_tac. Qed.
  Hint Resolve reset_meta_duration_del : mok.
  Lemma extend_meta_duration_del d e : mok R h (extend_meta_duration d e).
  Proof. unfold extend_meta_duration. mok_tac. Qed.
  Hint Resolve extend_meta_duration_del : mok.
  Lemma delete_meta_del d : mok R h (delete_meta d).
  Proof. unfold delete_meta. mok_tac. Qed.
  Hint Resolve delete_meta_del : mok.
  Lemma model_terminate_order_del oid o : mok R h (model_terminate_order cx oid o).
  Proof. unfold model_terminate_order. mok_tac. Qed.
  Hint Resolve model_terminate_order_del : mok.
  Lemma remove_shards_del ids : mok R h (remove_shards ids).
  Proof. unfold remove_shards. mok_tac. Qed.
  Hint Resolve remove_shards_del : mok.
  Lemma force_push_loop_del lc ro : forall acc, mok R h (force_push_loop cx ro lc acc).
  Proof. induction ro as [|oid ro IH]; intros acc; cbn [force_push_loop]; mok_tac. Qed.
  Hint Resolve force_push_loop_del : mok.
  Lemma update_meta_del oid o : mok R h (update_meta cx oid o).
  Proof. unfold update_meta. mok_tac. Qed.
  Hint Resolve update_meta_del : mok.
  Lemma update_meta_status_commit_del oid o : mok R h (update_meta_status_commit cx oid o).
  Proof. unfold update_meta_status_commit. mok_tac. Qed.
  Hint Resolve update_meta_status_commit_del : mok.
  Lemma rollback_meta_del d : mok R h (rollback_meta cx d).
  Proof. unfold rollback_meta. mok_tac. Qed.
  Hint Resolve rollback_meta_del : mok.
  Lemma cancel_order_del oid : mok R h (cancel_order cx oid).
  Proof. unfold cancel_order. mok_tac. Qed.
  Hint Resolve cancel_order_del : mok.
  Lemma update_permission_del ow d ro rw : mok R h (update_permission ow d ro rw).
  Proof. unfold update_permission. mok_tac. Qed.
  Hint Resolve update_permission_del : mok.
  Lemma end_block_model_del : mok R h (end_block_model cx ).
  Proof. unfold end_block_model. mok_tac. Qed.
  Hint Resolve end_block_model_del : mok.
  Lemma set_timeout_block_del oid a : mok R h (set_timeout_block oid a).
  Proof. unfold set_timeout_block. mok_tac. Qed.
  Hint Resolve set_timeout_block_del : mok.
  Lemma set_expired_shard_block_del sid a : mok R h (set_expired_shard_block sid a).
  Proof. unfold set_expired_shard_block. mok_tac. Qed.
  Hint Resolve set_expired_shard_block_del : mok.
  Lemma get_sps_del o d : mok R h (get_sps cx o d).
  Proof. unfold get_sps. mok_tac. Qed.
  Hint Resolve get_sps_del : mok.
  Lemma sao_cancel_del c p oid : mok R h (sao_cancel cx c p oid).
  Proof. unfold sao_cancel. mok_tac. Qed.
  Hint Resolve sao_cancel_del : mok.
  Lemma sao_terminate_del c p ow d sg : mok R h (sao_terminate cx c p ow d sg).
  Proof. unfold sao_terminate. mok_tac. mok_loop; mok_tac. Qed.
  Hint Resolve sao_terminate_del : mok.
  Lemma sao_update_permission_del c p ow d ro rw sg v : mok R h (sao_update_permission cx c p ow d ro rw sg v).
  Proof. unfold sao_update_permission. mok_tac. Qed.
  Hint Resolve sao_update_permission_del : mok.
End DelPass.


Lemma eqon_Rdel {T A} (f : State -> T) h (m : M A) :
  (forall s s', f s' = f s -> ids4 s' = ids4 s) -> mok (eqon f) h m -> mok Rdel h m.
Proof. intros Hf. apply mok_weaken; [|auto]. intros s s' E. apply Rdel_frame, Hf, E. Qed.

(** ** the invariant relative to the state [b] at the start of the step, with budgets *)
Section Ids.
  Context (b : State) (Hb1 : 0 <= order_count b) (Hb2 : 0 <= shard_count b).

  Definition okO (k : Z) : Prop := 0 <= k /\ (is_Some (orders b !! k) \/ order_count b <= k).
  Definition okS (k : Z) : Prop := 0 <= k /\ (is_Some (shards b !! k) \/ shard_count b <= k).

  Definition J (t : State) : Prop :=
    order_count b <= order_count t /\ shard_count b <= shard_count t /\
    (forall id, is_Some (orders t !! id) -> okO id /\ id < order_count t) /\
    (forall id, is_Some (shards t !! id) -> okS id /\ id < shard_count t).

  Definition post (t t' : State) (N K : Z) : Prop :=
    J t' /\ (order_count t <= order_count t' <= order_count t + N) /\
    (shard_count t <= shard_count t' <= shard_count t + K).

  (* [m] run from [t] appends at most [N] orders and [K] shards, keeps [J], and its result satisfies [V] *)
  Definition tri {A} (N K : Z) (m : M A) (V : A -> State -> Prop) (t : State) : Prop :=
    J t -> order_count t + N < two64 -> shard_count t + K < two64 ->
    match m t with
    | Ok a t' => post t t' N K /\ V a t'
    | Err _ t' => post t t' N K
    | Panic _ => True
    | Hang => True
    end.

  Lemma J_step t t' :
    J t -> order_count t <= order_count t' -> shard_count t <= shard_count t' ->
    (forall id, is_Some (orders t' !! id) -> is_Some (orders t !! id) \/ (okO id /\ id < order_count t')) ->
    (forall id, is_Some (shards t' !! id) -> is_Some (shards t !! id) \/ (okS id /\ id < shard_count t')) ->
    J t'.
  Proof.
    intros (J1 & J2 & J3 & J4) Ho Hs HO HS. unfold J.
    split; [lia|]. split; [lia|]. split; intros id H.
    - destruct (HO id H) as [H'|H']; [|exact H']. destruct (J3 id H') as [? ?]. split; [assumption|lia].
    - destruct (HS id H) as [H'|H']; [|exact H']. destruct (J4 id H') as [? ?]. split; [assumption|lia].
  Qed.

  Lemma J_frame t t' : ids4 t' = ids4 t -> J t -> J t'.
  Proof. intros E. injection E as E1 E2 E3 E4. unfold J. rewrite E1, E2, E3, E4. auto. Qed.

  Lemma J_Rdel t t' : Rdel t t' -> J t -> J t'.
  Proof.
    intros (E1 & E2 & E3 & E4) HJ. apply (J_step t t' HJ); try lia; intros id H; left; auto.
  Qed.

  Lemma post_refl t N K : J t -> 0 <= N -> 0 <= K -> post t t N K.
  Proof. intros. unfold post. split; [assumption|lia]. Qed.

  Lemma tri_ret {A} N K (a : A) (V : A -> State -> Prop) t :
    0 <= N -> 0 <= K -> (J t -> V a t) -> tri N K (ret a) V t.
  Proof. intros HN HK HV HJ _ _. cbn. split; [apply post_refl; assumption|auto]. Qed.
  Lemma tri_fail {A} N K e (V : A -> State -> Prop) t : 0 <= N -> 0 <= K -> tri N K (fail e) V t.
  Proof. intros HN HK HJ _ _. cbn. apply post_refl; assumption. Qed.
  Lemma tri_panic {A} N K e (V : A -> State -> Prop) t : tri N K (panic e) V t.
  Proof. intros HJ _ _. exact I. Qed.
  Lemma tri_get_bind {A} N K (k : State -> M A) V t : tri N K (k t) V t -> tri N K (bind get k) V t.
  Proof. intros H. exact H. Qed.
  Lemma tri_bind {A B} N K n1 k1 (m : M A) (k : A -> M B) V1 V t :
    tri n1 k1 m V1 t -> n1 <= N -> k1 <= K ->
    (forall a t', J t' -> order_count t <= order_count t' -> shard_count t <= shard_count t' -> V1 a t' ->
                  tri (N - n1) (K - k1) (k a) V t') ->
    tri N K (bind m k) V t.
  Proof.
    intros Hm Hn1 Hk1 Hk HJ HN HK. unfold bind.
    assert (Hpre : forall t', post t t' n1 k1 -> forall t'' , post t' t'' (N - n1) (K - k1) -> post t t'' N K).
    { intros t' (Ja & Jb & Jc) t'' (Jd & Je & Jf). unfold post. split; [assumption|lia]. }
    specialize (Hm HJ ltac:(lia) ltac:(lia)).
    destruct (m t) as [a t'|e t'|e|] eqn:Em; auto.
    - destruct Hm as [Hp HV]. pose proof Hp as (Ja & Jb & Jc).
      specialize (Hk a t' Ja ltac:(lia) ltac:(lia) HV Ja ltac:(lia) ltac:(lia)).
      destruct (k a t') as [a2 t''|e2 t''|e2|]; auto.
      + destruct Hk as [Hp2 HV2]. split; [eapply Hpre; eassumption|exact HV2].
      + eapply Hpre; eassumption.
    - destruct Hm as (Ja & Jb & Jc). unfold post. split; [assumption|lia].
  Qed.

  Lemma tri_modify N K g (V : unit -> State -> Prop) t :
    (J t -> order_count t + N < two64 -> shard_count t + K < two64 -> post t (g t) N K /\ V tt (g t)) ->
    tri N K (modify g) V t.
  Proof. intros H HJ HN HK. cbn. auto. Qed.

  Lemma tri_try {A} N K (m : M A) (V : A -> State -> Prop) t :
    tri N K m V t -> tri N K (try_ m) (fun o t' => match o with Some a => V a t' | None => True end) t.
  Proof. intros H HJ HN HK. specialize (H HJ HN HK). unfold try_. destruct (m t); auto. Qed.

  Lemma tri_conseq {A} N K N' K' (m : M A) (V V' : A -> State -> Prop) t :
    tri N K m V t -> N <= N' -> K <= K' -> (forall a t', V a t' -> V' a t') -> tri N' K' m V' t.
  Proof.
    intros H HN HK HV HJ HN' HK'. specialize (H HJ ltac:(lia) ltac:(lia)).
    assert (Hp : forall t', post t t' N K -> post t t' N' K').
    { intros t' (Ja & Jb & Jc). unfold post. split; [assumption|lia]. }
    destruct (m t); auto. destruct H as [H1 H2]. auto.
  Qed.

  (* handlers that append nothing *)
  Lemma tri_del {A} h N K (m : M A) t : mok Rdel h m -> 0 <= N -> 0 <= K -> tri N K m (fun _ _ => True) t.
  Proof.
    intros H HN HK HJ _ _. specialize (H t).
    assert (Hp : forall t', Rdel t t' -> post t t' N K).
    { intros t' HR. pose proof HR as (E1 & E2 & _). unfold post. split; [eapply J_Rdel; eassumption|lia]. }
    destruct (m t); auto.
  Qed.

  (* a fact about the result and final state, proved separately *)
  Lemma tri_val {A} N K (m : M A) (V : A -> State -> Prop) (P : A -> State -> Prop) t :
    (forall a t', m t = Ok a t' -> P a t') -> tri N K m V t -> tri N K m (fun a t' => V a t' /\ P a t') t.
  Proof.
    intros HP H HJ HN HK. specialize (H HJ HN HK). destruct (m t) eqn:E; auto.
    destruct H as [H1 H2]. split; [assumption|]. split; [assumption|]. eapply HP. reflexivity.
  Qed.

  Lemma tri_forM {A} c d (l : list A) (f : A -> M unit) (I : State -> Prop) :
    0 <= c -> 0 <= d ->
    (forall x t, I t -> tri c d (f x) (fun _ t' => I t') t) ->
    forall t, I t -> tri (Z.of_nat (length l) * c) (Z.of_nat (length l) * d) (forM l f) (fun _ t' => I t') t.
  Proof.
    intros Hc Hd Hf. induction l as [|x l IH]; intros t Ht.
    - cbn [forM length]. apply tri_ret; [lia|lia|auto].
    - cbn [forM]. eapply (tri_bind _ _ c d); [apply Hf, Ht|cbn [length]; nia|cbn [length]; nia|].
      intros a t' HJ' _ _ Ht'.
      eapply tri_conseq; [apply IH, Ht'|cbn [length]; nia|cbn [length]; nia|auto].
  Qed.
End Ids.

Global Hint Resolve send_strict_del send_lenient_del coin_sub_del repay_debt_del shard_release_del market_claim_del claim_reward_del increase_reputation_del random_sp_m_del node_create_del node_reset_del add_vstorage_del remove_vstorage_del end_block_node_del send_to_did_balances_del worker_release_del worker_append_del market_deposit_del market_withdraw_del order_terminate_del refund_order_del set_data_expire_del remove_data_expire_del new_meta_del reset_meta_duration_del extend_meta_duration_del delete_meta_del model_terminate_order_del remove_shards_del force_push_loop_del update_meta_del update_meta_status_commit_del rollback_meta_del cancel_order_del update_permission_del end_block_model_del set_timeout_block_del set_expired_shard_block_del get_sps_del sao_cancel_del sao_terminate_del sao_update_permission_del : mok.

Lemma lift_did_del cx o h : mok Rdel h (lift_did cx o).
Proof. eapply eqon_Rdel; [|apply lift_did_ok]. intros s s' E; injection E; intros; unfold ids4; congruence. Qed.
Lemma sao_report_faults_del cx h c p fl : mok Rdel h (sao_report_faults cx c p fl).
Proof. eapply eqon_Rdel; [|apply sao_report_faults_ok]. intros s s' E; injection E; intros; unfold ids4; congruence. Qed.
Lemma sao_recover_faults_del cx h c p fl : mok Rdel h (sao_recover_faults cx c p fl).
Proof. eapply eqon_Rdel; [|apply sao_recover_faults_ok]. intros s s' E; injection E; intros; unfold ids4; congruence. Qed.
Lemma staking_tx_del h evs : mok Rdel h (staking_tx evs).
Proof. eapply eqon_Rdel; [|apply staking_tx_ok]. intros s s' E; injection E; intros; unfold ids4; congruence. Qed.
Lemma begin_block_del cx h : mok Rdel h (begin_block cx).
Proof. eapply eqon_Rdel; [|apply begin_block_ok]. intros s s' E; injection E; intros; unfold ids4; congruence. Qed.

Section IdsH.
  Context (b : State) (Hb1 : 0 <= order_count b) (Hb2 : 0 <= shard_count b).
  Local Notation J := (J b).
  Local Notation okO := (okO b).
  Local Notation okS := (okS b).
  Local Notation tri := (tri b).
  Local Notation post := (post b).

  Lemma J_orders t k o : J t -> orders t !! k = Some o -> okO k /\ k < order_count t.
  Proof. intros (_ & _ & H & _) E. apply H. rewrite E. eexists; reflexivity. Qed.
  Lemma J_shards t k o : J t -> shards t !! k = Some o -> okS k /\ k < shard_count t.
  Proof. intros (_ & _ & _ & H) E. apply H. rewrite E. eexists; reflexivity. Qed.

  Definition Vo (id : Z) (t' : State) : Prop := okO id /\ id < order_count t'.
  Definition Vs (id : Z) (t' : State) : Prop := okS id /\ id < shard_count t'.

  Lemma append_order_tri o t : tri 1 0 (append_order o) Vo t.
  Proof.
    intros HJ HN HK. pose proof HJ as (J1 & J2 & J3 & J4).
    unfold append_order, bind, get, modify, ret. cbn.
    rewrite u64_id by (unfold two64 in *; lia).
    assert (Hok : okO (order_count t)) by (split; [lia|right; lia]).
    split; [|split; [exact Hok|cbn; lia]].
    split; [|cbn; lia].
    apply (J_step b t); [exact HJ|cbn; lia|cbn; lia| |]; cbn; intros id H.
    - apply lookup_insert_is_Some in H. destruct H as [<-|[_ H]]; [right; split; [exact Hok|lia]|left; exact H].
    - left; exact H.
  Qed.

  Lemma append_shard_tri sh t : tri 0 1 (append_shard sh) Vs t.
  Proof.
    intros HJ HN HK. pose proof HJ as (J1 & J2 & J3 & J4).
    unfold append_shard, bind, get, modify, ret. cbn.
    rewrite u64_id by (unfold two64 in *; lia).
    assert (Hok : okS (shard_count t)) by (split; [lia|right; lia]).
    split; [|split; [exact Hok|cbn; lia]].
    split; [|cbn; lia].
    apply (J_step b t); [exact HJ|cbn; lia|cbn; lia| |]; cbn; intros id H.
    - left; exact H.
    - apply lookup_insert_is_Some in H. destruct H as [<-|[_ H]]; [right; split; [exact Hok|lia]|left; exact H].
  Qed.

  Lemma new_shard_task_tri oid o p t : tri 0 1 (new_shard_task oid o p) Vs t.
  Proof. apply append_shard_tri. Qed.

  (** the shapes of [modify] *)
  Lemma post_upd t t' N K :
    J t -> 0 <= N -> 0 <= K -> order_count t' = order_count t -> shard_count t' = shard_count t ->
    (forall id, is_Some (orders t' !! id) -> is_Some (orders t !! id) \/ (okO id /\ id < order_count t)) ->
    (forall id, is_Some (shards t' !! id) -> is_Some (shards t !! id) \/ (okS id /\ id < shard_count t)) ->
    post t t' N K.
  Proof.
    intros HJ HN HK E1 E2 HO HS. split; [|lia].
    apply (J_step b t); [exact HJ|lia|lia| |]; intros id H.
    - destruct (HO id H) as [H'|[H1 H2]]; [left; exact H'|right; split; [exact H1|lia]].
    - destruct (HS id H) as [H'|[H1 H2]]; [left; exact H'|right; split; [exact H1|lia]].
  Qed.
  Lemma post_frame t t' N K : ids4 t' = ids4 t -> J t -> 0 <= N -> 0 <= K -> post t t' N K.
  Proof.
    intros E HJ HN HK. injection E as E1 E2 E3 E4.
    apply post_upd; auto; intros id H; left; [rewrite <- E1|rewrite <- E3]; exact H.
  Qed.
  Lemma post_orders_insert t t' k v N K :
    orders t' = <[k:=v]> (orders t) -> order_count t' = order_count t -> shards t' = shards t ->
    shard_count t' = shard_count t -> okO k /\ k < order_count t -> J t -> 0 <= N -> 0 <= K -> post t t' N K.
  Proof.
    intros E1 E2 E3 E4 Hk HJ HN HK. apply post_upd; auto; intros id H.
    - rewrite E1 in H. apply lookup_insert_is_Some in H. destruct H as [<-|[_ H]]; [right; exact Hk|left; exact H].
    - rewrite E3 in H. left; exact H.
  Qed.
  Lemma post_orders_delete t t' k N K :
    orders t' = delete k (orders t) -> order_count t' = order_count t -> shards t' = shards t ->
    shard_count t' = shard_count t -> J t -> 0 <= N -> 0 <= K -> post t t' N K.
  Proof.
    intros E1 E2 E3 E4 HJ HN HK. apply post_upd; auto; intros id H.
    - rewrite E1 in H. apply lookup_delete_is_Some in H. left; tauto.
    - rewrite E3 in H. left; exact H.
  Qed.
  Lemma post_shards_insert t t' k v N K :
    orders t' = orders t -> order_count t' = order_count t -> shards t' = <[k:=v]> (shards t) ->
    shard_count t' = shard_count t -> okS k /\ k < shard_count t -> J t -> 0 <= N -> 0 <= K -> post t t' N K.
  Proof.
    intros E1 E2 E3 E4 Hk HJ HN HK. apply post_upd; auto; intros id H.
    - rewrite E1 in H. left; exact H.
    - rewrite E3 in H. apply lookup_insert_is_Some in H. destruct H as [<-|[_ H]]; [right; exact Hk|left; exact H].
  Qed.
  Lemma post_shards_delete t t' k N K :
    orders t' = orders t -> order_count t' = order_count t -> shards t' = delete k (shards t) ->
    shard_count t' = shard_count t -> J t -> 0 <= N -> 0 <= K -> post t t' N K.
  Proof.
    intros E1 E2 E3 E4 HJ HN HK. apply post_upd; auto; intros id H.
    - rewrite E1 in H. left; exact H.
    - rewrite E3 in H. apply lookup_delete_is_Some in H. left; tauto.
  Qed.
  Lemma post_shards_fold t t' ids N K :
    orders t' = orders t -> order_count t' = order_count t ->
    shards t' = fold_left (fun m id => delete id m) ids (shards t) ->
    shard_count t' = shard_count t -> J t -> 0 <= N -> 0 <= K -> post t t' N K.
  Proof.
    intros E1 E2 E3 E4 HJ HN HK. apply post_upd; auto; intros id H.
    - rewrite E1 in H. left; exact H.
    - rewrite E3 in H. apply fold_delete_is_Some in H. left; exact H.
  Qed.

  (* weakening of key facts along the counters *)
  Lemma okO_lt k c c' : okO k /\ k < c -> c <= c' -> okO k /\ k < c'.
  Proof. intros [H1 H2] H. split; [exact H1|lia]. Qed.
  Lemma okS_lt k c c' : okS k /\ k < c -> c <= c' -> okS k /\ k < c'.
  Proof. intros [H1 H2] H. split; [exact H1|lia]. Qed.
End IdsH.

(* key facts of the lookups in context *)
Ltac note_keys :=
  repeat match goal with
    | E : orders ?t !! ?k = Some ?o, HJ : J ?b ?t |- _ =>
        lazymatch goal with
        | _ : okO b k /\ k < order_count t |- _ => fail
        | _ => pose proof (J_orders b t k o HJ E)
        end
    | E : shards ?t !! ?k = Some ?o, HJ : J ?b ?t |- _ =>
        lazymatch goal with
        | _ : okS b k /\ k < shard_count t |- _ => fail
        | _ => pose proof (J_shards b t k o HJ E)
        end
    end.

Ltac key_solve :=
  note_keys;
  match goal with
  | H : okO ?b ?k /\ ?k < _ |- okO ?b ?k /\ ?k < _ => apply (okO_lt b k _ _ H); lia
  | H : okS ?b ?k /\ ?k < _ |- okS ?b ?k /\ ?k < _ => apply (okS_lt b k _ _ H); lia
  | H : Vo ?b ?k _ |- okO ?b ?k /\ ?k < _ => apply (okO_lt b k _ _ H); lia
  | H : Vs ?b ?k _ |- okS ?b ?k /\ ?k < _ => apply (okS_lt b k _ _ H); lia
  end.

(* the state after a [modify] *)
Ltac post_tac :=
  first [ eapply post_frame; [reflexivity|eassumption|lia|lia]
        | eapply post_orders_delete; [reflexivity|reflexivity|reflexivity|reflexivity|eassumption|lia|lia]
        | eapply post_shards_delete; [reflexivity|reflexivity|reflexivity|reflexivity|eassumption|lia|lia]
        | eapply post_shards_fold; [reflexivity|reflexivity|reflexivity|reflexivity|eassumption|lia|lia]
        | eapply post_orders_insert; [reflexivity|reflexivity|reflexivity|reflexivity|key_solve|eassumption|lia|lia]
        | eapply post_shards_insert; [reflexivity|reflexivity|reflexivity|reflexivity|key_solve|eassumption|lia|lia] ].

Create HintDb tri discriminated.

Ltac tri_sub :=
  first [ solve [eauto with tri]
        | eapply (tri_del _ true 0 0); [solve [mok_tac]|lia|lia] ].

Ltac tri_step :=
  lazymatch goal with
  | |- tri _ _ _ (bind get _) _ _ => apply tri_get_bind; cbv beta
  | |- tri _ _ _ (bind _ _) _ _ =>
      eapply tri_bind; [tri_sub|lia|lia|intros ? ? ? ? ? ?]
  | |- tri _ _ _ (ret _) _ _ => apply tri_ret; [lia|lia|intros ?; try exact I]
  | |- tri _ _ _ (fail _) _ _ => apply tri_fail; lia
  | |- tri _ _ _ (panic _) _ _ => apply tri_panic
  | |- tri _ _ _ (modify _) _ _ => apply tri_modify; intros ? ? ?; split; [post_tac|try exact I]
  | |- tri _ _ _ (let _ := _ in _) _ _ => cbv zeta
  | |- tri _ _ _ (match ?x with _ => _ end) _ _ => first [is_var x; destruct x | destruct x eqn:?]
  | |- tri _ _ _ _ _ _ =>
      eapply tri_conseq; [tri_sub|lia|lia|intros; try exact I]
  end.
Ltac tri_tac := repeat tri_step.

Ltac tri_ret_tac := first [ exact I | unfold Vo, Vs; cbn [fst snd]; key_solve | idtac ].
Ltac tri_step ::=
  lazymatch goal with
  | |- tri _ _ _ (bind get _) _ _ => apply tri_get_bind; cbv beta
  | |- tri _ _ _ (bind (modify _) _) _ _ =>
      eapply (tri_bind _ _ _ 0 0 _ _ (fun _ _ => True));
      [apply tri_modify; intros ? ? ?; split; [post_tac|exact I]|lia|lia|intros ? ? ? ? ? _]
  | |- tri _ _ _ (bind _ _) _ _ =>
      eapply tri_bind; [tri_sub|lia|lia|intros ? ? ? ? ? ?]
  | |- tri _ _ _ (ret _) _ _ => apply tri_ret; [lia|lia|intros ?; tri_ret_tac]
  | |- tri _ _ _ (fail _) _ _ => apply tri_fail; lia
  | |- tri _ _ _ (panic _) _ _ => apply tri_panic
  | |- tri _ _ _ (modify _) _ _ => apply tri_modify; intros ? ? ?; split; [post_tac|tri_ret_tac]
  | |- tri _ _ _ (let _ := _ in _) _ _ => cbv zeta
  | |- tri _ _ _ (match ?x with _ => _ end) _ _ => first [is_var x; destruct x | destruct x eqn:?]
  | |- tri _ _ _ _ _ _ =>
      eapply tri_conseq; [tri_sub|lia|lia|intros; tri_ret_tac]
  end.

Section IdsH2.
  Context (b : State) (Hb1 : 0 <= order_count b) (Hb2 : 0 <= shard_count b).
  Local Notation tri := (tri b).
  Hint Resolve append_order_tri append_shard_tri new_shard_task_tri : tri.

  Lemma gen_shards_tri oid sps : forall o t,
    tri 0 (Z.of_nat (length sps)) (gen_shards oid o sps) (fun _ _ => True) t.
  Proof.
    induction sps as [|sp sps IH]; intros o t; cbn [gen_shards length]; [tri_tac|].
    eapply tri_bind; [apply new_shard_task_tri; assumption|lia|lia|intros id t' _ _ _ _].
    eapply tri_conseq; [apply IH|lia|lia|auto].
  Qed.
  Hint Resolve gen_shards_tri : tri.

  Lemma generate_shards_tri oid o sps t :
    tri 0 (Z.of_nat (length sps)) (generate_shards oid o sps) (fun _ _ => True) t.
  Proof. unfold generate_shards. destruct sps as [|sp sps]; [tri_tac|]. tri_tac. Qed.
  Hint Resolve generate_shards_tri : tri.

  Lemma new_order_tri cx o sps t :
    tri 1 (Z.of_nat (length sps)) (new_order cx o sps) (fun r t' => Vo b r.1 t') t.
  Proof. unfold new_order. tri_tac. Qed.
  Hint Resolve new_order_tri : tri.

  Lemma renew_order_tri o t : tri 1 0 (renew_order o) (Vo b) t.
  Proof. unfold renew_order. tri_tac. Qed.
  Hint Resolve renew_order_tri : tri.

  Lemma shard_pledge_tri id sh price t :
    okS b id /\ id < shard_count t -> tri 0 0 (shard_pledge id sh price) (fun _ _ => True) t.
  Proof. intros Hk. unfold shard_pledge. tri_tac. Qed.
End IdsH2.

(** ** facts about the values the handlers compute *)
(* [random_sp_spec] without its (unused) hypothesis on the seed *)
Lemma random_sp_facts nodes pledges round0 seed count ignore size sps r :
  random_sp nodes pledges round0 seed count ignore size = SelOk (sps, r) ->
  NoDup (map c_addr sps) /\
  (forall c, In c sps -> nodes !! c_addr c = Some (c_node c)) /\
  Z.of_nat (length sps) <= Z.max 0 count.
Proof.
  intros Hres.
  assert (H : NoDup (map c_addr sps) /\
              (forall c, In c sps -> nodes !! c_addr c = Some (c_node c) /\ eligible pledges size c = true /\
                                     in_list (c_addr c) ignore = false) /\
              Z.of_nat (length sps) <= Z.max 0 count).
  { rewrite random_sp_unfold in Hres.
    destruct (next_super nodes pledges round0 ignore size) as [sup| |] eqn:Hns; [|discriminate|discriminate].
    destruct sup as [[c0 r0]|].
    - apply next_super_spec in Hns. destruct Hns as (Hin & Hign & Hel & _).
      apply elem_of_list_In in Hin. apply super_cands_elem in Hin. destruct Hin as (Hall & Hrole).
      eapply sp_tail_spec; [| | |exact Hres].
      + reflexivity.
      + cbn. apply NoDup_singleton.
      + intros c Hc. apply elem_of_list_singleton in Hc. subst c.
        split; [exact Hall|]. split; [exact Hrole|]. split; [exact Hel|exact Hign].
    - eapply sp_tail_spec; [| | |exact Hres].
      + reflexivity.
      + cbn. apply NoDup_nil_2.
      + intros c Hc. apply elem_of_nil in Hc. contradiction. }
  destruct H as (H1 & H2 & H3). split; [exact H1|]. split; [|exact H3].
  intros c Hc. apply H2, Hc.
Qed.

Lemma NoDup_keys_length {A} (m : gmap string A) (l : list string) :
  NoDup l -> (forall x, x ∈ l -> is_Some (m !! x)) -> (length l <= size m)%nat.
Proof.
  intros Hnd Hin.
  change (size m) with (length (map_to_list m)). rewrite <- (fmap_length fst (map_to_list m)).
  apply submseteq_length, NoDup_submseteq; [exact Hnd|].
  intros x Hx. destruct (Hin x Hx) as [a Ha]. apply elem_of_list_fmap. exists (x, a). split; [reflexivity|].
  apply elem_of_map_to_list, Ha.
Qed.

Lemma random_sp_m_facts cx count ignore sz t sps t' :
  random_sp_m cx count ignore sz t = Ok sps t' ->
  Z.of_nat (length sps) <= Z.max 0 count /\ (length sps <= size (nodes t))%nat.
Proof.
  unfold random_sp_m, bind, get. intros E.
  destruct (random_sp _ _ _ _ _ _ _) as [[cs r]| |] eqn:Er; try discriminate E.
  cbn in E. injection E as <- _.
  apply random_sp_facts in Er. destruct Er as (H1 & H2 & H3).
  rewrite map_length. split; [exact H3|].
  rewrite <- (map_length c_addr). apply NoDup_keys_length; [exact H1|].
  intros x Hx. apply elem_of_list_In, in_map_iff in Hx. destruct Hx as (c & <- & Hc).
  rewrite (H2 c Hc). eexists; reflexivity.
Qed.

Lemma bind_Ok {A B} (m : M A) (k : A -> M B) t r t' :
  bind m k t = Ok r t' -> exists a t1, m t = Ok a t1 /\ k a t1 = Ok r t'.
Proof. unfold bind. destruct (m t) as [a t1| | |]; try discriminate. intros E. exists a, t1. auto. Qed.

Lemma get_sps_len cx o d t sps t' :
  get_sps cx o d t = Ok sps t' -> Z.of_nat (length sps) <= Z.max 0 (o_replica o).
Proof.
  unfold get_sps. intros E.
  destruct (o_op o =? 1).
  - apply bind_Ok in E. destruct E as (a & t1 & E1 & E2).
    apply random_sp_m_facts in E1. destruct E1 as [E1 _].
    destruct (_ || _); [discriminate E2|]. cbn in E2. injection E2 as <- _. exact E1.
  - destruct (o_op o =? 2); [|discriminate E].
    destruct (o_replica o <=? 0) eqn:Hr; [discriminate E|]. apply Z.leb_gt in Hr.
    apply bind_Ok in E. destruct E as (s0 & t1 & E1 & E2). cbn in E1. injection E1 as <- <-.
    apply bind_Ok in E2. destruct E2 as (a & t2 & E2 & E3).
    destruct (Z.of_nat (length a) <? o_replica o); [discriminate E3|]. cbn in E3. injection E3 as <- _.
    destruct (o_replica o <? Z.of_nat (length (find_sp_by_data t d))) eqn:H1.
    + cbn in E2. injection E2 as <- _. rewrite take_length. lia.
    + apply Z.ltb_ge in H1.
      destruct (Z.of_nat (length (find_sp_by_data t d)) <? o_replica o) eqn:H2.
      * apply bind_Ok in E2. destruct E2 as (add & t3 & E2 & E4). cbn in E4. injection E4 as <- _.
        apply random_sp_m_facts in E2. destruct E2 as [E2 _]. rewrite app_length. lia.
      * apply Z.ltb_ge in H2. cbn in E2. injection E2 as <- _. lia.
Qed.

Lemma shard_by_sp_spec s o sp id sh : shard_by_sp s o sp = Some (id, sh) -> shards s !! id = Some sh.
Proof.
  unfold shard_by_sp. intros E. apply head_Some_elem_of, elem_of_list_omap in E.
  destruct E as (x & _ & E). destruct (shards s !! x) as [sh'|] eqn:Ex; [|discriminate E].
  destruct (String.eqb _ _); [|discriminate E]. injection E as <- <-. exact Ex.
Qed.

Lemma mapM_Forall2 {A B} (f : A -> option B) l r : mapM f l = Some r -> Forall2 (fun a b => f a = Some b) l r.
Proof.
  revert r. induction l as [|x l IH]; intros r E; cbn in E.
  - injection E as <-. constructor.
  - destruct (f x) as [y|] eqn:Ey; [|discriminate E]. destruct (mapM f l) as [ys|]; [|discriminate E].
    injection E as <-. constructor; [exact Ey|apply IH; reflexivity].
Qed.

Lemma tri_J b {A} N K (m : M A) V t : (J b t -> tri b N K m V t) -> tri b N K m V t.
Proof. intros H HJ. exact (H HJ HJ). Qed.

Lemma tri_assoc b {A B C} N K (m : M A) (k1 : A -> M B) (k2 : B -> M C) V t :
  tri b N K (bind m (fun a => bind (k1 a) k2)) V t -> tri b N K (bind (bind m k1) k2) V t.
Proof. unfold tri, bind. destruct (m t); auto. Qed.

Ltac tri_intros :=
  let HV := fresh "HV" in
  intros ? ? ? ? ? HV; cbv beta in HV; try (cbn [o_replica] in HV).

Ltac tri_step ::=
  lazymatch goal with
  | |- tri _ _ _ (bind get _) _ _ => apply tri_get_bind; cbv beta
  | |- tri _ _ _ (bind (modify _) _) _ _ =>
      eapply (tri_bind _ _ _ 0 0 _ _ (fun _ _ => True));
      [apply tri_modify; intros ? ? ?; split; [post_tac|exact I]|lia|lia|intros ? ? ? ? ? _]
  | |- tri _ _ _ (bind (try_ _) _) _ _ =>
      eapply tri_bind; [apply tri_try; tri_sub|lia|lia|tri_intros]
  | |- tri _ _ _ (bind (match ?x with _ => _ end) _) _ _ =>
      first [ eapply tri_bind; [tri_sub|lia|lia|tri_intros]
            | is_var x; destruct x
            | destruct x eqn:? ]
  | |- tri _ _ _ (bind (bind _ _) _) _ _ =>
      first [ eapply tri_bind; [tri_sub|lia|lia|tri_intros] | apply tri_assoc ]
  | |- tri _ _ _ (bind _ _) _ _ =>
      eapply tri_bind; [tri_sub|lia|lia|tri_intros]
  | |- tri _ _ _ (ret _) _ _ => apply tri_ret; [lia|lia|intros ?; tri_ret_tac]
  | |- tri _ _ _ (fail _) _ _ => apply tri_fail; lia
  | |- tri _ _ _ (panic _) _ _ => apply tri_panic
  | |- tri _ _ _ (modify _) _ _ => apply tri_modify; intros ? ? ?; split; [post_tac|tri_ret_tac]
  | |- tri _ _ _ (let _ := _ in _) _ _ => cbv zeta
  | |- tri _ _ _ (match ?x with _ => _ end) _ _ => first [is_var x; destruct x | destruct x eqn:?]
  | |- tri _ _ _ _ _ _ =>
      eapply tri_conseq; [tri_sub|lia|lia|intros; tri_ret_tac]
  end.

Section IdsH3.
  Context (b : State) (Hb1 : 0 <= order_count b) (Hb2 : 0 <= shard_count b).
  Local Notation tri := (tri b).
  Hint Resolve append_order_tri append_shard_tri new_shard_task_tri gen_shards_tri generate_shards_tri
       new_order_tri renew_order_tri : tri.
  Hint Extern 1 (Frame.tri _ _ _ (shard_pledge _ _ _) _ _) => apply shard_pledge_tri; first [assumption|key_solve] : tri.

  Lemma get_sps_tri cx o d t :
    tri 0 0 (get_sps cx o d) (fun sps _ => True /\ Z.of_nat (length sps) <= Z.max 0 (o_replica o)) t.
  Proof.
    apply tri_val; [intros a t' E; eapply get_sps_len, E|].
    eapply (tri_del _ true); [apply get_sps_del; right; reflexivity|lia|lia].
  Qed.
  Hint Resolve get_sps_tri : tri.
  Lemma get_sps_opt_tri (ip : bool) cx o d t :
    tri 0 0 (if ip then get_sps cx o d else ret []) (fun sps _ => True /\ Z.of_nat (length sps) <= Z.max 0 (o_replica o)) t.
  Proof.
    destruct ip; [apply get_sps_tri|]. apply tri_ret; [lia|lia|]. intros _. split; [exact I|cbn; lia].
  Qed.
  Hint Resolve get_sps_opt_tri : tri.

  Lemma sao_store_tri cx m R t :
    st_replica m <= R -> 0 <= R -> tri 1 R (sao_store cx m) (fun _ _ => True) t.
  Proof. intros HR HR0. unfold sao_store. tri_tac. Qed.

  Lemma sao_ready_tri cx c p oid R t :
    (forall o, orders t !! oid = Some o -> o_replica o <= R) -> 0 <= R ->
    tri 0 R (sao_ready cx c p oid) (fun _ _ => True) t.
  Proof.
    intros HR HR0. apply tri_J; intros HJ. unfold sao_ready. tri_step.
    destruct (orders t !! oid) as [o|] eqn:Eo; [|tri_tac]. specialize (HR o eq_refl). tri_tac.
  Qed.

  Lemma handle_expired_shard_tri cx sid t : tri 0 0 (handle_expired_shard cx sid) (fun _ _ => True) t.
  Proof. apply tri_J; intros HJ. unfold handle_expired_shard. tri_tac. Qed.
End IdsH3.

Lemma tri_forM_in b {A} c d (l : list A) (f : A -> M unit) (I : State -> Prop) :
  0 <= c -> 0 <= d ->
  (forall x, In x l -> forall t, I t -> tri b c d (f x) (fun _ t' => I t') t) ->
  forall t, I t -> tri b (Z.of_nat (length l) * c) (Z.of_nat (length l) * d) (forM l f) (fun _ t' => I t') t.
Proof.
  intros Hc Hd. induction l as [|x l IH]; intros Hf t Ht.
  - cbn [forM length]. apply tri_ret; [lia|lia|auto].
  - cbn [forM]. eapply (tri_bind _ _ _ c d); [apply Hf; [left; reflexivity|exact Ht]|cbn [length]; nia|cbn [length]; nia|].
    intros a t' HJ' _ _ Ht'.
    eapply tri_conseq; [apply IH; [intros y Hy; apply Hf; right; exact Hy|exact Ht']|cbn [length]; nia|cbn [length]; nia|auto].
Qed.

Lemma In_removelast {A} (x : A) l : In x (removelast l) -> In x l.
Proof.
  induction l as [|y l IH]; cbn; [auto|]. destruct l as [|z l]; [intros []|].
  intros [->|H]; [left; reflexivity|right; apply IH, H].
Qed.

(* referential integrity of the shard table: the order a shard belongs to, and the orders of
   its pending renewals, exist *)
Definition shard_refs_ok (s : State) : Prop :=
  forall sid sh, shards s !! sid = Some sh ->
    is_Some (orders s !! sh_order sh) /\ forall ri, In ri (sh_renew sh) -> is_Some (orders s !! ri_order ri).

Section IdsH4.
  Context (b : State) (Hb1 : 0 <= order_count b) (Hb2 : 0 <= shard_count b).
  Local Notation tri := (tri b).
  Hint Extern 1 (Frame.tri _ _ _ (shard_pledge _ _ _) _ _) => apply shard_pledge_tri; first [assumption|key_solve] : tri.

  Lemma complete_migration_tri cx oid o sid sh t :
    okO b oid /\ oid < order_count t -> shard_refs_ok t ->
    tri 0 0 (complete_migration cx oid o sid sh) (fun _ _ => True) t.
  Proof.
    intros Hoid Hrefs. apply tri_J; intros HJ. unfold complete_migration.
    destruct (String.eqb (sh_from sh) ""); [tri_tac|]. tri_step.
    destruct (shard_by_sp t o (sh_from sh)) as [[old_id old]|] eqn:Esp; [|tri_tac].
    pose proof (shard_by_sp_spec _ _ _ _ _ Esp) as Eold. destruct (Hrefs _ _ Eold) as [Hr1 Hr2].
    tri_tac.
    eapply tri_bind; [eapply (tri_forM_in b 0 0 _ _ (fun t'' => order_count t <= order_count t'')); [lia|lia| |lia]|lia|lia|].
    - intros id Hid t'' Ht''.
      assert (Hex : is_Some (orders t !! id)).
      { apply in_app_or in Hid. destruct Hid as [Hid|Hid].
        - destruct (sh_order old =? oid); [destruct Hid|]. destruct Hid as [<-|[]]. exact Hr1.
        - apply in_map_iff in Hid. destruct Hid as (ri & <- & Hri). apply Hr2, In_removelast, Hri. }
      destruct Hex as [x Ex]. rewrite Ex.
      apply tri_modify. intros HJ'' _ _. split; [post_tac|cbn; lia].
    - intros _ t'' _ _ _ _. tri_tac.
  Qed.
End IdsH4.

Ltac note_keys ::=
  repeat match goal with
    | E : shard_by_sp ?t ?o ?sp = Some (?id, ?sh) |- _ =>
        lazymatch goal with
        | _ : shards t !! id = Some sh |- _ => fail
        | _ => pose proof (shard_by_sp_spec t o sp id sh E)
        end
    | E : orders ?t !! ?k = Some ?o, HJ : J ?b ?t |- _ =>
        lazymatch goal with
        | _ : okO b k /\ k < order_count t |- _ => fail
        | _ => pose proof (J_orders b t k o HJ E)
        end
    | E : shards ?t !! ?k = Some ?o, HJ : J ?b ?t |- _ =>
        lazymatch goal with
        | _ : okS b k /\ k < shard_count t |- _ => fail
        | _ => pose proof (J_shards b t k o HJ E)
        end
    end.

Section IdsH5.
  Context (b : State) (Hb1 : 0 <= order_count b) (Hb2 : 0 <= shard_count b).
  Local Notation tri := (tri b).
  Hint Extern 1 (Frame.tri _ _ _ (shard_pledge _ _ _) _ _) => apply shard_pledge_tri; first [assumption|key_solve] : tri.
  Hint Extern 1 (Frame.tri _ _ _ (complete_migration _ _ _ _ _) _ _) =>
    apply complete_migration_tri; first [assumption|key_solve] : tri.

  Lemma sao_complete_tri cx c p oid cid sz ok t :
    shard_refs_ok t -> tri 0 0 (sao_complete cx c p oid cid sz ok) (fun _ _ => True) t.
  Proof. intros Hrefs. apply tri_J; intros HJ. unfold sao_complete. tri_tac. Qed.
End IdsH5.

Lemma mapM_shard_keys b t (c : Shard -> bool) l shs :
  mapM (fun id => match shards t !! id with
                  | Some sh => if c sh then Some (id, sh) else None
                  | None => None end) l = Some shs ->
  J b t -> Forall (fun x : Z * Shard => okS b x.1 /\ x.1 < shard_count t) shs.
Proof.
  intros E HJ. apply mapM_Forall2 in E. induction E as [|x y l r Hxy _ IH]; constructor; [|exact IH].
  destruct (shards t !! x) as [sh|] eqn:Ex; [|discriminate Hxy]. destruct (c sh); [|discriminate Hxy].
  injection Hxy as <-. cbn. eapply J_shards; eassumption.
Qed.

Section IdsH6.
  Context (b : State) (Hb1 : 0 <= order_count b) (Hb2 : 0 <= shard_count b).
  Local Notation tri := (tri b).
  Hint Resolve renew_order_tri : tri.

  Lemma renew_one_tri cx m sd d t : tri 1 0 (renew_one cx m sd d) (fun _ _ => True) t.
  Proof.
    apply tri_J; intros HJ. unfold renew_one. tri_tac.
    match goal with E : mapM _ _ = Some ?shs |- _ => pose proof (mapM_shard_keys b t _ _ _ E HJ) as Hkeys end.
    match goal with |- Frame.tri _ _ _ (bind (?F ?shs 0) _) _ ?t1 =>
      assert (Hloop : forall ll acc t2, Forall (fun x : Z * Shard => okS b x.1 /\ x.1 < shard_count t) ll ->
                        shard_count t <= shard_count t2 -> tri 0 0 (F ll acc) (fun _ _ => True) t2) end.
    { intros ll. induction ll as [|[id sh] ll IH]; intros acc t2 Hl Hsc; fix_unfold; [tri_tac|].
      inversion Hl as [|? ? Hx Hl']; subst. cbn [fst] in Hx.
      tri_tac; (eapply tri_conseq; [apply IH; [exact Hl'|lia]|lia|lia|auto]). }
    eapply tri_bind; [apply Hloop; [exact Hkeys|lia]|lia|lia|tri_intros]. tri_tac.
  Qed.
End IdsH6.

(** ** the loops: renew, migrate, order timeouts *)
Ltac mok_side ::=
  first [ reflexivity
        | progress (unfold eqon); first [reflexivity | cbn; reflexivity | unfold set; simpl; reflexivity
                                        | repeat case_match; reflexivity] ].

Lemma nodes_move f t a s : eqon nodes s (move f t a s).
Proof. reflexivity. Qed.

Section NodesPass.
  Context (cx : Ctx) (h : bool) (Hh : seed_ok cx \/ h = true).
  Local Notation R := (eqon nodes).
  Lemma send_strict_nd f t a : mok R h (send_strict f t a).
  Proof.
    intros s. unfold send_strict. destruct (a <=? 0); [reflexivity|].
    destruct (balance s f <? a); [reflexivity|]. apply nodes_move.
  Qed.
  Hint Resolve send_strict_nd : mok.
  Lemma send_lenient_nd f t a : mok R h (send_lenient f t a).
  Proof.
    intros s. unfold send_lenient. destruct (a =? 0); [reflexivity|]. apply send_strict_nd.
  Qed.
  Hint Resolve send_lenient_nd : mok.
  Lemma coin_sub_nd a b : mok R h (coin_sub a b).
  Proof. unfold coin_sub. mok_tac. Qed.
  Hint Resolve coin_sub_nd : mok.
  Lemma random_sp_m_nd count ignore size : mok R h (random_sp_m cx count ignore size).
  Proof.
    unfold random_sp_m. mok_step; [mok_step|].
    destruct (random_sp _ _ _ _ _ _ _) as [[sps r]| |] eqn:E; mok_tac.
    destruct Hh as [[H0 H1]| ->].
    - exfalso. exact (random_sp_terminates _ _ _ _ _ _ _ H0 H1 E).
    - intros s. reflexivity.
  Qed.
  Hint Resolve random_sp_m_nd : mok.
  Lemma refund_order_nd oid : mok R h (refund_order oid).
  Proof. unfold refund_order. mok_tac. Qed.
  Hint Resolve refund_order_nd : mok.
  Lemma set_data_expire_nd d a : mok R h (set_data_expire d a).
  Proof. unfold set_data_expire. mok_tac. Qed.
  Hint Resolve set_data_expire_nd : mok.
  Lemma remove_data_expire_nd d a : mok R h (remove_data_expire d a).
  Proof. unfold remove_data_expire. mok_tac. Qed.
  Hint Resolve remove_data_expire_nd : mok.
  Lemma reset_meta_duration_nd d m : mok R h (reset_meta_duration cx d m).
  Proof. unfold reset_meta_duration. mok_tac. Qed.
  Hint Resolve reset_meta_duration_nd : mok.
  Lemma remove_shards_nd ids : mok R h (remove_shards ids).
  Proof. unfold remove_shards. mok_tac. Qed.
  Hint Resolve remove_shards_nd : mok.
  Lemma rollback_meta_nd d : mok R h (rollback_meta cx d).
  Proof. unfold rollback_meta. mok_tac. Qed.
  Hint Resolve rollback_meta_nd : mok.
  Lemma cancel_order_nd oid : mok R h (cancel_order cx oid).
  Proof. unfold cancel_order. mok_tac. Qed.
  Hint Resolve cancel_order_nd : mok.
  Lemma set_timeout_block_nd oid a : mok R h (set_timeout_block oid a).
  Proof. unfold set_timeout_block. mok_tac. Qed.
  Hint Resolve set_timeout_block_nd : mok.
End NodesPass.


Section MorePass.
  Context (cx : Ctx) (h : bool) (Hh : seed_ok cx \/ h = true).
  Hint Resolve send_strict_nd send_lenient_nd coin_sub_nd random_sp_m_nd refund_order_nd set_data_expire_nd
       remove_data_expire_nd reset_meta_duration_nd rollback_meta_nd cancel_order_nd remove_shards_nd
       set_timeout_block_nd : mok.
  Lemma append_shard_nd sh : mok (eqon nodes) h (append_shard sh).
  Proof. unfold append_shard. mok_tac. Qed.
  Hint Resolve append_shard_nd : mok.
  Lemma new_shard_task_nd oid o p : mok (eqon nodes) h (new_shard_task oid o p).
  Proof. unfold new_shard_task. mok_tac. Qed.
  Hint Resolve new_shard_task_nd : mok.
  Lemma handle_timeout_order_nd oid : mok (eqon nodes) h (handle_timeout_order cx oid).
  Proof. unfold handle_timeout_order. mok_tac. all: try (mok_loop; mok_tac). Qed.
End MorePass.

Section MetaPass.
  Context (cx : Ctx) (h : bool) (Hh : seed_ok cx \/ h = true).
  Lemma random_sp_m_mt count ignore sz : mok (eqon metas) h (random_sp_m cx count ignore sz).
  Proof.
    unfold random_sp_m. mok_step; [mok_step|].
    destruct (random_sp _ _ _ _ _ _ _) as [[sps r]| |] eqn:E; mok_tac.
    destruct Hh as [[H0 H1]| ->].
    - exfalso. exact (random_sp_terminates _ _ _ _ _ _ _ H0 H1 E).
    - intros s. reflexivity.
  Qed.
  Hint Resolve random_sp_m_mt : mok.
  Lemma append_shard_mt sh : mok (eqon metas) h (append_shard sh).
  Proof. unfold append_shard. mok_tac. Qed.
  Hint Resolve append_shard_mt : mok.
  Lemma migrate_one_mt p d : mok (eqon metas) h (migrate_one cx p d).
  Proof. unfold migrate_one. mok_tac. mok_loop; mok_tac. Qed.
End MetaPass.

Lemma omap_shard_keys b t l :
  J b t ->
  Forall (fun x : Z * Shard => okS b x.1 /\ x.1 < shard_count t)
         (omap (fun id => match shards t !! id with Some sh => Some (id, sh) | None => None end) l).
Proof.
  intros HJ. apply Forall_forall. intros [id sh] Hx. apply elem_of_list_omap in Hx.
  destruct Hx as (x & _ & Hx). destruct (shards t !! x) as [sh'|] eqn:Ex; [|discriminate Hx].
  injection Hx as <- <-. cbn. eapply J_shards; eassumption.
Qed.

Lemma Forall_combine_snd {A B} (P : B -> Prop) (l1 : list A) (l2 : list B) :
  Forall P l2 -> Forall (fun x => P x.2) (combine l1 l2).
Proof.
  intros H. revert l1. induction H as [|y l2 Hy _ IH]; intros [|x l1]; cbn; constructor; [exact Hy|apply IH].
Qed.

Section IdsH7.
  Context (b : State) (Hb1 : 0 <= order_count b) (Hb2 : 0 <= shard_count b).
  Local Notation tri := (tri b).
  Hint Resolve append_shard_tri new_shard_task_tri : tri.

  Lemma sao_renew_tri cx m t :
    tri (Z.of_nat (length (rn_data m))) 0 (sao_renew cx m) (fun _ _ => True) t.
  Proof.
    unfold sao_renew. tri_tac.
    eapply tri_conseq; [apply (tri_forM b 1 0 _ _ (fun _ => True)); [lia|lia| |exact I]|lia|lia|auto].
    intros x t1 _. eapply tri_conseq; [apply renew_one_tri; assumption|lia|lia|auto].
  Qed.

  Lemma random_sp_m_tri cx count ignore sz t :
    tri 0 0 (random_sp_m cx count ignore sz)
        (fun r _ => True /\ (length r <= size (nodes t))%nat) t.
  Proof.
    apply tri_val; [intros a t' E; eapply random_sp_m_facts, E|].
    eapply (tri_del _ true); [apply random_sp_m_del; right; reflexivity|lia|lia].
  Qed.

  Lemma migrate_one_tri cx p d Mx t :
    (forall m, metas t !! d = Some m -> Z.of_nat (length (m_orders m)) <= Mx) -> 0 <= Mx ->
    tri 0 Mx (migrate_one cx p d) (fun _ _ => True) t.
  Proof.
    intros HM HM0. unfold migrate_one. tri_step.
    destruct (metas t !! d) as [meta|] eqn:Em; [|tri_tac]. specialize (HM meta eq_refl).
    rewrite <- rev_length in HM.
    match goal with |- Frame.tri _ _ _ (?F ?l0 []) _ _ =>
      assert (Hloop : forall ll cm t2, tri 0 (Z.of_nat (length ll)) (F ll cm) (fun _ _ => True) t2) end.
    { intros ll. induction ll as [|oid ll IH]; intros cm t2; fix_unfold; [tri_tac|].
      apply tri_J; intros HJ2. cbn [length].
      tri_tac; (eapply tri_conseq; [apply IH|lia|lia|auto]). }
    eapply tri_conseq; [apply Hloop|lia|lia|auto].
  Qed.

  Lemma sao_migrate_tri cx c p data Mx t :
    (forall d m, metas t !! d = Some m -> Z.of_nat (length (m_orders m)) <= Mx) -> 0 <= Mx ->
    tri 0 (Z.of_nat (length data) * Mx) (sao_migrate cx c p data) (fun _ _ => True) t.
  Proof.
    intros HM HM0. unfold sao_migrate. tri_step. destruct (negb (acts_for t c p)); [tri_tac; nia|].
    eapply tri_conseq; [apply (tri_forM b 0 Mx _ _ (fun t1 => metas t1 = metas t)); [lia|lia| |reflexivity]|lia|lia|auto].
    intros d t1 Ht1.
    eapply tri_conseq; [eapply (tri_val b _ _ _ _ (fun _ t' => metas t' = metas t)); [|apply (migrate_one_tri cx p d Mx t1)]|lia|lia|].
    - intros a t' E. pose proof (migrate_one_mt cx true (or_intror eq_refl) p d t1) as Hk. rewrite E in Hk.
      unfold eqon in Hk. cbv beta. rewrite Hk. exact Ht1.
    - intros m Hm. rewrite Ht1 in Hm. eapply HM, Hm.
    - exact HM0.
    - cbv beta. intros a t' [_ H]. exact H.
  Qed.

  Hint Resolve random_sp_m_tri : tri.

  Lemma handle_timeout_order_tri cx oid B t :
    Z.of_nat (size (nodes t)) <= B ->
    tri 0 B (handle_timeout_order cx oid) (fun _ _ => True) t.
  Proof.
    intros HB. apply tri_J; intros HJ. unfold handle_timeout_order. tri_step.
    destruct (orders t !! oid) as [o|] eqn:Eo; [|tri_tac].
    pose proof (omap_shard_keys b t (o_shards o) HJ) as Hpres.
    tri_tac.
    match goal with |- Frame.tri _ _ _ (bind (?F (combine ?rand ?ts) o) _) _ ?t1 =>
      assert (Hloop : forall ll oacc t2, Forall (fun x : string * (Z * Shard) => okS b x.2.1 /\ x.2.1 < shard_count t) ll ->
                        shard_count t <= shard_count t2 ->
                        tri 0 (Z.of_nat (length ll)) (F ll oacc) (fun _ _ => True) t2);
      [|assert (Hts : Forall (fun x : Z * Shard => okS b x.1 /\ x.1 < shard_count t) ts)
          by (apply Forall_forall; intros x Hx; apply elem_of_list_filter in Hx; destruct Hx as [_ Hx];
              revert x Hx; apply Forall_forall, Hpres);
        eapply tri_bind; [apply Hloop; [apply (Forall_combine_snd (fun y : Z * Shard => okS b y.1 /\ y.1 < shard_count t)), Hts|lia]
                         |lia|rewrite combine_length; lia|tri_intros]] end.
    - intros ll. induction ll as [|[newsp [sid sh]] ll IH]; intros oacc t2 Hl Hsc; fix_unfold; [tri_tac|].
      inversion Hl as [|? ? Hx Hl']; subst. cbn [fst snd] in Hx. cbn [length].
      tri_tac. eapply tri_conseq; [apply IH; [exact Hl'|lia]|lia|lia|auto].
    - rewrite combine_length. tri_tac.
  Qed.

  Lemma forM_expired_tri cx l t : tri 0 0 (forM l (handle_expired_shard cx)) (fun _ _ => True) t.
  Proof.
    eapply tri_conseq; [apply (tri_forM b 0 0 _ _ (fun _ => True)); [lia|lia| |exact I]|lia|lia|auto].
    intros sid t2 _. eapply tri_conseq; [apply handle_expired_shard_tri; assumption|lia|lia|auto].
  Qed.
  Hint Resolve forM_expired_tri : tri.

  Lemma end_block_sao_tri cx B t :
    (forall l, timeouts t !! cx_height cx = Some l -> Z.of_nat (length l) * Z.of_nat (size (nodes t)) <= B) -> 0 <= B ->
    tri 0 B (end_block_sao cx) (fun _ _ => True) t.
  Proof.
    intros HB HB0. unfold end_block_sao. tri_step.
    destruct (timeouts t !! cx_height cx) as [l|] eqn:El.
    - specialize (HB l eq_refl). apply tri_assoc.
      eapply tri_bind; [apply (tri_forM b 0 (Z.of_nat (size (nodes t))) _ _ (fun t1 => nodes t1 = nodes t)); [lia|lia| |reflexivity]|lia|lia|].
      + intros oid t1 Ht1.
        eapply tri_conseq; [eapply (tri_val b _ _ _ _ (fun _ t' => nodes t' = nodes t)); [|apply (handle_timeout_order_tri cx oid (Z.of_nat (size (nodes t))) t1)]|lia|lia|].
        * intros a t' E. pose proof (handle_timeout_order_nd cx true (or_intror eq_refl) oid t1) as Hk. rewrite E in Hk.
          unfold eqon in Hk. cbv beta. rewrite Hk. exact Ht1.
        * rewrite Ht1. lia.
        * cbv beta. intros a t' [_ H]. exact H.
      + intros _ t1 _ _ _ _. tri_tac.
    - tri_tac.
  Qed.
End IdsH7.

(** ** the staking hooks add at most the node under the empty address *)
Definition Rn (t t' : State) : Prop :=
  forall k, k <> EmptyString -> is_Some (nodes t' !! k) -> is_Some (nodes t !! k).
Global Instance Rn_preorder : PreOrder Rn.
Proof. split; [intros t k _ H; exact H|intros a b c H1 H2 k Hk H; apply H1, H2; assumption]. Qed.

Lemma Rn_frame t t' : nodes t' = nodes t -> Rn t t'.
Proof. intros E k _ H. rewrite <- E. exact H. Qed.

Lemma Rn_size t t' : Rn t t' -> (size (nodes t') <= S (size (nodes t)))%nat.
Proof.
  intros H.
  change (size (nodes t')) with (length (map_to_list (nodes t'))).
  change (size (nodes t)) with (length (map_to_list (nodes t))).
  rewrite <- (fmap_length fst (map_to_list (nodes t'))), <- (fmap_length fst (map_to_list (nodes t))).
  change (S (length (map_to_list (nodes t)).*1)) with (length (EmptyString :: (map_to_list (nodes t)).*1)).
  apply submseteq_length, NoDup_submseteq; [apply NoDup_fst_map_to_list|].
  intros x Hx. apply elem_of_list_fmap in Hx. destruct Hx as ([k a] & -> & Hka). cbn.
  apply elem_of_map_to_list in Hka.
  destruct (decide (k = EmptyString)) as [->|Hne]; [left|right].
  destruct (H k Hne) as [a' Ha']; [rewrite Hka; eexists; reflexivity|].
  apply elem_of_list_fmap. exists (k, a'). split; [reflexivity|]. apply elem_of_map_to_list, Ha'.
Qed.

Lemma set_role_rn h c r v : mok Rn h (set_role c r v).
Proof.
  unfold set_role. apply mok_modify. intros s k Hk H.
  destruct (nodes s !! c) as [n|] eqn:En; cbn in H; apply lookup_insert_is_Some in H;
    destruct H as [<-|[_ H]]; try exact H; [rewrite En; eexists; reflexivity|contradiction].
Qed.
Global Hint Resolve set_role_rn : mok.
Ltac mok_side ::= first [ apply Rn_frame; reflexivity | apply Rn_frame; repeat case_match; reflexivity ].
Lemma verify_super_rn h v a b : mok Rn h (verify_super v a b).
Proof. unfold verify_super. mok_tac. Qed.
Global Hint Resolve verify_super_rn : mok.
Lemma st_event_rn h e : mok Rn h (st_event e).
Proof. unfold st_event. mok_tac. Qed.
Global Hint Resolve st_event_rn : mok.
Lemma staking_tx_rn h evs : mok Rn h (staking_tx evs).
Proof. unfold staking_tx. mok_tac. Qed.

(** ** identifiers across [step] *)
Definition ids_concl (s s' : State) : Prop :=
  Inv_ids s' /\ order_count s <= order_count s' /\ shard_count s <= shard_count s' /\
  (forall id o, orders s' !! id = Some o -> orders s !! id = None -> order_count s <= id) /\
  (forall id sh, shards s' !! id = Some sh -> shards s !! id = None -> shard_count s <= id).

Lemma J_init s : Inv_ids s -> J s s.
Proof.
  intros [H1 H2]. unfold J. split; [lia|]. split; [lia|]. split; intros id [x Hx].
  - destruct (H1 id x Hx). split; [split; [lia|left; eexists; exact Hx]|lia].
  - destruct (H2 id x Hx). split; [split; [lia|left; eexists; exact Hx]|lia].
Qed.

Lemma J_concl s s' : J s s' -> ids_concl s s'.
Proof.
  intros (J1 & J2 & J3 & J4). unfold ids_concl, Inv_ids.
  split; [split; intros id x Hx|].
  - destruct (J3 id) as [[H0 _] Hlt]; [eexists; exact Hx|]. lia.
  - destruct (J4 id) as [[H0 _] Hlt]; [eexists; exact Hx|]. lia.
  - split; [exact J1|]. split; [exact J2|]. split; intros id x Hx Hn.
    + destruct (J3 id) as [[_ [[y Hy]|H]] _]; [eexists; exact Hx|congruence|exact H].
    + destruct (J4 id) as [[_ [[y Hy]|H]] _]; [eexists; exact Hx|congruence|exact H].
Qed.

Lemma deliver_J s {A} N K (m : M A) V :
  tri s N K m V s -> J s s -> order_count s + N < two64 -> shard_count s + K < two64 -> J s (deliver m s).1.1.
Proof.
  intros H HJ HN HK. specialize (H HJ HN HK). rewrite deliver_state.
  destruct (m s) as [a s'|e s'|e|]; try exact HJ.
  destruct H as [[H _] _]. exact H.
Qed.

Lemma block_J s {A} N K (m : M A) V :
  tri s N K m V s -> J s s -> order_count s + N < two64 -> shard_count s + K < two64 -> J s (block_phase m s).1.1.
Proof.
  intros H HJ HN HK. specialize (H HJ HN HK). rewrite block_phase_state.
  destruct (m s) as [a s'|e s'|e|]; try exact HJ.
  - destruct H as [[H _] _]. exact H.
  - destruct H as [H _]. exact H.
Qed.

(* the sizes a single ABCI call iterates over fit the Go types they come from: replica counts are
   int32, the lists are far shorter than 2^31. Without a bound of this kind a single call could
   wrap a 64-bit counter. *)
Definition sizes_small (cx : Ctx) (s : State) (op : Op) : Prop :=
  match op with
  | OStore m => st_replica m < two31
  | OReady _ _ oid => forall o, orders s !! oid = Some o -> o_replica o < two31
  | ORenew m => Z.of_nat (length (rn_data m)) < two31
  | OMigrate _ _ data =>
      Z.of_nat (length data) < two31 /\
      forall d m, metas s !! d = Some m -> Z.of_nat (length (m_orders m)) < two31
  | OEndBlock _ =>
      Z.of_nat (size (nodes s)) + 1 < two31 /\
      forall l, timeouts s !! cx_height cx = Some l -> Z.of_nat (length l) < two31
  | _ => True
  end.

(* only a migration completed by [OComplete] follows references out of the shard table *)
Definition complete_refs_ok (s : State) (op : Op) : Prop :=
  match op with OComplete _ _ _ _ _ _ => shard_refs_ok s | _ => True end.

Lemma end_block_tri cx evs s :
  0 <= order_count s -> 0 <= shard_count s ->
  Z.of_nat (size (nodes s)) + 1 < two31 ->
  (forall l, timeouts s !! cx_height cx = Some l -> Z.of_nat (length l) < two31) ->
  tri s 0 (two31 * two31) (end_block cx evs) (fun _ _ => True) s.
Proof.
  intros H1 H2 Hn Hl. unfold end_block.
  eapply (tri_bind s _ _ 0 0 _ _ (fun _ t1 => (True /\ timeouts t1 = timeouts s) /\ Rn s t1)).
  - apply tri_val.
    + intros a t' E. pose proof (staking_tx_rn true evs s) as Hk. rewrite E in Hk. exact Hk.
    + apply tri_val.
      * intros a t' E. pose proof (staking_tx_ok true evs s) as Hk. rewrite E in Hk.
        unfold eqon in Hk. injection Hk; intros; assumption.
      * eapply (tri_del _ true); [apply staking_tx_del|lia|lia].
  - lia.
  - unfold two31; lia.
  - intros _ t1 HJ1 _ _ [[_ Ht] Hr]. apply Rn_size in Hr.
    eapply tri_bind; [apply end_block_sao_tri with (B := two31 * two31); try assumption|lia|lia|].
    + intros l El. rewrite Ht in El. specialize (Hl l El). unfold two31 in *. nia.
    + unfold two31; lia.
    + intros _ t2 _ _ _ _.
      eapply tri_bind; [eapply (tri_del _ true 0 0); [apply end_block_node_del|lia|lia]|lia|lia|].
      intros _ t3 _ _ _ _. eapply tri_conseq; [eapply (tri_del _ true 0 0); [apply end_block_model_del|lia|lia]|lia|lia|auto].
Qed.

Theorem step_ids_partial : forall cx s op,
  Inv_ids s -> counts_small s -> sizes_small cx s op -> complete_refs_ok s op ->
  Inv_ids (fst (step cx s op)) /\ order_count s <= order_count (fst (step cx s op)) /\
  shard_count s <= shard_count (fst (step cx s op)) /\
  (forall id o, orders (fst (step cx s op)) !! id = Some o -> orders s !! id = None -> order_count s <= id) /\
  (forall id sh, shards (fst (step cx s op)) !! id = Some sh -> shards s !! id = None -> shard_count s <= id).
Proof.
  intros cx s op Hinv [[Hc1 Hc1'] [Hc2 Hc2']] Hsz Hrefs.
  apply (J_concl s). pose proof (J_init s Hinv) as HJ.
  assert (Hdel : forall (m : M unit), mok Rdel true m -> J s (deliver m s).1.1).
  { intros m Hm. eapply (deliver_J s 0 0); [eapply (tri_del _ true); [exact Hm|lia|lia]|exact HJ| |];
      unfold two64, two63 in *; lia. }
  assert (Hpre : forall N, N <= two31 * two31 -> order_count s + N < two64 /\ shard_count s + N < two64).
  { intros N HN. unfold two64, two63, two31 in *. lia. }
  rewrite step_state. destruct op; cbn [tx_of]; cbn [sizes_small complete_refs_ok] in Hsz, Hrefs.
  - (* BeginBlock *)
    eapply (block_J s 0 0); [eapply (tri_del _ true); [apply begin_block_del|lia|lia]|exact HJ| |];
      unfold two64, two63 in *; lia.
  - (* EndBlock *)
    destruct Hsz as [Hn Hl].
    eapply (block_J s 0 (two31 * two31)); [apply end_block_tri; try assumption|exact HJ| |]; apply Hpre; unfold two31; lia.
  - apply Hdel, lift_did_del.
  - apply Hdel, node_create_del.
  - apply Hdel, node_reset_del.
  - apply Hdel, add_vstorage_del.
  - apply Hdel, remove_vstorage_del.
  - apply Hdel. apply mok_bind; try exact _; [apply claim_reward_del|intros; apply mok_ret; exact _].
  - (* Store *)
    eapply (deliver_J s 1 (Z.max 0 (st_replica m))); [apply sao_store_tri; try assumption; lia|exact HJ| |];
      apply Hpre; unfold two31 in *; lia.
  - (* Ready *)
    destruct (orders s !! oid) as [o|] eqn:Eo.
    + eapply (deliver_J s 0 (Z.max 0 (o_replica o)));
        [apply sao_ready_tri; try assumption; [intros o' Eo'; rewrite Eo in Eo'; injection Eo' as <-; lia|lia]|exact HJ| |];
        apply Hpre; specialize (Hsz o eq_refl); unfold two31 in *; lia.
    + eapply (deliver_J s 0 0); [apply sao_ready_tri; try assumption; [intros o' Eo'; rewrite Eo in Eo'; discriminate|lia]|exact HJ| |];
        apply Hpre; unfold two31; lia.
  - (* Complete *)
    eapply (deliver_J s 0 0); [apply sao_complete_tri; try assumption|exact HJ| |]; apply Hpre; unfold two31; lia.
  - apply Hdel, sao_cancel_del.
  - (* Renew *)
    eapply (deliver_J s _ 0); [apply sao_renew_tri; try assumption|exact HJ| |]; apply Hpre; unfold two31 in *; lia.
  - apply Hdel, sao_terminate_del.
  - (* Migrate *)
    destruct Hsz as [Hd Hm].
    eapply (deliver_J s 0 _); [apply sao_migrate_tri with (Mx := two31); try assumption|exact HJ| |].
    + intros d m Em. specialize (Hm d m Em). lia.
    + unfold two31; lia.
    + apply Hpre; unfold two31; lia.
    + apply Hpre. unfold two31 in *. nia.
  - apply Hdel, sao_update_permission_del.
  - apply Hdel, sao_report_faults_del.
  - apply Hdel, sao_recover_faults_del.
  - apply Hdel, send_strict_del.
  - apply Hdel, staking_tx_del.
  - destruct (staking_tx evs s); try exact HJ; (eapply J_frame; [|exact HJ]; reflexivity).
Qed.
Print Assumptions step_ids_partial.

(** ** the statement without the referential-integrity hypothesis is false *)
Module IdsWitness.
  (* order 1 holds a completed shard 2 of provider "A" that names the missing order 4, and a
     migrating shard 3 from "A" to "B"; "B" completes the migration *)
  Definition w_o1 : Order := mkOrder "B" "did:key:x" "B" "cid" 1000 OrderCompleted 1 [2;3] 1 1 1 0 10 "d" "c" 0 "".
  Definition w_old : Shard := mkShard 4 ShardCompleted 1 "cid" 0 "" "A" 100 0 [].
  Definition w_new : Shard := mkShard 1 ShardMigrating 1 "cid" 0 "A" "B" 0 0 [].
  Definition w_meta : Meta := mkMeta "did:key:x" "" "" 1 [] "cid" [] "" 0 "c" "" 1000 0 [] [] MetaComplete [].
  Definition w_s : State :=
    mkState did_empty ∅ (<["A" := mkPledge 0 0 0 0 10 1]> (<["B" := mkPledge 0 0 0 0 10 0]> ∅)) ∅
            (Some (mkPool 0 0 0 0 0 0 20 0)) None ∅ ∅ ∅ (mkNParams 0 0 0 0 1 0 "" 0 0 0 0)
            (<[1 := w_o1]> ∅) 5 (<[2 := w_old]> (<[3 := w_new]> ∅)) 5
            (<["d" := w_meta]> ∅) ∅ ∅ ∅ ∅ (<["sao-A" := mkWorker 1 0 0 0]> ∅) ∅ 0 ∅ ∅ 0.
  Definition w_cx : Ctx := {| cx_height := 10; cx_chain := "c"; cx_time := 0; cx_seed := 0 |}.
  Definition w_op : Op := OComplete "B" "B" 1 "cid2" 1 true.

  Lemma w_inv : Inv_ids w_s.
  Proof.
    split; intros id x H.
    - change (orders w_s) with (<[1 := w_o1]> (∅ : gmap Z Order)) in H. change (order_count w_s) with 5.
      apply lookup_insert_Some in H. destruct H as [[<- _]|[_ H]]; [lia|]. rewrite lookup_empty in H. discriminate.
    - change (shards w_s) with (<[2 := w_old]> (<[3 := w_new]> (∅ : gmap Z Shard))) in H. change (shard_count w_s) with 5.
      apply lookup_insert_Some in H. destruct H as [[<- _]|[_ H]]; [lia|].
      apply lookup_insert_Some in H. destruct H as [[<- _]|[_ H]]; [lia|]. rewrite lookup_empty in H. discriminate.
  Qed.
End IdsWitness.

Theorem step_ids_refuted :
  exists cx s op, Inv_ids s /\ counts_small s /\ counts_small (fst (step cx s op)) /\ sizes_small cx s op /\
    ~ (Inv_ids (fst (step cx s op)) /\ order_count s <= order_count (fst (step cx s op)) /\
       shard_count s <= shard_count (fst (step cx s op)) /\
       (forall id o, orders (fst (step cx s op)) !! id = Some o -> orders s !! id = None -> order_count s <= id) /\
       (forall id sh, shards (fst (step cx s op)) !! id = Some sh -> shards s !! id = None -> shard_count s <= id)).
Proof.
  exists IdsWitness.w_cx, IdsWitness.w_s, IdsWitness.w_op.
  assert (E1 : order_count (fst (step IdsWitness.w_cx IdsWitness.w_s IdsWitness.w_op)) = 5) by (vm_compute; reflexivity).
  assert (E2 : shard_count (fst (step IdsWitness.w_cx IdsWitness.w_s IdsWitness.w_op)) = 5) by (vm_compute; reflexivity).
  assert (E3 : is_Some (orders (fst (step IdsWitness.w_cx IdsWitness.w_s IdsWitness.w_op)) !! 0)) by (vm_compute; eexists; reflexivity).
  split; [apply IdsWitness.w_inv|].
  split; [unfold counts_small, two63; cbn; lia|].
  split; [unfold counts_small; rewrite E1, E2; unfold two63; lia|].
  split; [exact I|].
  intros (_ & _ & _ & H & _). destruct E3 as [o E3].
  specialize (H 0 o E3 eq_refl). cbn in H. lia.
Qed.
Print Assumptions step_ids_refuted.
