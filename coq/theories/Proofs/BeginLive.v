(* C02, the begin blocker: in every run from a state that satisfies the invariants below, with a block reward of at
   most half the total reward (the complement is finding D19), BeginBlock never panics -- so it never halts the chain.
   The invariants: the pool totals are the sums over providers (Accumulator.run_inv_pool), every provider's capacity
   is 10^6 bytes per pledged coin (Inv_k, proved here for every operation), and the cumulative reward counter stays
   below the total reward (Inv_rem, proved here). *)
From SaoVerif Require Import Base.Prelude Base.Ints Base.Dec Model.Did Model.Types Model.Monad Model.Bank Model.Select
     Model.Node Model.Storage Model.Sao Model.Hooks Model.App Model.Spec Proofs.Frame Proofs.Money Proofs.Accumulator Proofs.MintCap.
From RecordUpdate Require Import RecordUpdate.
Import RecordSetNotations.

(** * capacity is 10^6 bytes per pledged coin *)
Lemma sz_of_amount a : 0 <= a ->
  dec_trunc (dec_quo (dec_of_int a) PRICE) = a * 1000000 /\
  dec_trunc (dec_ceil (dec_quo (dec_of_int a) PRICE)) = a * 1000000.
Proof. intros _. split; [apply size_of_coins|apply size_of_coins_ceil]. Qed.

Definition Inv_k (s : State) : Prop :=
  forall k p, pledges s !! k = Some p -> pl_total p = 1000000 * pl_spledged p /\ 0 <= pl_spledged p.
Definition Rk (s s' : State) : Prop := Inv_k s -> Inv_k s'.

Global Instance Frame_Rk : Frame Rk.
Proof.
  split.
  - intros s1 s2 s3 H1 H2 H. auto.
  - intros s s' (E1 & _ & _) H k p Hk. rewrite E1 in Hk. apply (H k p Hk).
Qed.

Definition k_ok (p : Pledge) : Prop := pl_total p = 1000000 * pl_spledged p /\ 0 <= pl_spledged p.
Lemma Rk_update s s' k p' :
  pledges s' = <[k := p']> (pledges s) ->
  ((forall p, pledges s !! k = Some p -> k_ok p) -> k_ok p') -> Rk s s'.
Proof.
  intros Hpl Hok HI j q Hj. rewrite Hpl in Hj. destruct (decide (j = k)) as [->|Hne].
  - rewrite lookup_insert in Hj. injection Hj as <-. apply Hok. intros p Hp. apply (HI k p Hp).
  - rewrite lookup_insert_ne in Hj by congruence. apply (HI j q Hj).
Qed.

Lemma Rk_add_vstorage c sz s : presAt Rk (add_vstorage c sz) s.
Proof.
  unfold add_vstorage. apply presAt_bind_get.
  destruct (nodes s !! c) as [n|] eqn:Hn; [|psolve].
  destruct (pool s) as [po|] eqn:Hpo; [|psolve].
  cbv zeta.
  match goal with |- presAt _ (if ?b then _ else _) _ => destruct b eqn:Eneg; [exact I|] end.
  apply Z.ltb_ge in Eneg.
  apply presAt_bind_keep; [apply p_send_strict|]. intros _ s1 Hs1.
  apply presAt_bind_keep; [psolve|]. intros _ s2 Hs2.
  pose proof (same3_trans _ _ _ Hs1 Hs2) as (Hpl & Hpool & Hsup).
  apply presAt_modify.
  eapply (Rk_update s2 _ c); [unfold set; cbn; reflexivity|].
  intros Hold. destruct (sz_of_amount _ Eneg) as [Esz _].
  destruct (pledges s !! c) as [p|] eqn:Hp; unfold k_ok; cbn; rewrite ?settle_total, ?settle_spledged; cbn; rewrite Esz.
  - destruct (Hold p) as [H1 H2]; [rewrite Hpl; exact Hp|]. lia.
  - lia.
Qed.

Lemma Rk_remove_vstorage c sz s : presAt Rk (remove_vstorage c sz) s.
Proof.
  unfold remove_vstorage. apply presAt_bind_get.
  destruct (nodes s !! c) as [n|] eqn:Hn; [|psolve].
  destruct (pool s) as [po|] eqn:Hpo; [|psolve].
  destruct (pledges s !! c) as [p|] eqn:Hp; [|psolve].
  cbv zeta.
  match goal with |- presAt _ (if ?b then _ else _) _ => destruct b; [psolve|] end.
  match goal with |- presAt _ (if ?b then _ else _) _ => destruct b; [psolve|] end.
  match goal with |- presAt _ (if ?b then _ else _) _ => destruct b eqn:Eneg; [psolve|] end.
  apply Z.ltb_ge in Eneg.
  unfold coin_sub.
  match goal with |- presAt _ (bind (if ?b then _ else _) _) _ => destruct b eqn:Esub; [exact I|] end.
  apply Z.ltb_ge in Esub.
  apply presAt_bind_ret.
  apply presAt_bind_keep; [apply p_send_strict|]. intros _ s1 Hs1.
  apply presAt_bind_keep; [psolve|]. intros _ s2 Hs2.
  pose proof (same3_trans _ _ _ Hs1 Hs2) as (Hpl & Hpool & Hsup).
  apply presAt_modify.
  eapply (Rk_update s2 _ c); [unfold set; cbn; reflexivity|].
  intros Hold. destruct (sz_of_amount _ Eneg) as [_ Esz].
  unfold k_ok; cbn; rewrite ?settle_total, ?settle_spledged; cbn; rewrite Esz.
  destruct (Hold p) as [H1 H2]; [rewrite Hpl; exact Hp|]. lia.
Qed.

Lemma Rk_shard_pledge id sh price s : presAt Rk (shard_pledge id sh price) s.
Proof.
  unfold shard_pledge. apply presAt_bind_get.
  destruct (pledges s !! sh_sp sh) as [p|] eqn:Hp; [|psolve].
  destruct (pool s) as [po|] eqn:Hpo; [|psolve].
  cbv zeta.
  match goal with |- presAt _ (if ?b then _ else _) _ => destruct b; [psolve|] end.
  match goal with |- presAt _ (if ?b then _ else _) _ => destruct b; [exact I|] end.
  apply presAt_bind_keep; [psolve|]. intros _ s1 (Hpl & Hpool & Hsup).
  apply presAt_bind; [|intros; apply presAt_ret].
  apply presAt_modify.
  eapply (Rk_update s1 _ (sh_sp sh)); [unfold set; cbn; reflexivity|].
  intros Hold. destruct (Hold p) as [H1 H2]; [rewrite Hpl; exact Hp|].
  unfold k_ok; cbn. rewrite ?settle_total, ?settle_spledged. split; assumption.
Qed.

Lemma Rk_shard_release sp sh s : presAt Rk (shard_release sp sh) s.
Proof.
  unfold shard_release. apply presAt_bind_get.
  destruct (pledges s !! sp) as [p|] eqn:Hp; [|psolve].
  destruct (pool s) as [po|] eqn:Hpo; [|psolve].
  cbv zeta.
  set (acc := po_accreward po). set (p1 := settle acc p).
  apply (presAt_bind_keepQ Rk (fun p2 => pl_total p2 = pl_total p1 /\ pl_spledged p2 = pl_spledged p1)).
  { destruct sh as [sh|]; [|apply keepQ_ret; auto].
    apply keepQ_bind; [apply p_repay_debt|]. intros rw s1.
    apply keepQ_bind; [psolve|]. intros _ s2.
    unfold coin_sub. destruct (_ <? 0); [exact I|].
    split; [apply R_refl|]. cbn. auto. }
  intros p2 s1 (Hpl & Hpool & Hsup) (Q1 & Q2).
  apply presAt_modify.
  eapply (Rk_update s1 _ sp); [unfold set; cbn; reflexivity|].
  intros Hold. destruct (Hold p) as [H1 H2]; [rewrite Hpl; exact Hp|].
  unfold k_ok; cbn. rewrite Q1, Q2. subst p1. rewrite settle_total, settle_spledged. split; assumption.
Qed.

Lemma Rk_bump s k p x :
  pledges s !! k = Some p -> Rk s (s <| pledges ::= <[k := p <| pl_shpledged := x |>]> |>).
Proof.
  intros Hp. eapply (Rk_update s _ k); [unfold set; cbn; reflexivity|].
  intros Hold. destruct (Hold p Hp) as [H1 H2]. unfold k_ok; cbn. split; assumption.
Qed.

Global Instance FramePl_Rk : FramePl Rk.
Proof. split; [apply Rk_shard_pledge|apply Rk_shard_release|apply Rk_bump]. Qed.

Lemma Rk_claim_reward cx c s : presAt Rk (claim_reward cx c) s.
Proof.
  unfold claim_reward. apply presAt_bind_get.
  destruct (pledges s !! c) as [p0|] eqn:Hp0; [|psolve].
  apply presAt_bind; [apply presAt_try, Rk_shard_release|]. intros _ s1.
  apply presAt_bind_get.
  destruct (pledges s1 !! c) as [p|] eqn:Hp; [|exact I].
  destruct (dec_split (pl_reward p)) as [claim remain].
  match goal with |- presAt _ (if ?b then _ else _) _ => destruct b; [exact I|] end.
  cbv zeta.
  apply presAt_bind_keep; [apply p_market_claim|]. intros wr s2 Hs2.
  apply presAt_bind_keep; [apply p_repay_debt|]. intros rw s3 Hs3.
  apply presAt_bind_keep; [psolve|]. intros _ s4 Hs4.
  apply presAt_bind_keep; [psolve|]. intros _ s5 Hs5.
  pose proof (same3_trans _ _ _ (same3_trans _ _ _ (same3_trans _ _ _ Hs2 Hs3) Hs4) Hs5) as (Hpl & _ & _).
  apply presAt_bind; [|intros; apply presAt_ret].
  apply presAt_modify.
  eapply (Rk_update s5 _ c); [unfold set; cbn; reflexivity|].
  intros Hold. destruct (Hold p) as [H1 H2]; [rewrite Hpl; exact Hp|].
  unfold k_ok; cbn. split; assumption.
Qed.

(** * every operation keeps Inv_k *)
Lemma begin_block_Rk cx s : Rk s (fst (step cx s OBeginBlock)).
Proof.
  destruct (step_bb_post cx s) as (m & _ & _ & _ & Hpl & _). intros HI k p Hk. rewrite Hpl in Hk. apply (HI k p Hk).
Qed.

Theorem step_inv_k : forall cx s op, Inv_k s -> Inv_k (fst (step cx s op)).
Proof.
  intros cx s op. change (Rk s (fst (step cx s op))).
  destruct (tx_of cx op) as [m|] eqn:Htx.
  - rewrite (step_tx cx s op m Htx). apply (deliver_R Rk).
    destruct op; simpl in Htx; try discriminate; injection Htx as <-.
    + apply p_lift_did.
    + apply p_node_create.
    + apply p_node_reset.
    + apply Rk_add_vstorage.
    + apply Rk_remove_vstorage.
    + apply presAt_bind; [apply Rk_claim_reward|intros; apply presAt_ret].
    + apply p_sao_store.
    + apply p_sao_ready.
    + apply p_sao_complete.
    + apply p_sao_cancel.
    + apply p_sao_renew.
    + apply p_sao_terminate.
    + apply p_sao_migrate.
    + apply p_sao_update_permission.
    + apply p_sao_report_faults.
    + apply p_sao_recover_faults.
    + apply p_send_strict.
    + apply p_staking_tx.
  - destruct op; simpl in Htx; try discriminate.
    + apply begin_block_Rk.
    + rewrite step_end_block. apply (block_phase_R Rk). apply p_end_block.
    + simpl. pose proof (p_staking_tx (R:=Rk) evs s) as Hs. unfold presAt in Hs.
      destruct (staking_tx evs s); simpl; try apply R_refl; apply R_same'; reflexivity.
Qed.
Print Assumptions step_inv_k.

(** * the reward counter stays below the total reward *)
Definition Inv_rem (s : State) : Prop := forall po, pool s = Some po -> 0 <= po_reward po < TOTAL_REWARD.
Definition reward_ok (s : State) : Prop := 0 <= np_reward (nparams s) <= TOTAL_REWARD / 2.

(* the halved subsidy never reaches what is left of the total *)
Lemma subsidy_below_remaining R r :
  0 <= R <= TOTAL_REWARD / 2 -> 0 <= r < TOTAL_REWARD ->
  r + Z.shiftr R (Z.log2 (TOTAL_REWARD / (TOTAL_REWARD - r))) < TOTAL_REWARD.
Proof.
  intros HR Hr. set (rem := TOTAL_REWARD - r). assert (Hrem : 0 < rem) by (unfold rem; lia).
  set (q := TOTAL_REWARD / rem).
  assert (Hq : 1 <= q).
  { unfold q. apply Z.div_le_lower_bound; [lia|]. unfold rem, TOTAL_REWARD in *. lia. }
  set (a := Z.log2 q). assert (Ha : 0 <= a) by apply Z.log2_nonneg.
  destruct (Z.log2_spec q ltac:(lia)) as [Hlo Hhi]. fold a in Hlo, Hhi.
  rewrite Z.shiftr_div_pow2 by exact Ha.
  assert (Hp : 0 < 2 ^ a) by (apply Z.pow_pos_nonneg; lia).
  (* TOTAL_REWARD < (q + 1) * rem <= 2^(a+1) * rem *)
  assert (Hq1 : TOTAL_REWARD < (q + 1) * rem).
  { unfold q. pose proof (Z.mod_pos_bound TOTAL_REWARD rem Hrem). pose proof (Z.div_mod TOTAL_REWARD rem ltac:(lia)). nia. }
  rewrite Z.pow_succ_r in Hhi by exact Ha.
  assert (Hhalf : TOTAL_REWARD / 2 < 2 ^ a * rem).
  { assert (TOTAL_REWARD = 2 * (TOTAL_REWARD / 2)) by (unfold TOTAL_REWARD; reflexivity). nia. }
  assert (Hdiv : R / 2 ^ a < rem).
  { apply Z.div_lt_upper_bound; [exact Hp|]. lia. }
  unfold rem in Hdiv. lia.
Qed.

Lemma begin_block_inv_rem cx s : reward_ok s -> Inv_rem s -> Inv_rem (fst (step cx s OBeginBlock)).
Proof.
  intros [Hr1 Hr2] HI. rewrite step_begin_block. unfold block_phase.
  pose proof (begin_block_spec cx s) as Hb. pose proof (begin_block_cap cx s Hr1) as Hc.
  destruct (begin_block cx s) as [u t|e t|e|]; cbn [fst]; try exact HI.
  - destruct Hb as (m & Hm0 & Hsup & _ & _ & _ & Hpool). destruct Hc as (_ & Hcap & _).
    intros po' Hpo'. destruct (pool s) as [po|] eqn:Hpo; [|destruct Hpool as [Hn _]; congruence].
    destruct Hpool as (_ & po'' & E & Er & _). rewrite E in Hpo'. injection Hpo' as <-.
    destruct (HI po Hpo) as [H1 H2]. rewrite Er. split; [lia|].
    unfold subsidy_cap in Hcap. rewrite Hpo in Hcap. unfold halving_age in Hcap.
    pose proof (subsidy_below_remaining (np_reward (nparams s)) (po_reward po) (conj Hr1 Hr2) (conj H1 H2)). lia.
  - destruct Hb as (m & Hm0 & Hsup & _ & _ & _ & Hpool). destruct Hc as (_ & Hcap & _).
    intros po' Hpo'. destruct (pool s) as [po|] eqn:Hpo; [|destruct Hpool as [Hn _]; congruence].
    destruct Hpool as (_ & po'' & E & Er & _). rewrite E in Hpo'. injection Hpo' as <-.
    destruct (HI po Hpo) as [H1 H2]. rewrite Er. split; [lia|].
    unfold subsidy_cap in Hcap. rewrite Hpo in Hcap. unfold halving_age in Hcap.
    pose proof (subsidy_below_remaining (np_reward (nparams s)) (po_reward po) (conj Hr1 Hr2) (conj H1 H2)). lia.
Qed.

(* no other operation moves the counter *)
Definition Rr (s s' : State) : Prop :=
  forall po', pool s' = Some po' -> exists po, pool s = Some po /\ po_reward po' = po_reward po.
Global Instance Frame_Rr : Frame Rr.
Proof.
  split.
  - intros s1 s2 s3 H1 H2 po3 H3. destruct (H2 po3 H3) as (po2 & E2 & R2). destruct (H1 po2 E2) as (po1 & E1 & R1).
    exists po1. split; [exact E1|congruence].
  - intros s s' (_ & E & _) po' H. exists po'. split; [congruence|reflexivity].
Qed.
Lemma Rr_pool_same s s' : pool s' = pool s -> Rr s s'.
Proof. intros E po' H. exists po'. split; [congruence|reflexivity]. Qed.

Lemma Rr_add_vstorage c sz s : presAt Rr (add_vstorage c sz) s.
Proof.
  unfold add_vstorage. apply presAt_bind_get.
  destruct (nodes s !! c) as [n|] eqn:Hn; [|psolve].
  destruct (pool s) as [po|] eqn:Hpo; [|psolve].
  cbv zeta.
  match goal with |- presAt _ (if ?b then _ else _) _ => destruct b; [exact I|] end.
  apply presAt_bind_keep; [apply p_send_strict|]. intros _ s1 Hs1.
  apply presAt_bind_keep; [psolve|]. intros _ s2 Hs2.
  pose proof (same3_trans _ _ _ Hs1 Hs2) as (Hpl & Hpool & Hsup).
  apply presAt_modify. intros po' H. unfold set in H; cbn in H. injection H as <-.
  exists po. split; [congruence|reflexivity].
Qed.
Lemma Rr_remove_vstorage c sz s : presAt Rr (remove_vstorage c sz) s.
Proof.
  unfold remove_vstorage. apply presAt_bind_get.
  destruct (nodes s !! c) as [n|] eqn:Hn; [|psolve].
  destruct (pool s) as [po|] eqn:Hpo; [|psolve].
  destruct (pledges s !! c) as [p|] eqn:Hp; [|psolve].
  cbv zeta.
  match goal with |- presAt _ (if ?b then _ else _) _ => destruct b; [psolve|] end.
  match goal with |- presAt _ (if ?b then _ else _) _ => destruct b; [psolve|] end.
  match goal with |- presAt _ (if ?b then _ else _) _ => destruct b; [psolve|] end.
  unfold coin_sub.
  match goal with |- presAt _ (bind (if ?b then _ else _) _) _ => destruct b; [exact I|] end.
  apply presAt_bind_ret.
  apply presAt_bind_keep; [apply p_send_strict|]. intros _ s1 Hs1.
  apply presAt_bind_keep; [psolve|]. intros _ s2 Hs2.
  pose proof (same3_trans _ _ _ Hs1 Hs2) as (Hpl & Hpool & Hsup).
  apply presAt_modify. intros po' H. unfold set in H; cbn in H. injection H as <-.
  exists po. split; [congruence|reflexivity].
Qed.
Lemma Rr_shard_pledge id sh price s : presAt Rr (shard_pledge id sh price) s.
Proof.
  unfold shard_pledge. apply presAt_bind_get.
  destruct (pledges s !! sh_sp sh) as [p|] eqn:Hp; [|psolve].
  destruct (pool s) as [po|] eqn:Hpo; [|psolve].
  cbv zeta.
  match goal with |- presAt _ (if ?b then _ else _) _ => destruct b; [psolve|] end.
  match goal with |- presAt _ (if ?b then _ else _) _ => destruct b; [exact I|] end.
  apply presAt_bind_keep; [psolve|]. intros _ s1 (Hpl & Hpool & Hsup).
  apply presAt_bind; [|intros; apply presAt_ret].
  apply presAt_modify. apply Rr_pool_same. reflexivity.
Qed.
Lemma Rr_shard_release sp sh s : presAt Rr (shard_release sp sh) s.
Proof.
  unfold shard_release. apply presAt_bind_get.
  destruct (pledges s !! sp) as [p|] eqn:Hp; [|psolve].
  destruct (pool s) as [po|] eqn:Hpo; [|psolve].
  cbv zeta.
  apply (presAt_bind_keepQ Rr (fun _ => True)).
  { destruct sh as [sh|]; [|apply keepQ_ret; auto].
    apply keepQ_bind; [apply p_repay_debt|]. intros rw s1.
    apply keepQ_bind; [psolve|]. intros _ s2.
    unfold coin_sub. destruct (_ <? 0); [exact I|].
    split; [apply R_refl|]. exact I. }
  intros p2 s1 (Hpl & Hpool & Hsup) _.
  apply presAt_modify. apply Rr_pool_same. reflexivity.
Qed.
Lemma Rr_bump s k p x :
  pledges s !! k = Some p -> Rr s (s <| pledges ::= <[k := p <| pl_shpledged := x |>]> |>).
Proof. intros _. apply Rr_pool_same. reflexivity. Qed.
Global Instance FramePl_Rr : FramePl Rr.
Proof. split; [apply Rr_shard_pledge|apply Rr_shard_release|apply Rr_bump]. Qed.

Lemma Rr_claim_reward cx c s : presAt Rr (claim_reward cx c) s.
Proof.
  unfold claim_reward. apply presAt_bind_get.
  destruct (pledges s !! c) as [p0|] eqn:Hp0; [|psolve].
  apply presAt_bind; [apply presAt_try, Rr_shard_release|]. intros _ s1.
  apply presAt_bind_get.
  destruct (pledges s1 !! c) as [p|] eqn:Hp; [|exact I].
  destruct (dec_split (pl_reward p)) as [claim remain].
  match goal with |- presAt _ (if ?b then _ else _) _ => destruct b; [exact I|] end.
  cbv zeta.
  apply presAt_bind; [apply p_market_claim|]. intros wr s2.
  apply presAt_bind; [apply p_repay_debt|]. intros rw s3. cbv zeta.
  apply presAt_bind; [apply presAt_weaken; psolve|]. intros u4 s4.
  apply presAt_bind; [apply presAt_weaken; psolve|]. intros u5 s5.
  apply presAt_bind; [|intros; apply presAt_ret].
  apply presAt_modify. apply Rr_pool_same. reflexivity.
Qed.

Lemma step_Rr cx s op : op <> OBeginBlock -> Rr s (fst (step cx s op)).
Proof.
  intros Hb.
  destruct (tx_of cx op) as [m|] eqn:Htx.
  - rewrite (step_tx cx s op m Htx). apply (deliver_R Rr).
    destruct op; simpl in Htx; try discriminate; injection Htx as <-.
    + apply p_lift_did.
    + apply p_node_create.
    + apply p_node_reset.
    + apply Rr_add_vstorage.
    + apply Rr_remove_vstorage.
    + apply presAt_bind; [apply Rr_claim_reward|intros; apply presAt_ret].
    + apply p_sao_store.
    + apply p_sao_ready.
    + apply p_sao_complete.
    + apply p_sao_cancel.
    + apply p_sao_renew.
    + apply p_sao_terminate.
    + apply p_sao_migrate.
    + apply p_sao_update_permission.
    + apply p_sao_report_faults.
    + apply p_sao_recover_faults.
    + apply p_send_strict.
    + apply p_staking_tx.
  - destruct op; simpl in Htx; try discriminate.
    + contradiction.
    + rewrite step_end_block. apply (block_phase_R Rr). apply p_end_block.
    + simpl. pose proof (p_staking_tx (R:=Rr) evs s) as Hs. unfold presAt in Hs.
      destruct (staking_tx evs s); simpl; try apply R_refl; apply R_same'; reflexivity.
Qed.

Theorem step_inv_rem : forall cx s op, reward_ok s -> Inv_rem s -> Inv_rem (fst (step cx s op)).
Proof.
  intros cx s op Hr HI.
  assert (Hd : op = OBeginBlock \/ op <> OBeginBlock) by (destruct op; first [left; reflexivity|right; discriminate]).
  destruct Hd as [->|Hne]; [apply begin_block_inv_rem; assumption|].
  intros po' H. destruct (step_Rr cx s op Hne po' H) as (po & E & R). rewrite R. apply (HI po E).
Qed.

(** * BeginBlock never panics *)
Definition params_ok (s : State) : Prop :=
  reward_ok s /\ 2 <= np_halving (nparams s) /\ 0 <= np_apy (nparams s).

Lemma sum_map_scale (c : Z) (f g : Pledge -> Z) (m : gmap string Pledge) :
  (forall k p, m !! k = Some p -> f p = c * g p) -> sum_map f m = c * sum_map g m.
Proof.
  induction m as [|k x m Hk IH] using map_ind; intros H.
  - rewrite !sum_map_empty. lia.
  - rewrite !sum_map_insert by exact Hk. rewrite IH.
    + rewrite (H k x) by apply lookup_insert. lia.
    + intros j p Hj. apply (H j p). rewrite lookup_insert_ne; [exact Hj|]. intros ->. congruence.
Qed.

Lemma pool_storage_of_pledged s po : Inv_pool s -> Inv_k s -> pool s = Some po ->
  po_storage po = 1000000 * po_pledged po /\ 0 <= po_pledged po.
Proof.
  intros HP HK Hpo. destruct (HP po Hpo) as [E1 E2]. rewrite E1, E2. split.
  - apply sum_map_scale. intros k p Hk. apply (HK k p Hk).
  - apply sum_map_nonneg. intros k p Hk. apply (HK k p Hk).
Qed.

Lemma chop_round_nonneg x : 0 <= x -> 0 <= chop_round x.
Proof.
  intros Hx. unfold chop_round. destruct (x <? 0) eqn:E; [apply Z.ltb_lt in E; lia|].
  unfold chop_round_pos. assert (0 <= x / P18) by (apply Z.div_pos; unfold P18; lia).
  repeat match goal with |- context [if ?b then _ else _] => destruct b end; lia.
Qed.

Theorem begin_block_never_panics : forall cx s e,
  Inv_pool s -> Inv_k s -> Inv_rem s -> params_ok s -> begin_block cx s <> Panic e.
Proof.
  intros cx s e HP HK HR ((Hr1 & Hr2) & Hh & Ha).
  unfold begin_block, bind, get.
  destruct (pool s) as [p|] eqn:Hpool; [|discriminate].
  destruct (pool_storage_of_pledged s p HP HK Hpool) as [Est Hpl].
  destruct (HR p Hpool) as [Hp1 Hp2].
  destruct (po_pledged p =? 0) eqn:Hpl0; [discriminate|]. apply Z.eqb_neq in Hpl0.
  destruct (np_reward (nparams s) =? 0); [discriminate|].
  unfold reward_age.
  destruct (TOTAL_REWARD - po_reward p <? 0) eqn:E1; [apply Z.ltb_lt in E1; lia|].
  destruct (TOTAL_REWARD - po_reward p =? 0) eqn:E2; [apply Z.eqb_eq in E2; lia|].
  unfold ret at 1. cbv beta iota.
  set (age := Z.log2 _).
  set (subsidy := Z.shiftr _ age).
  assert (Hsub : 0 <= subsidy) by (apply Z.shiftr_nonneg; exact Hr1).
  set (reward := if po_pledged p <? np_baseline (nparams s) then _ else subsidy).
  assert (Hhalf : 1 <= np_halving (nparams s) / 2) by (apply Z.div_le_lower_bound; lia).
  destruct ((po_pledged p <? np_baseline (nparams s)) && (np_halving (nparams s) / 2 =? 0)) eqn:E3.
  { apply andb_prop in E3 as [_ E3]. apply Z.eqb_eq in E3. lia. }
  assert (Hrew : 0 <= reward).
  { subst reward. destruct (po_pledged p <? np_baseline (nparams s)); [|exact Hsub].
    match goal with |- 0 <= (if ?b then ?r else _) => assert (0 <= r); [|destruct b; lia] end.
    unfold dec_trunc, dec_quo_int. apply Z.quot_pos; [|unfold P18; lia]. apply Z.quot_pos; [|lia].
    unfold dec_mul. apply chop_round_nonneg. unfold dec_of_int, P18. nia. }
  destruct (reward <? 0) eqn:E4; [apply Z.ltb_lt in E4; lia|].
  destruct (reward =? 0); [discriminate|].
  set (p1 := if po_nrpb p =? 0 then _ else p).
  set (p2 := if cx_height cx mod np_adjust (nparams s) =? 0 then _ else p1).
  set (p3 := p2 <| po_nrpb := _ |>).
  assert (E3s : po_storage p3 = po_storage p).
  { subst p3 p2 p1. destruct (po_nrpb p =? 0), (cx_height cx mod np_adjust (nparams s) =? 0); reflexivity. }
  unfold mint. destruct (reward <=? 0); cbv beta iota.
  - destruct (po_storage p3 =? 0) eqn:E5; [apply Z.eqb_eq in E5; rewrite E3s in E5; lia|]. discriminate.
  - destruct (po_storage p3 =? 0) eqn:E5; [apply Z.eqb_eq in E5; rewrite E3s in E5; lia|]. discriminate.
Qed.
Print Assumptions begin_block_never_panics.

(* over whole histories: the three invariants hold in every reachable state, so no BeginBlock of any run halts the chain *)
Definition Live (s : State) : Prop := Inv_pool s /\ Inv_k s /\ Inv_rem s /\ params_ok s.

Theorem step_live : forall cx s op, Live s -> Live (fst (step cx s op)).
Proof.
  intros cx s op (HP & HK & HR & Hprm). split; [apply step_inv_pool, HP|]. split; [apply step_inv_k, HK|].
  split; [apply step_inv_rem; [apply Hprm|exact HR]|].
  unfold params_ok, reward_ok. rewrite (step_keeps_nparams cx s op). exact Hprm.
Qed.

Theorem run_begin_block_never_halts : forall tr s cx e,
  Live s -> begin_block cx (run tr s) <> Panic e.
Proof.
  intros tr s cx e HL.
  assert (H : Live (run tr s)).
  { revert s HL. induction tr as [|[c o] tr IH]; intros s HL; [exact HL|]. rewrite run_cons. apply IH, step_live, HL. }
  destruct H as (HP & HK & HR & Hprm). apply begin_block_never_panics; assumption.
Qed.
Print Assumptions run_begin_block_never_halts.

(** ** non-vacuity: the genesis of the accumulator example (empty pledge table, reward 1000, halving 32000000) is live,
    its run pledges capacity, mints three times and pays a claim -- and stays live *)
Example live_nonvacuous :
  Live ex_genesis /\ Live (run ex_trace ex_genesis) /\
  (exists po, pool (run ex_trace ex_genesis) = Some po /\ po_reward po = 3000 /\ 0 < po_pledged po) /\
  forall e, begin_block (ex_cx 5) (run ex_trace ex_genesis) <> Panic e.
Proof.
  assert (HL : Live ex_genesis).
  { split; [apply ex_genesis_inv|]. split; [intros k p Hk; cbn in Hk; rewrite lookup_empty in Hk; discriminate|].
    split; [intros po Hpo; injection Hpo as <-; cbn; unfold TOTAL_REWARD; lia|].
    unfold params_ok, reward_ok; cbn. repeat split; vm_compute; congruence. }
  split; [exact HL|].
  assert (HL' : Live (run ex_trace ex_genesis)).
  { revert HL. generalize ex_genesis. induction ex_trace as [|[c o] tr IH]; intros s HL; [exact HL|]. rewrite run_cons. apply IH, step_live, HL. }
  split; [exact HL'|]. split.
  - eexists. split; [vm_compute; reflexivity|]. split; [reflexivity|]. vm_compute. reflexivity.
  - intros e. apply run_begin_block_never_halts, HL.
Qed.
