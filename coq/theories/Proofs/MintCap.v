(* C08: a block never mints more than the subsidy of the CURRENT halving age, and that
   subsidy never grows again (sharper than the un-halved bound of Accumulator.begin_block_mint). *)
From SaoVerif Require Import Base.Prelude Base.Ints Base.Dec Model.Did Model.Types Model.Monad Model.Bank Model.Select
     Model.Node Model.Storage Model.Sao Model.Hooks Model.App Model.Spec.
From SaoVerif Require Import Proofs.Accumulator.
From RecordUpdate Require Import RecordUpdate.
Import RecordSetNotations.
From Coq Require Import Lia.

Definition mint_post (s s' : State) : Prop :=
  supply s <= supply s' /\ supply s' - supply s <= subsidy_cap s /\
  (forall po po', pool s = Some po -> pool s' = Some po' -> po_reward po' = po_reward po + (supply s' - supply s)) /\
  nparams s' = nparams s.

Lemma mint_post_refl s : 0 <= np_reward (nparams s) -> (forall po, pool s = Some po -> po_reward po < TOTAL_REWARD) -> mint_post s s.
Proof.
  intros Hnp Hlt. unfold mint_post. split; [lia|]. split.
  - replace (supply s - supply s) with 0 by lia. unfold subsidy_cap. destruct (pool s) as [po|]; [|lia].
    apply Z.shiftr_nonneg. exact Hnp.
  - split; [|reflexivity]. intros po po' H1 H2. rewrite H1 in H2. injection H2 as <-. lia.
Qed.

Lemma begin_block_cap cx s :
  0 <= np_reward (nparams s) ->
  match begin_block cx s with Ok _ s' | Err _ s' => mint_post s s' | _ => True end.
Proof.
  intros Hnp. unfold begin_block, bind, get.
  destruct (pool s) as [p|] eqn:Hpool.
  2:{ unfold ret, mint_post, subsidy_cap. rewrite Hpool. repeat split; try lia. intros ? ? H; discriminate. }
  assert (Hrefl : TOTAL_REWARD - po_reward p <? 0 = false -> TOTAL_REWARD - po_reward p =? 0 = false -> mint_post s s).
  { intros H1 H2. apply mint_post_refl; [exact Hnp|]. intros po Hpo. rewrite Hpool in Hpo. injection Hpo as <-. lia. }
  assert (Hrefl' : mint_post s s \/ True) by (right; exact I).
  destruct (po_pledged p =? 0) eqn:Hpl0.
  { unfold ret, mint_post, subsidy_cap. rewrite Hpool. split; [lia|]. split.
    - replace (supply s - supply s) with 0 by lia. apply Z.shiftr_nonneg. exact Hnp.
    - split; [|reflexivity]. intros po po' H1 H2. rewrite H1 in H2. injection H2 as <-. lia. }
  destruct (np_reward (nparams s) =? 0) eqn:Hr0.
  { unfold ret, mint_post, subsidy_cap. rewrite Hpool. split; [lia|]. split.
    - replace (supply s - supply s) with 0 by lia. apply Z.shiftr_nonneg. exact Hnp.
    - split; [|reflexivity]. intros po po' H1 H2. rewrite H1 in H2. injection H2 as <-. lia. }
  unfold reward_age.
  destruct (TOTAL_REWARD - po_reward p <? 0) eqn:Hrem1; [exact I|].
  destruct (TOTAL_REWARD - po_reward p =? 0) eqn:Hrem0; [exact I|].
  specialize (Hrefl eq_refl eq_refl).
  unfold ret at 1. cbv beta iota.
  set (age := Z.log2 _).
  set (subsidy := Z.shiftr _ age).
  set (reward := if po_pledged p <? np_baseline (nparams s) then _ else subsidy).
  destruct (_ && _); [exact I|].
  destruct (reward <? 0) eqn:Hneg; [exact I|].
  destruct (reward =? 0) eqn:Hz; [exact Hrefl|].
  set (p1 := if po_nrpb p =? 0 then _ else p).
  set (p2 := if cx_height cx mod np_adjust (nparams s) =? 0 then _ else p1).
  set (p3 := p2 <| po_nrpb := _ |>).
  assert (E3 : po_storage p3 = po_storage p /\ po_reward p3 = po_reward p).
  { subst p3 p2 p1. destruct (po_nrpb p =? 0), (cx_height cx mod np_adjust (nparams s) =? 0); repeat split. }
  destruct E3 as (E31 & E33).
  unfold mint. destruct (reward <=? 0) eqn:Hle; [lia|]. cbv beta iota.
  destruct (po_storage p3 =? 0) eqn:Hst; [exact I|].
  unfold modify.
  assert (Hsub : reward <= subsidy).
  { subst reward. destruct (po_pledged p <? np_baseline (nparams s)); [|lia].
    match goal with |- (if ?b then _ else _) <= _ => destruct b eqn:Hb end; lia. }
  unfold mint_post, subsidy_cap. cbn. rewrite Hpool.
  split; [lia|]. split.
  { replace (supply s + reward - supply s) with reward by lia. exact Hsub. }
  split; [|reflexivity].
  intros po po' H1 H2. injection H1 as <-. injection H2 as <-. cbn. change (po_reward p2) with (po_reward p3). rewrite E33. lia.
Qed.

(* the bound for one block *)
Theorem begin_block_mint_age : forall cx s s' d,
  0 <= np_reward (nparams s) ->
  (forall po, pool s = Some po -> po_reward po < TOTAL_REWARD) ->
  step cx s OBeginBlock = (s', OutBlock BOk d) ->
  0 <= supply s' - supply s <= subsidy_cap s.
Proof.
  intros cx s s' d Hnp Hlt Hstep.
  assert (Hs : s' = fst (step cx s OBeginBlock)) by (rewrite Hstep; reflexivity).
  rewrite step_begin_block in Hs. unfold block_phase in Hs.
  pose proof (begin_block_cap cx s Hnp) as Hb.
  destruct (begin_block cx s) as [u t|e t| |]; simpl in Hs; subst s'.
  - destruct Hb as (H1 & H2 & _). lia.
  - destruct Hb as (H1 & H2 & _). lia.
  - pose proof (mint_post_refl s Hnp Hlt) as (H1 & H2 & _). lia.
  - pose proof (mint_post_refl s Hnp Hlt) as (H1 & H2 & _). lia.
Qed.

(* the subsidy never grows again: minting only increases the halving age *)
Lemma halving_age_mono po po' :
  po_reward po <= po_reward po' -> po_reward po' < TOTAL_REWARD -> halving_age po <= halving_age po'.
Proof.
  intros H1 H2. unfold halving_age. apply Z.log2_le_mono.
  assert (0 < TOTAL_REWARD) by (unfold TOTAL_REWARD; lia).
  apply Z.div_le_compat_l; lia.
Qed.

Lemma shiftr_anti x a b : 0 <= x -> 0 <= a <= b -> Z.shiftr x b <= Z.shiftr x a.
Proof.
  intros Hx [Ha Hab]. rewrite !Z.shiftr_div_pow2 by lia.
  apply Z.div_le_compat_l; [exact Hx|]. split; [apply Z.pow_pos_nonneg; lia|].
  apply Z.pow_le_mono_r; lia.
Qed.

Theorem begin_block_cap_decreases : forall cx s s' d,
  0 <= np_reward (nparams s) ->
  (forall po, pool s = Some po -> po_reward po < TOTAL_REWARD) ->
  (forall po', pool s' = Some po' -> po_reward po' < TOTAL_REWARD) ->
  step cx s OBeginBlock = (s', OutBlock BOk d) ->
  subsidy_cap s' <= subsidy_cap s.
Proof.
  intros cx s s' d Hnp Hlt Hlt' Hstep.
  assert (Hs : s' = fst (step cx s OBeginBlock)) by (rewrite Hstep; reflexivity).
  rewrite step_begin_block in Hs. unfold block_phase in Hs.
  pose proof (begin_block_cap cx s Hnp) as Hb.
  pose proof (step_bb_post cx s) as Hbb. rewrite Hstep in Hbb. simpl in Hbb.
  destruct Hbb as (m & Hm & Hsup & _ & _ & _ & Hp).
  assert (Hpost : mint_post s s').
  { destruct (begin_block cx s) as [u t|e t| |]; simpl in Hs; subst s'; try exact Hb; apply mint_post_refl; assumption. }
  destruct Hpost as (_ & _ & Hrw & Hnpar).
  unfold subsidy_cap. rewrite Hnpar.
  destruct (pool s) as [po|] eqn:Hpo.
  - destruct Hp as (_ & po' & Hpo' & Hr & _). rewrite Hpo'.
    apply shiftr_anti; [exact Hnp|]. split.
    + apply Z.log2_nonneg.
    + apply halving_age_mono; [lia|]. apply Hlt'. exact Hpo'.
  - destruct Hp as [Hn _]. rewrite Hn. lia.
Qed.

(* non-vacuity and sharpness: at age 1 the bound is half the configured reward *)
Example subsidy_cap_age1 :
  let po := mkPool 10 200000000000000 0 0 0 0 10 0 in
  halving_age po = 1 /\ Z.shiftr 1000 (halving_age po) = 500.
Proof. vm_compute. split; reflexivity. Qed.

Print Assumptions begin_block_mint_age.
Print Assumptions begin_block_cap_decreases.
