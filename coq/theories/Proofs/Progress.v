(* C12, bounded response by a variant: an unfinished order handed to providers is resolved -- fully stored, or given up
   with the missing part cancelled / dropped and refunded -- within at most 11 + (number of providers not yet tried)
   timeout checks. Every check that neither resolves the order nor finds it younger than ten timeouts re-assigns its
   stalled shards to providers that were not yet tried for it (Placement.timeout_new_shards_fresh), and there are only
   finitely many of those. No unrolling: the bound is the variant. *)
From SaoVerif Require Import Base.Prelude Base.Ints Base.Dec Model.Did Model.Types Model.Monad Model.Bank Model.Select
     Model.Node Model.Storage Model.Sao Model.Hooks Model.App Model.Spec Proofs.SelectFacts Proofs.SelectApp Proofs.Frame Proofs.Schedule Proofs.Placement.
From RecordUpdate Require Import RecordUpdate.
Import RecordSetNotations.

(** * lists *)
Lemma filter_length_lt {A} (f g : A -> bool) (l : list A) x :
  In x l -> f x = true -> g x = false -> (forall y, g y = true -> f y = true) ->
  (length (filter g l) < length (filter f l))%nat.
Proof.
  intros Hin Hf Hg Himp. induction l as [|y l IH]; [destruct Hin|].
  assert (Hle : forall l0 : list A, (length (filter g l0) <= length (filter f l0))%nat).
  { induction l0 as [|z l0 IH0]; [reflexivity|]. rewrite !filter_cons.
    destruct (decide (g z)) as [Hgz|Hgz], (decide (f z)) as [Hfz|Hfz]; cbn; try lia.
    exfalso. apply Hfz. apply Is_true_true. apply Himp. apply Is_true_true_1. exact Hgz. }
  rewrite !filter_cons. destruct Hin as [->|Hin].
  - destruct (decide (g x)) as [Hgx|Hgx]; [rewrite Hg in Hgx; destruct Hgx|].
    destruct (decide (f x)) as [Hfx|Hfx]; [cbn; specialize (Hle l); lia|rewrite Hf in Hfx; exfalso; apply Hfx; exact I].
  - specialize (IH Hin). destruct (decide (g y)) as [Hgy|Hgy], (decide (f y)) as [Hfy|Hfy]; cbn; try lia.
    exfalso. apply Hfy. apply Is_true_true. apply Himp. apply Is_true_true_1. exact Hgy.
Qed.

Lemma omap_map_ext {A B C} (f g : A -> option B) (p : B -> C) (l : list A) :
  (forall a, In a l -> p <$> f a = p <$> g a) -> map p (omap f l) = map p (omap g l).
Proof.
  induction l as [|a l IH]; intros H; [reflexivity|].
  pose proof (H a (or_introl eq_refl)) as Ha. specialize (IH (fun b Hb => H b (or_intror Hb))).
  simpl. destruct (f a) as [x|], (g a) as [y|]; simpl in Ha |- *.
  - injection Ha as E. rewrite E. f_equal. exact IH.
  - discriminate Ha.
  - discriminate Ha.
  - exact IH.
Qed.

(** * the order the re-assignment loop returns, and what it leaves of the old shards *)
Lemma set_shards_twice (o : Order) a b : o <| o_shards := a |> <| o_shards := b |> = o <| o_shards := b |>.
Proof. destruct o; reflexivity. Qed.

Lemma reassign_order oid : forall l oacc t o' t',
  reassign oid l oacc t = Ok o' t' -> 0 <= shard_count t -> shard_count t + Z.of_nat (length l) < two64 ->
  o' = oacc <| o_shards := o_shards oacc ++ map (fun k => shard_count t + Z.of_nat k) (seq 0 (length l)) |>.
Proof.
  induction l as [|[newsp [sid sh]] r IH]; intros oacc t o' t' H H0 Hb; [cbn in H|rewrite reassign_cons in H].
  - injection H as <- <-. cbn. rewrite app_nil_r. destruct oacc; reflexivity.
  - unfold bind at 1 in H. unfold modify in H. cbn beta iota in H.
    unfold new_shard_task, append_shard in H. unfold bind at 1 in H. unfold bind at 1 in H. unfold get in H. cbn beta iota in H.
    unfold bind at 1 in H. unfold modify, ret in H. cbn beta iota in H.
    match type of H with reassign oid r ?oa0 ?tt = _ => set (t1 := tt) in H; set (oa := oa0) in H end.
    cbn [length] in Hb.
    assert (Hc1 : shard_count t1 = shard_count t + 1).
    { subst t1. unfold set; cbn. apply u64_id. unfold two64 in *. lia. }
    assert (G1 : 0 <= shard_count t1) by (rewrite Hc1; lia).
    assert (G2 : shard_count t1 + Z.of_nat (length r) < two64). { rewrite Hc1. rewrite Nat2Z.inj_succ in Hb. clearbody t1 oa. lia. }
    rewrite (IH oa t1 o' t' H G1 G2).
    subst oa. rewrite set_shards_twice.
    match goal with |- set o_shards (fun _ => ?A) _ = set o_shards (fun _ => ?B) _ => assert (E : A = B); [|rewrite E; reflexivity] end.
    unfold set at 1; cbn [o_shards]. cbn [length seq map]. rewrite <- app_assoc. cbn [app]. f_equal. f_equal.
    + unfold set; cbn. lia.
    + rewrite <- seq_shift, map_map. apply map_ext. intros k. rewrite Hc1. lia.
Qed.

Lemma reassign_sp oid : forall l oacc t o' t',
  reassign oid l oacc t = Ok o' t' -> 0 <= shard_count t -> shard_count t + Z.of_nat (length l) < two64 -> fresh_above t ->
  (forall x, In x l -> exists sh0, shards t !! x.2.1 = Some sh0 /\ sh_sp sh0 = sh_sp x.2.2) ->
  forall id, id < shard_count t -> sh_sp <$> (shards t' !! id) = sh_sp <$> (shards t !! id).
Proof.
  induction l as [|[newsp [sid sh]] r IH]; intros oacc t o' t' H H0 Hb Hf Hsp id Hid; [cbn in H|rewrite reassign_cons in H].
  - injection H as <- <-. reflexivity.
  - unfold bind at 1 in H. unfold modify in H. cbn beta iota in H.
    unfold new_shard_task, append_shard in H. unfold bind at 1 in H. unfold bind at 1 in H. unfold get in H. cbn beta iota in H.
    unfold bind at 1 in H. unfold modify, ret in H. cbn beta iota in H.
    match type of H with reassign oid r ?oa0 ?tt = _ => set (t1 := tt) in H; set (oa := oa0) in H end.
    cbn [length] in Hb.
    destruct (Hsp (newsp, (sid, sh)) (or_introl eq_refl)) as (sh0 & Esid & Esp0). cbn in Esid, Esp0.
    assert (Hs : sid < shard_count t).
    { destruct (Z_lt_le_dec sid (shard_count t)) as [Hlt|Hge]; [exact Hlt|]. rewrite (Hf sid Hge) in Esid. discriminate. }
    assert (Hc1 : shard_count t1 = shard_count t + 1).
    { subst t1. unfold set; cbn. apply u64_id. unfold two64 in *. lia. }
    assert (Hsh1 : shards t1 = <[shard_count t := mkShard oid ShardWaiting (o_size oacc) (o_cid oacc) 0 "" newsp 0 0 []]>
                                 (<[sid := sh <| sh_status := ShardTimeout |>]> (shards t))).
    { subst t1. unfold set; cbn. reflexivity. }
    assert (G1 : 0 <= shard_count t1) by (rewrite Hc1; lia).
    assert (G2 : shard_count t1 + Z.of_nat (length r) < two64) by (rewrite Hc1; lia).
    assert (Hold1 : forall j, j < shard_count t -> sh_sp <$> (shards t1 !! j) = sh_sp <$> (shards t !! j)).
    { intros j Hj. rewrite Hsh1. rewrite lookup_insert_ne by lia. destruct (decide (j = sid)) as [->|Hne].
      - rewrite lookup_insert, Esid. cbn. f_equal. exact (eq_sym Esp0).
      - rewrite lookup_insert_ne by congruence. reflexivity. }
    rewrite (IH oa t1 o' t' H G1 G2); [apply Hold1, Hid| | |rewrite Hc1; lia].
    + intros j Hj. rewrite Hc1 in Hj. rewrite Hsh1. rewrite !lookup_insert_ne by lia. apply Hf. lia.
    + intros x Hx. destruct (Hsp x (or_intror Hx)) as (shx & Ex & Espx).
      assert (Hxl : x.2.1 < shard_count t).
      { destruct (Z_lt_le_dec x.2.1 (shard_count t)) as [Hlt|Hge]; [exact Hlt|]. rewrite (Hf _ Hge) in Ex. discriminate. }
      pose proof (Hold1 x.2.1 Hxl) as E1. rewrite Ex in E1.
      destruct (shards t1 !! x.2.1) as [y|]; simpl in E1; [|discriminate E1]. exists y. split; [reflexivity|]. injection E1 as E1. congruence.
Qed.

(** * providers tried for an order, providers left *)
Definition present (s : State) (o : Order) : list (Z * Shard) :=
  omap (fun id => match shards s !! id with Some sh => Some (id, sh) | None => None end) (o_shards o).
Definition provs (s : State) (o : Order) : list string := map (fun x : Z * Shard => sh_sp x.2) (present s o).
Definition has_waiting (s : State) (o : Order) : Prop :=
  exists id sh, In id (o_shards o) /\ shards s !! id = Some sh /\ sh_status sh = ShardWaiting.
(* the variant: pledged providers not (yet) holding or having timed out on a shard of the order *)
Definition untried (s : State) (o : Order) : nat :=
  length (filter (fun a => negb (in_list a (provs s o))) (map fst (map_to_list (pledges s)))).

Lemma reassign_keeps_pledges oid : forall l oacc, keeps pledges (reassign oid l oacc).
Proof.
  induction l as [|[newsp [sid sh]] r IH]; intros oacc; [apply keeps_ret|]. rewrite reassign_cons.
  apply keeps_bind; [apply keeps_modify; intros; reflexivity|intros _].
  apply keeps_bind; [|intros nid; apply IH].
  unfold new_shard_task, append_shard. apply keeps_bind; [apply keeps_get|intros t0].
  apply keeps_bind; [apply keeps_modify; intros; reflexivity|intros _; apply keeps_ret].
Qed.

Lemma omap_new_shards (m : gmap Z Shard) c : forall (l : list (string * (Z * Shard))) i,
  (forall k x, l !! k = Some x -> exists sh', m !! (c + Z.of_nat (i + k)) = Some sh' /\ sh_sp sh' = x.1) ->
  map (fun x : Z * Shard => sh_sp x.2)
      (omap (fun id => match m !! id with Some sh => Some (id, sh) | None => None end)
            (map (fun k => c + Z.of_nat k) (seq i (length l)))) = map fst l.
Proof.
  induction l as [|x l IH]; intros i H; [reflexivity|]. cbn [length seq map]. simpl omap.
  destruct (H 0%nat x eq_refl) as (sh' & E & Esp). rewrite Nat.add_0_r in E. rewrite E. cbn [map]. f_equal; [exact Esp|].
  apply IH. intros k y Hk. destruct (H (S k) y Hk) as (sh2 & E2 & Esp2). exists sh2. split; [|exact Esp2].
  replace (S i + k)%nat with (i + S k)%nat by lia. exact E2.
Qed.

(** * one timeout check: resolved, too young to give up, or re-assigned to untried providers *)
Definition side (cx : Ctx) (s : State) (o : Order) : Prop :=
  0 <= cx_seed cx /\ 0 <= shard_count s /\ shard_count s + Z.of_nat (length (o_shards o)) < two64 /\ fresh_above s /\
  forall id, In id (o_shards o) -> id < shard_count s.

Definition resolved (oid : Z) (s' : State) : Prop :=
  orders s' !! oid = None \/ exists o', orders s' !! oid = Some o' /\ ~ has_waiting s' o'.
Definition young (cx : Ctx) (oid : Z) (o : Order) (s s' : State) : Prop :=
  u64 (cx_height cx - o_created o) <= (MAX_TRIES * o_timeout o) mod two64 /\
  orders s' !! oid = Some o /\ shards s' = shards s /\ pledges s' = pledges s /\ shard_count s' = shard_count s.
Definition reassigned (oid : Z) (o : Order) (s s' : State) : Prop :=
  exists o' news, orders s' !! oid = Some o' /\ o' = o <| o_shards := o_shards o ++ news |> /\
    pledges s' = pledges s /\ (untried s' o' < untried s o)%nat /\ fresh_above s' /\ 0 <= shard_count s' /\
    shard_count s' = shard_count s + Z.of_nat (length news) /\ (forall id, In id (o_shards o') -> id < shard_count s').

Lemma keeps_pledges_random_sp cx count ign size s sps s' :
  random_sp_m cx count ign size s = Ok sps s' -> pledges s' = pledges s /\ nodes s' = nodes s.
Proof.
  unfold random_sp_m, bind, get. destruct (random_sp _ _ _ _ _ _ _) as [[c r]| |]; try discriminate.
  unfold modify, ret. intros H. injection H as _ <-. split; reflexivity.
Qed.

Lemma remove_shards_lookup ids s id : ~ In id ids ->
  fold_left (fun m i => delete i m) ids (shards s) !! id = shards s !! id.
Proof.
  generalize (shards s). induction ids as [|x r IH]; intros m Hn; [reflexivity|]. cbn [fold_left].
  rewrite IH by (intros Hc; apply Hn; right; exact Hc). apply lookup_delete_ne. intros ->. apply Hn. left. reflexivity.
Qed.

Theorem timeout_check_cases : forall cx oid s s' o,
  handle_timeout_order cx oid s = Ok tt s' -> orders s !! oid = Some o ->
  o_status o <> OrderPending -> u64 (cx_height cx + o_timeout o) < u64 (o_created o + o_duration o) ->
  has_waiting s o -> side cx s o ->
  resolved oid s' \/ young cx oid o s s' \/ reassigned oid o s s'.
Proof.
  intros cx oid s s' o H Ho Hnp Hlt (wid & wsh & Hwid & Hwsh & Hw) (Hseed & H0 & Hb & Hf & Hids).
  unfold handle_timeout_order in H. apply bind_ok in H. destruct H as (s0 & s0' & Hget & H). inversion Hget; subst s0' s0; clear Hget.
  rewrite Ho in H.
  destruct (o_status o =? OrderPending) eqn:E1; [apply Z.eqb_eq in E1; contradiction|].
  destruct (_ <=? _) eqn:E2; [apply Z.leb_le in E2; lia|].
  cbv zeta in H.
  change (omap (fun id => match shards s !! id with Some sh => Some (id, sh) | None => None end) (o_shards o)) with (present s o) in H.
  set (tshards := filter (fun x : Z * Shard => sh_status x.2 =? ShardWaiting) (present s o)) in H.
  assert (Hpres : forall x, In x (present s o) -> shards s !! x.1 = Some x.2 /\ In x.1 (o_shards o)).
  { intros [i shx] Hx. apply elem_of_list_In, elem_of_list_omap in Hx as (i0 & Hi0 & E). apply elem_of_list_In in Hi0.
    destruct (shards s !! i0) as [y|] eqn:Ey; [|discriminate]. injection E as <- <-. split; [exact Ey|exact Hi0]. }
  assert (Hin : In (wid, wsh) tshards).
  { apply elem_of_list_In, elem_of_list_filter. split; [simpl; rewrite Hw; exact I|].
    apply elem_of_list_omap. exists wid. split; [apply elem_of_list_In; exact Hwid|]. rewrite Hwsh. reflexivity. }
  destruct (Z.of_nat (length tshards) =? 0) eqn:E3; [apply Z.eqb_eq in E3; destruct tshards; [destruct Hin|cbn in E3; lia]|].
  apply bind_ok in H. destruct H as (rand & s1 & Hr & H).
  destruct (random_sp_m_spec _ _ _ _ _ _ _ Hseed Hr) as (Hnd & Hall & _).
  destruct (random_sp_m_state _ _ _ _ _ _ _ Hr) as (Hc1 & Hs1).
  destruct (keeps_pledges_random_sp _ _ _ _ _ _ _ Hr) as (Hp1 & Hn1).
  assert (Ho1 : orders s1 = orders s).
  { revert Hr. unfold random_sp_m, bind, get. destruct (random_sp _ _ _ _ _ _ _) as [[c r]| |]; try discriminate.
    unfold modify, ret. intros Hx. injection Hx as _ <-. reflexivity. }
  destruct rand as [|r0 rand].
  - (* nobody to re-assign to *)
    destruct (_ <? _) eqn:E4.
    + left. (* give up *)
      destruct (negb (o_status o =? OrderCompleted)) eqn:E5.
      * apply bind_ok in H. destruct H as ([] & s2 & H2 & H).
        unfold remove_shards, modify in H2. inversion H2; subst s2; clear H2.
        apply bind_ok in H. destruct H as (r & s3 & H3 & H). unfold ret in H. inversion H; subst s3; clear H.
        apply try_ok in H3. destruct H3 as [(a & _ & H3)|(e & _ & H3)].
        -- left. destruct a. apply cancel_order_ok in H3. exact H3.
        -- right. apply Schedule.cancel_order_err in H3. destruct H3 as (_ & -> & _).
           exists o. split; [unfold set; cbn; rewrite Ho1; exact Ho|].
           intros (id & sh & Hid & Hsh & _). unfold set in Hsh; cbn in Hsh. rewrite remove_all_lookup in Hsh by exact Hid. discriminate.
      * right. (* the order stays, without the replicas nobody stored *)
        apply bind_ok in H. destruct H as ([] & s2 & H2 & H).
        unfold remove_shards, modify in H2. inversion H2; subst s2; clear H2.
        cbv zeta in H. destruct (dec_trunc _ <? 0); [discriminate|].
        apply bind_ok in H. destruct H as (o2 & s3 & H3 & H).
        unfold modify in H. inversion H; subst s'; clear H.
        set (completed := map fst (filter (fun x : Z * Shard => sh_status x.2 =? ShardCompleted) (present s o))) in *.
        set (uncompleted := map fst (filter (fun x : Z * Shard => negb (sh_status x.2 =? ShardCompleted)) (present s o))) in *.
        match type of H3 with ?m ?st = _ => set (sA := st) in H3 end.
        assert (Hres : o_shards o2 = completed /\ shards s3 = shards sA).
        { destruct (dec_trunc _ =? 0).
          - unfold ret in H3. inversion H3; subst. split; reflexivity.
          - apply bind_ok in H3. destruct H3 as (sB & sB' & Hg & H3). inversion Hg; subst sB' sB; clear Hg.
            apply bind_ok in H3. destruct H3 as ([] & sC & Hpay & H3).
            apply bind_ok in H3. destruct H3 as (a & sD & Hsub & H3). unfold ret in H3. inversion H3; subst; clear H3.
            split; [reflexivity|].
            assert (EC : shards sC = shards sA).
            { destruct (pay_addr sA _) as [payer|]; [|unfold ret in Hpay; inversion Hpay; reflexivity].
              apply bind_ok in Hpay. destruct Hpay as (rr & sE & Ht & Hpay). unfold ret in Hpay. inversion Hpay; subst; clear Hpay.
              match type of Ht with try_ (send_strict ?a ?b ?n) _ = _ => pose proof (keeps_try shards _ (sh_send_strict a b n) sA) as K end.
              rewrite Ht in K. exact K. }
            unfold coin_sub in Hsub. destruct (_ <? 0); [discriminate|]. unfold ret in Hsub. inversion Hsub; subst. exact EC. }
        destruct Hres as [Esh Es3].
        exists o2. split; [unfold set; cbn; apply lookup_insert|].
        intros (id & sh & Hid & Hsh & Hst). unfold set in Hsh; cbn in Hsh. rewrite Es3 in Hsh. subst sA. unfold set in Hsh; cbn in Hsh.
        rewrite Esh in Hid. unfold completed in Hid. apply in_map_iff in Hid as ([i shx] & <- & Hx). cbn in *.
        apply elem_of_list_In, elem_of_list_filter in Hx as [Hc Hx]. cbn in Hc. apply elem_of_list_In in Hx.
        destruct (Hpres _ Hx) as [Epx _]. cbn in Epx.
        destruct (In_dec Z.eq_dec i uncompleted) as [Hu|Hu].
        -- rewrite remove_all_lookup in Hsh by exact Hu. discriminate.
        -- rewrite remove_shards_lookup in Hsh by exact Hu. rewrite Hs1, Epx in Hsh. injection Hsh as <-.
           rewrite Hst in Hc. cbn in Hc. destruct Hc.
    + right. left. unfold set_timeout_block, modify in H. inversion H; subst s'. unfold young, set; cbn.
      apply Z.ltb_ge in E4. split; [exact E4|]. split; [rewrite Ho1; exact Ho|]. split; [exact Hs1|]. split; [exact Hp1|exact Hc1].
  - (* the re-assignment *)
    right. right.
    match type of H with bind (?F ?l0 ?o0) _ _ = _ => change (F l0 o0) with (reassign oid l0 o0) in H end.
    apply bind_ok in H. destruct H as (o' & t' & Hre & H).
    apply bind_ok in H. destruct H as ([] & t2 & Hm & H).
    unfold modify in Hm. injection Hm as <-. unfold set_timeout_block, modify in H. injection H as <-.
    set (l := combine (r0 :: rand) tshards) in *.
    assert (Hl_len : (length l <= length (o_shards o))%nat).
    { subst l. rewrite combine_length. etransitivity; [apply Nat.le_min_r|].
      subst tshards. etransitivity; [apply filter_length|]. unfold present. apply omap_length_le. }
    assert (Hl_pos : (0 < length l)%nat).
    { subst l. rewrite combine_length. destruct tshards; [destruct Hin|cbn; lia]. }
    assert (Hl_sid : forall x, In x l -> exists sh0, shards s1 !! x.2.1 = Some sh0 /\ sh_sp sh0 = sh_sp x.2.2).
    { intros x Hx. subst l. destruct x as [a [i shx]]. apply in_combine_r in Hx. cbn.
      apply elem_of_list_In, elem_of_list_filter in Hx as [_ Hx]. apply elem_of_list_In in Hx.
      destruct (Hpres _ Hx) as [E _]. cbn in E. rewrite Hs1, E. eexists; split; reflexivity. }
    assert (G0 : 0 <= shard_count s1) by (rewrite Hc1; exact H0).
    assert (Gb : shard_count s1 + Z.of_nat (length l) < two64) by (rewrite Hc1; lia).
    assert (Gf : fresh_above s1) by (intros i Hi; rewrite Hs1; apply Hf; rewrite <- Hc1; exact Hi).
    destruct (reassign_spec oid l o s1 o' t' Hre G0 Gb) as (Hc & Hf' & Hold' & Hnew'); [|exact Gf|].
    { intros x Hx. destruct (Hl_sid x Hx) as (y & Ey & _). eexists; exact Ey. }
    pose proof (reassign_order oid l o s1 o' t' Hre G0 Gb) as Eo'.
    pose proof (reassign_sp oid l o s1 o' t' Hre G0 Gb Gf Hl_sid) as Hsp.
    pose proof (reassign_keeps_pledges oid l o s1) as Kp. rewrite Hre in Kp.
    set (news := map (fun k => shard_count s1 + Z.of_nat k) (seq 0 (length l))) in *.
    assert (Hnews : forall id, In id news -> id < shard_count s1 + Z.of_nat (length l)).
    { intros id Hid. unfold news in Hid. apply in_map_iff in Hid as (k & <- & Hk). apply in_seq in Hk. lia. }
    exists o', news. unfold set; cbn.
    split; [apply lookup_insert|]. split; [exact Eo'|]. split; [congruence|].
    (* the providers tried afterwards: those tried before, then the new ones *)
    assert (Eprov : provs (mkState (did t') (nodes t') (pledges t') (debts t') (pool t') (round t') (faults t') (fault_idx t') (fishing t')
                                   (nparams t') (<[oid := o']> (orders t')) (order_count t') (shards t') (shard_count t') (metas t') (models t')
                                   (expdata t') (<[u64 (cx_height cx + o_timeout o) := default [] (timeouts t' !! u64 (cx_height cx + o_timeout o)) ++ [oid]]> (timeouts t'))
                                   (expshards t') (workers t') (bal t') (supply t') (vals t') (dels t') (pg t')) o'
                    = provs s o ++ map fst l).
    { unfold provs, present. cbn [shards]. rewrite Eo'. unfold set at 1; cbn [o_shards]. rewrite omap_app, map_app. f_equal.
      - apply omap_map_ext. intros id Hid. specialize (Hsp id ltac:(rewrite Hc1; apply Hids, Hid)). rewrite <- Hs1.
        destruct (shards t' !! id) as [y|], (shards s1 !! id) as [z|]; simpl in Hsp |- *; try discriminate; [injection Hsp as ->; reflexivity|reflexivity].
      - apply (omap_new_shards (shards t') (shard_count s1) l 0). intros k x Hk. destruct (Hnew' k x Hk) as (sh' & E & P & _). exists sh'. split; [exact E|exact P]. }
    split; [|split; [exact Hf'|split; [lia|split; [rewrite Hc, Hc1; unfold news; rewrite map_length, seq_length; reflexivity|]]]].
    + unfold untried. cbn [pledges]. rewrite Eprov, Kp, Hp1.
      assert (Ha : In r0 (map fst l)).
      { subst l. destruct tshards as [|t0 ts]; [destruct Hin|]. cbn. left. reflexivity. }
      destruct (Hall r0 (or_introl eq_refl)) as (n & _ & Hel & Hig).
      apply (filter_length_lt _ _ _ r0).
      * unfold eligible in Hel. apply andb_prop in Hel as [Hel _]. apply andb_prop in Hel as [Hel _]. unfold free_ok in Hel. cbn in Hel.
        destruct (pledges s !! r0) as [p|] eqn:Ep; [|discriminate]. apply in_map_iff. exists (r0, p). split; [reflexivity|].
        apply elem_of_list_In, elem_of_map_to_list. exact Ep.
      * unfold provs. rewrite Hig. reflexivity.
      * apply negb_false_iff. apply In_in_list'. apply in_app_iff. right. exact Ha.
      * intros y Hy. apply negb_true_iff in Hy. apply negb_true_iff. destruct (in_list y (provs s o)) eqn:E; [|reflexivity].
        exfalso. assert (Hc' : in_list y (provs s o ++ map fst l) = true); [|rewrite Hc' in Hy; discriminate].
        apply In_in_list'. apply in_app_iff. left. unfold in_list in E. apply existsb_exists in E as (z & Hz & Ez). apply String.eqb_eq in Ez. subst z. exact Hz.
    + intros id Hid. rewrite Eo' in Hid. unfold set in Hid; cbn in Hid. apply in_app_iff in Hid as [Hid|Hid].
      * specialize (Hids id Hid). lia.
      * rewrite Hc. apply Hnews, Hid.
Qed.
Print Assumptions timeout_check_cases.

(** * the bound: a chain of checks on an unresolved order is short *)
(* [chain oid tau h cxs s]: the checks [cxs] run one after the other from [s], each [tau] blocks after the previous one
   ([h] is the height of the previous check), each on the order still unresolved, each returning normally *)
Inductive chain (oid tau : Z) : Z -> list Ctx -> State -> Prop :=
| chain_nil h s : chain oid tau h [] s
| chain_cons h cx cxs s s' o :
    cx_height cx = h + tau -> 0 <= cx_height cx < two63 ->
    orders s !! oid = Some o -> o_timeout o = tau -> o_status o <> OrderPending -> has_waiting s o -> side cx s o ->
    u64 (cx_height cx + o_timeout o) < u64 (o_created o + o_duration o) ->
    handle_timeout_order cx oid s = Ok tt s' ->
    chain oid tau (cx_height cx) cxs s' ->
    chain oid tau h (cx :: cxs) s.

Lemma untried_same s s' o : shards s' = shards s -> pledges s' = pledges s -> untried s' o = untried s o.
Proof. intros E1 E2. unfold untried, provs, present. rewrite E1, E2. reflexivity. Qed.

Theorem checks_bounded : forall oid tau c cxs h s o,
  chain oid tau h cxs s -> orders s !! oid = Some o -> o_created o = c -> 0 < tau < two31 -> 0 <= c <= h ->
  Z.of_nat (length cxs) <= Z.max 0 ((c + MAX_TRIES * tau - h) / tau) + Z.of_nat (untried s o) + 1.
Proof.
  intros oid tau c cxs. induction cxs as [|cx cxs IH]; intros h s o Hch Ho Hc Htau Hh.
  - cbn. lia.
  - inversion Hch as [|h0 cx0 cxs0 s0 s' o0 Hht Hhr Ho0 Hto Hnp Hw Hside Hlong Hrun Hrest]; subst.
    rewrite Ho in Ho0. injection Ho0 as <-.
    destruct (timeout_check_cases cx oid s s' o Hrun Ho Hnp Hlong Hw Hside) as [Hres|[Hy|Hre]].
    + (* resolved: no further check on an unresolved order *)
      destruct cxs as [|cx2 cxs2]; [cbn; lia|]. exfalso.
      inversion Hrest as [|h1 cx1 cxs1 s1 s2 o2 _ _ Ho2 _ _ Hw2 _ _ _ _]; subst.
      destruct Hres as [Hn|(o'' & Ho'' & Hnw)]; [congruence|]. rewrite Ho2 in Ho''. injection Ho'' as <-. contradiction.
    + destruct Hy as (Hyoung & Ho' & Hsh & Hpl & _).
      assert (Ey : u64 (cx_height cx - o_created o) = cx_height cx - o_created o).
      { apply u64_id. unfold two63, two64 in *. lia. }
      assert (Em : (MAX_TRIES * o_timeout o) mod two64 = MAX_TRIES * o_timeout o).
      { apply Z.mod_small. unfold MAX_TRIES, two31, two64 in *. lia. }
      rewrite Ey, Em in Hyoung.
      specialize (IH (cx_height cx) s' o Hrest Ho' eq_refl Htau ltac:(lia)).
      rewrite (untried_same s s' o Hsh Hpl) in IH. cbn [length]. rewrite Nat2Z.inj_succ.
      assert (Hdiv : (o_created o + MAX_TRIES * o_timeout o - (h + o_timeout o)) / o_timeout o = (o_created o + MAX_TRIES * o_timeout o - h) / o_timeout o - 1).
      { replace (o_created o + MAX_TRIES * o_timeout o - (h + o_timeout o)) with ((o_created o + MAX_TRIES * o_timeout o - h) + (-1) * o_timeout o) by lia.
        rewrite Z.div_add by lia. lia. }
      rewrite Hht in IH. rewrite Hdiv in IH.
      assert (1 <= (o_created o + MAX_TRIES * o_timeout o - h) / o_timeout o).
      { apply Z.div_le_lower_bound; lia. }
      lia.
    + destruct Hre as (o' & news & Ho' & Eo' & Hpl & Hlt' & _).
      assert (Ec : o_created o' = o_created o) by (rewrite Eo'; reflexivity).
      specialize (IH (cx_height cx) s' o' Hrest Ho' Ec Htau ltac:(lia)).
      cbn [length]. rewrite Nat2Z.inj_succ.
      assert (Hmono : (o_created o + MAX_TRIES * o_timeout o - cx_height cx) / o_timeout o <= (o_created o + MAX_TRIES * o_timeout o - h) / o_timeout o).
      { apply Z.div_le_mono; lia. }
      lia.
Qed.
Print Assumptions checks_bounded.

Lemma untried_le_pledges s o : (untried s o <= size (pledges s))%nat.
Proof.
  unfold untried. etransitivity; [apply filter_length|]. rewrite map_length. unfold size, map_size. lia.
Qed.

(* THE BOUNDED-RESPONSE THEOREM. From the hand-out of an order on (h >= created), the timeout mechanism examines it while
   unresolved at most 11 + (number of providers with a pledge) times: by then it is fully stored, cancelled and
   refunded, or its missing replicas are dropped and refunded. *)
Corollary checks_bounded_by_population : forall oid tau cxs h s o,
  chain oid tau h cxs s -> orders s !! oid = Some o -> 0 < tau < two31 -> 0 <= o_created o <= h ->
  Z.of_nat (length cxs) <= 11 + Z.of_nat (size (pledges s)).
Proof.
  intros oid tau cxs h s o Hch Ho Htau Hh.
  pose proof (checks_bounded oid tau (o_created o) cxs h s o Hch Ho eq_refl Htau Hh) as H.
  pose proof (untried_le_pledges s o) as Hu.
  assert (Hd : (o_created o + MAX_TRIES * tau - h) / tau <= MAX_TRIES).
  { apply Z.div_le_upper_bound; [lia|]. unfold MAX_TRIES. nia. }
  unfold MAX_TRIES in *. lia.
Qed.

(** ** non-vacuity: the order of RefInt.W before its provider completed, two checks: the first re-assigns the shard of
    "T" to "S" (the only untried provider), the second finds nobody left and, the order being younger than ten
    timeouts, re-schedules *)
From SaoVerif Require Import Model.Inv Model.Monitors Proofs.RefInt.
Definition p_s1' : State := match handle_timeout_order (W.cxh 105) 1 W.s1 with Ok _ t => t | _ => W.s1 end.
Definition p_s2' : State := match handle_timeout_order (W.cxh 205) 1 p_s1' with Ok _ t => t | _ => p_s1' end.

Lemma fresh_of_mon s : RefInt.mon_ids s = true -> fresh_above s.
Proof.
  intros Hm id Hid. destruct (shards s !! id) as [x|] eqn:E; [|reflexivity]. exfalso.
  unfold RefInt.mon_ids in Hm. apply andb_prop in Hm as [_ Hm]. pose proof (all_z_spec _ _ Hm id x E) as Hb. cbn beta in Hb.
  apply andb_prop in Hb as [_ Hb]. apply Z.ltb_lt in Hb. lia.
Qed.

Example chain_nonvacuous :
  chain 1 100 5 [W.cxh 105; W.cxh 205] W.s1 /\
  (exists o, orders W.s1 !! 1 = Some o /\ untried W.s1 o = 1%nat /\ o_created o = 5 /\ o_timeout o = 100) /\
  (exists o', orders p_s2' !! 1 = Some o' /\ untried p_s2' o' = 0%nat /\ length (o_shards o') = 2%nat).
Proof.
  split.
  - eapply (chain_cons 1 100 5 (W.cxh 105) _ W.s1 p_s1').
    + reflexivity.
    + split; vm_compute; congruence.
    + vm_compute. reflexivity.
    + reflexivity.
    + vm_compute. discriminate.
    + exists 1. eexists. split; [left; reflexivity|]. split; [vm_compute; reflexivity|reflexivity].
    + split; [vm_compute; congruence|]. split; [vm_compute; congruence|]. split; [vm_compute; reflexivity|].
      split; [apply fresh_of_mon; vm_compute; reflexivity|]. intros id [<-|[]]. vm_compute. reflexivity.
    + vm_compute. reflexivity.
    + vm_compute. reflexivity.
    + eapply (chain_cons 1 100 105 (W.cxh 205) _ p_s1' p_s2').
      * reflexivity.
      * split; vm_compute; congruence.
      * vm_compute. reflexivity.
      * reflexivity.
      * vm_compute. discriminate.
      * exists 2. eexists. split; [right; left; reflexivity|]. split; [vm_compute; reflexivity|reflexivity].
      * split; [vm_compute; congruence|]. split; [vm_compute; congruence|]. split; [vm_compute; reflexivity|].
        split; [apply fresh_of_mon; vm_compute; reflexivity|]. intros id [<-|[<-|[]]]; vm_compute; reflexivity.
      * vm_compute. reflexivity.
      * vm_compute. reflexivity.
      * apply chain_nil.
  - split; eexists; (split; [vm_compute; reflexivity|]); repeat split; vm_compute; reflexivity.
Qed.
