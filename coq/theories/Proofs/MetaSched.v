(* C11 / C05, history level: every data model is scheduled for removal at exactly the end of its
   lifetime (created + duration), in every reachable state. *)
From SaoVerif Require Import Base.Prelude Base.Ints Base.Dec Model.Did Model.Types Model.Monad Model.Bank Model.Select
     Model.Node Model.Storage Model.Sao Model.Hooks Model.App Model.Spec Proofs.Frame Proofs.Authz Proofs.Hoare Proofs.History.
From RecordUpdate Require Import RecordUpdate.
Import RecordSetNotations.

(** * the slice machine of removeDataExpireBlock keeps every other entry *)
Lemma rm_loop_keeps data x : x <> data -> forall n idx arr len arr' len',
  (len <= length arr)%nat ->
  rm_expire_loop n idx arr len data = Some (arr', len') ->
  In x (take len arr) -> In x (take len' arr').
Proof.
  intros Hx. induction n as [|n IH]; intros idx arr len arr' len' Hl H Hin; cbn [rm_expire_loop] in H.
  - injection H as <- <-. exact Hin.
  - destruct (arr !! idx) as [id|] eqn:Eid; [|injection H as <- <-; exact Hin].
    destruct (String.eqb id data) eqn:Eq.
    + destruct (Nat.ltb len (idx + 1)) eqn:El; [discriminate H|]. apply Nat.ltb_ge in El.
      apply String.eqb_eq in Eq. subst id.
      refine (IH _ _ _ _ _ _ H _).
      * rewrite !app_length, take_length, !drop_length, take_length. lia.
      * (* the live part loses only position idx *)
        assert (Ht : take (len - 1) (take idx arr ++ drop (idx + 1) (take len arr) ++ drop (len - 1) arr)
                     = take idx arr ++ drop (idx + 1) (take len arr)).
        { rewrite app_assoc. rewrite take_app_le; [|rewrite app_length, take_length, drop_length, take_length; lia].
          apply take_ge. rewrite app_length, take_length, drop_length, take_length. lia. }
        rewrite Ht. apply in_app_iff.
        apply elem_of_list_In in Hin. apply elem_of_take in Hin as (i & Hi1 & Hi2).
        destruct (decide (i < idx)%nat) as [Hlt|Hge].
        { left. apply elem_of_list_In. apply elem_of_take. exists i. split; [exact Hi1|exact Hlt]. }
        destruct (decide (i = idx)) as [->|Hne]; [congruence|].
        right. apply elem_of_list_In. apply elem_of_list_lookup. exists (i - (idx + 1))%nat.
        rewrite lookup_drop, lookup_take by lia. replace (idx + 1 + (i - (idx + 1)))%nat with i by lia. exact Hi1.
    + exact (IH _ _ _ _ _ Hl H Hin).
Qed.

(** * arithmetic of expiry heights *)
Lemma u64_idem x : u64 (u64 x) = u64 x.
Proof. apply u64_id, u64_range. Qed.
Lemma u64_add_sub c e : u64 (c + u64 (e - c)) = u64 e.
Proof. unfold u64, two64. rewrite Zplus_mod_idemp_r. f_equal. lia. Qed.

(** * the invariant *)
Definition expiry (m : Meta) : Z := u64 (m_created m + m_duration m).
Definition listed (s : State) (h : Z) (d : string) : Prop := In d (default [] (expdata s !! h)).
Definition Inv_msched (s : State) : Prop := forall d m, metas s !! d = Some m -> listed s (expiry m) d.

Definition mx (s : State) := (metas s, expdata s).
Definition Rms (s s' : State) : Prop := Inv_msched s -> Inv_msched s'.
Global Instance Rms_po : PreOrder Rms.
Proof. split; [intros s H; exact H|intros a b c H1 H2 H; auto]. Qed.

Lemma keeps_Rms {A} (m : M A) : keeps mx m -> mok Rms true m.
Proof.
  intros H s. specialize (H s). unfold mx in H.
  destruct (m s) as [a s'|e s'|e|]; auto; injection H as Hm He; intros Hi d x Hd; unfold listed; rewrite He; apply Hi; rewrite <- Hm; exact Hd.
Qed.

(* all models other than [d] are listed (in state t) as the table of [b] says, and the table is unchanged *)
Definition Oth (b : State) (d : string) (t : State) : Prop :=
  metas t = metas b /\ forall d' m', d' <> d -> metas b !! d' = Some m' -> listed t (expiry m') d'.

Lemma Oth_init b d : Inv_msched b -> Oth b d b.
Proof. intros Hi. split; [reflexivity|]. intros d' m' _ H. apply Hi, H. Qed.

(** ** the two schedule primitives *)
Lemma set_data_expire_listed data h t : forall t', set_data_expire data h t = Ok tt t' ->
  metas t' = metas t /\ listed t' h data /\ forall h' x, listed t h' x -> listed t' h' x.
Proof.
  intros t' H. unfold set_data_expire, modify in H. injection H as <-. unfold set; cbn. split; [reflexivity|].
  unfold listed; cbn. split.
  - rewrite lookup_insert. cbn. apply in_app_iff. right. left. reflexivity.
  - intros h' x Hx. destruct (decide (h' = h)) as [->|Hne].
    + rewrite lookup_insert. cbn. apply in_app_iff. left. exact Hx.
    + rewrite lookup_insert_ne by congruence. exact Hx.
Qed.

Lemma remove_data_expire_listed data h t :
  match remove_data_expire data h t with
  | Ok _ t' | Err _ t' => metas t' = metas t /\ forall h' x, x <> data -> listed t h' x -> listed t' h' x
  | _ => True end.
Proof.
  unfold remove_data_expire, bind, get. destruct (expdata t !! h) as [l|] eqn:El; [|cbn; auto].
  destruct (rm_expire_loop (length l) 0 l (length l) data) as [[arr len]|] eqn:Er; [|exact I].
  assert (Hk : forall x, x <> data -> In x l -> In x (take len arr)).
  { intros x Hx Hin. eapply (rm_loop_keeps data x Hx _ _ _ _ _ _ _ Er). rewrite take_ge by lia. exact Hin.
    Unshelve. lia. }
  destruct (take len arr) as [|y l'] eqn:Et; unfold modify, set; cbn; (split; [reflexivity|]); intros h' x Hx Hin; unfold listed in *; cbn.
  - destruct (decide (h' = h)) as [->|Hne].
    + rewrite El in Hin. cbn in Hin. destruct (Hk x Hx Hin).
    + rewrite lookup_delete_ne by congruence. exact Hin.
  - destruct (decide (h' = h)) as [->|Hne].
    + rewrite lookup_insert. cbn. rewrite El in Hin. cbn in Hin. apply (Hk x Hx Hin).
    + rewrite lookup_insert_ne by congruence. exact Hin.
Qed.

(** ** assertions carried through a handler *)
Definition Oth' (b : State) (d : string) (o : option Z) (t : State) : Prop :=
  Oth b d t /\ match o with Some h => listed t h d | None => True end.

Lemma ht_oth_keeps {A} b d o (m : M A) : keeps mx m -> ht (Oth' b d o) m (fun _ => Oth' b d o) (Oth' b d o).
Proof.
  intros H t [[Hm Ho] Hl]. specialize (H t). unfold mx in H.
  destruct (m t) as [a t'|e t'|e|]; auto; injection H as Em Ee;
    (split; [split; [congruence|intros d' m' Hd Hb; unfold listed; rewrite Ee; apply (Ho d' m' Hd Hb)]|
             destruct o; [unfold listed; rewrite Ee; exact Hl|exact I]]).
Qed.

Lemma remove_data_expire_noerr d h t e t' : remove_data_expire d h t <> Err e t'.
Proof.
  unfold remove_data_expire, bind, get. destruct (expdata t !! h) as [l|]; [|discriminate].
  destruct (rm_expire_loop _ _ _ _ _) as [[arr len]|]; [|discriminate]. destruct (take len arr); discriminate.
Qed.

Lemma ht_oth_remove b d o h E : ht (Oth' b d o) (remove_data_expire d h) (fun _ => Oth' b d None) E.
Proof.
  intros t [[Hm Ho] _]. pose proof (remove_data_expire_listed d h t) as K. pose proof (remove_data_expire_noerr d h t) as N.
  destruct (remove_data_expire d h t) as [a t'|e t'|e|]; auto; [|exfalso; eapply N; reflexivity]. destruct K as [Em Ke].
  split; [split; [congruence|intros d' m' Hd Hb; apply Ke; [congruence|apply (Ho d' m' Hd Hb)]]|exact I].
Qed.

Lemma ht_oth_set b d o h E : ht (Oth' b d o) (set_data_expire d h) (fun _ => Oth' b d (Some h)) E.
Proof.
  intros t [[Hm Ho] _]. destruct (set_data_expire d h t) as [[] t'|e t'|e|] eqn:E0; auto.
  - destruct (set_data_expire_listed d h t t' E0) as (Em & Hl & Hk).
    split; [split; [congruence|intros d' m' Hd Hb; apply Hk, (Ho d' m' Hd Hb)]|exact Hl].
  - discriminate E0.
Qed.

(* writing the model [d] back with the lifetime it is listed for re-establishes the invariant *)
Lemma inv_of_oth_insert b d h t t' m' :
  Oth' b d (Some h) t -> metas t' = <[d := m']> (metas t) -> expdata t' = expdata t -> expiry m' = h -> Inv_msched t'.
Proof.
  intros [[Hm Ho] Hl] Em Ee Hx k x Hk. unfold listed. rewrite Ee. rewrite Em in Hk.
  destruct (decide (k = d)) as [->|Hne].
  - rewrite lookup_insert in Hk. injection Hk as <-. rewrite Hx. exact Hl.
  - rewrite lookup_insert_ne in Hk by congruence. rewrite Hm in Hk. apply (Ho k x Hne Hk).
Qed.

(* ... and so does writing back a record with unchanged lifetime, when nothing else moved *)
Lemma inv_of_insert_same b d m m' t' :
  Inv_msched b -> metas b !! d = Some m -> expiry m' = expiry m ->
  metas t' = <[d := m']> (metas b) -> expdata t' = expdata b -> Inv_msched t'.
Proof.
  intros Hi Hd Hx Em Ee k x Hk. unfold listed. rewrite Ee. rewrite Em in Hk.
  destruct (decide (k = d)) as [->|Hne].
  - rewrite lookup_insert in Hk. injection Hk as <-. rewrite Hx. apply (Hi d m Hd).
  - rewrite lookup_insert_ne in Hk by congruence. apply (Hi k x Hk).
Qed.

(* removing the model [d] *)
Lemma inv_of_oth_delete b d o t t' :
  Oth' b d o t -> metas t' = delete d (metas t) -> expdata t' = expdata t -> Inv_msched t'.
Proof.
  intros [[Hm Ho] _] Em Ee k x Hk. unfold listed. rewrite Ee. rewrite Em in Hk.
  apply lookup_delete_Some in Hk as [Hne Hk]. rewrite Hm in Hk. apply (Ho k x ltac:(congruence) Hk).
Qed.

(* once [d] is gone from the table, dropping its schedule entries keeps the invariant *)
Lemma ht_inv_remove_absent d h :
  ht (fun t => Inv_msched t /\ metas t !! d = None) (remove_data_expire d h) (fun _ => Inv_msched) Inv_msched.
Proof.
  intros t [Hi Hn]. pose proof (remove_data_expire_listed d h t) as K.
  destruct (remove_data_expire d h t) as [a t'|e t'|e|]; auto; destruct K as [Em Ke];
    intros k x Hk; rewrite Em in Hk; (apply Ke; [intros ->; congruence|apply (Hi k x Hk)]).
Qed.

Lemma mok_inv {A} (m : M A) :
  (forall b, Inv_msched b -> ht (eq b) m (fun _ => Inv_msched) Inv_msched) -> mok Rms true m.
Proof.
  intros H s. destruct (m s) as [a s'|e s'|e|] eqn:E; auto; intros Hi; specialize (H s Hi s eq_refl); rewrite E in H; exact H.
Qed.

(** * functions that touch neither the metadata table nor the data-expiry schedule *)
Lemma mv_mx {A} (m : M A) : keeps model_view m -> keeps mx m.
Proof. intros H s. specialize (H s). unfold model_view, mx in *. destruct (m s); auto; congruence. Qed.

Create HintDb mxdb.
Ltac kx_leaf := first [ solve [eauto 3 with mxdb nocore] | solve [apply mv_mx; eauto 3 with mv nocore]
                      | solve [apply keeps_modify; intros; reflexivity] ].
Ltac kx1 :=
  cbv beta;
  lazymatch goal with
  | |- keeps _ (let _ := _ in _) => cbv zeta
  | |- keeps _ (bind _ _) => apply keeps_bind; [|intros ?]
  | |- keeps _ (ret _) => apply keeps_ret
  | |- keeps _ (fail _) => apply keeps_fail
  | |- keeps _ (panic _) => apply keeps_panic
  | |- keeps _ get => apply keeps_get
  | |- keeps _ (try_ _) => apply keeps_try
  | |- keeps _ (forM _ _) => apply keeps_forM; intros ?
  | |- keeps _ (coin_sub _ _) => apply keeps_coin_sub
  | |- keeps _ (if ?c then _ else _) => destruct c
  | |- keeps _ (match ?c with _ => _ end) => destruct c
  | |- _ => kx_leaf
  end.
Ltac kx := repeat kx1.

Lemma mx_worker_release cx o sh : keeps mx (worker_release cx o sh).
Proof. unfold worker_release. kx. Qed.
Global Hint Resolve mx_worker_release : mxdb.
Lemma mx_worker_append cx o sh : keeps mx (worker_append cx o sh).
Proof. unfold worker_append. kx. Qed.
Global Hint Resolve mx_worker_append : mxdb.
Lemma mx_market_deposit o : keeps mx (market_deposit o).
Proof. unfold market_deposit. kx. Qed.
Global Hint Resolve mx_market_deposit : mxdb.
Lemma mx_market_withdraw cx oid o : keeps mx (market_withdraw cx oid o).
Proof.
  unfold market_withdraw. destruct (_ =? _); [kx|]. cbv zeta.
  match goal with |- keeps _ (_ _ ?b) => generalize b end.
  generalize (o_shards o). induction l as [|id rest IH]; intros refund; [kx|].
  kx; apply IH.
Qed.
Global Hint Resolve mx_market_withdraw : mxdb.
Lemma mx_send_to_did_balances md d n : keeps mx (send_to_did_balances md d n).
Proof. unfold send_to_did_balances. kx. Qed.
Global Hint Resolve mx_send_to_did_balances : mxdb.
Lemma mx_order_terminate oid r : keeps mx (order_terminate oid r).
Proof. unfold order_terminate. kx. Qed.
Global Hint Resolve mx_order_terminate : mxdb.
Lemma mx_model_terminate_order cx oid o : keeps mx (model_terminate_order cx oid o).
Proof. unfold model_terminate_order. kx. Qed.
Global Hint Resolve mx_model_terminate_order : mxdb.
Lemma mx_remove_shards ids : keeps mx (remove_shards ids).
Proof. unfold remove_shards. kx. Qed.
Global Hint Resolve mx_remove_shards : mxdb.
Lemma mx_force_push_loop cx lc : forall ro acc, keeps mx (force_push_loop cx ro lc acc).
Proof. induction ro as [|oid rest IH]; intros acc; simpl; kx. Qed.
Global Hint Resolve mx_force_push_loop : mxdb.
Lemma mx_refund_order oid : keeps mx (refund_order oid).
Proof. unfold refund_order. kx. Qed.
Global Hint Resolve mx_refund_order : mxdb.
Lemma mx_complete_migration cx oid o sid sh : keeps mx (complete_migration cx oid o sid sh).
Proof. unfold complete_migration. kx. Qed.
Global Hint Resolve mx_complete_migration : mxdb.
Lemma mx_renew_order o : keeps mx (renew_order o).
Proof. unfold renew_order. kx. Qed.
Global Hint Resolve mx_renew_order : mxdb.

(** * the functions that write the table or the schedule *)
Ltac start_inv b Hi := apply mok_inv; intros b Hi.
Ltac to_oth b d Hi := apply (ht_pre _ _ _ (Oth' b d None)); [|intros ? <-; split; [apply Oth_init, Hi|exact I]].

Lemma extend_meta_duration_s data e : u64 e = e -> mok Rms true (extend_meta_duration data e).
Proof.
  intros He. start_inv b Hi. unfold extend_meta_duration.
  apply ht_bind_get; intros s0 <-.
  destruct (metas b !! data) as [m|] eqn:Em; [|apply ht_ret; intros t <-; exact Hi].
  cbv zeta. destruct (_ <? _); [|apply ht_ret; intros t <-; exact Hi].
  to_oth b data Hi.
  eapply ht_bind; [apply ht_oth_remove|intros []].
  eapply ht_bind; [apply ht_oth_set|intros []].
  apply ht_modify. intros t Ht. eapply inv_of_oth_insert; [exact Ht|unfold set; cbn; reflexivity|reflexivity|].
  unfold expiry; cbn. rewrite u64_add_sub. exact He.
Qed.

(* block heights stay far below 2^63 (the same domain bound as counts_small) *)
Definition height_ok (cx : Ctx) : Prop := 0 <= cx_height cx < two63.

Lemma shard_end_all_u64 sh : u64 (shard_end_all sh) = shard_end_all sh.
Proof.
  unfold shard_end_all. generalize (u64 (sh_created sh + sh_duration sh)) (u64_idem (sh_created sh + sh_duration sh)).
  induction (sh_renew sh) as [|ri l IH]; intros acc Ha; cbn [fold_left]; [exact Ha|]. apply IH, u64_idem.
Qed.

Lemma reset_expired_height_u64 s ords : u64 (reset_expired_height s ords) = reset_expired_height s ords.
Proof.
  unfold reset_expired_height.
  assert (Hg : forall acc, u64 acc = acc ->
    u64 (fold_left (fun mx oid => match orders s !! oid with
       | Some o => fold_left (fun mx sid => match shards s !! sid with
                     | Some sh => if sh_status sh =? ShardCompleted then Z.max mx (shard_end_all sh) else mx
                     | None => mx end) (o_shards o) mx
       | None => mx end) ords acc) =
    fold_left (fun mx oid => match orders s !! oid with
       | Some o => fold_left (fun mx sid => match shards s !! sid with
                     | Some sh => if sh_status sh =? ShardCompleted then Z.max mx (shard_end_all sh) else mx
                     | None => mx end) (o_shards o) mx
       | None => mx end) ords acc).
  { induction ords as [|oid r IH]; intros acc Ha; cbn [fold_left]; [exact Ha|]. apply IH.
    destruct (orders s !! oid) as [o|]; [|exact Ha].
    revert acc Ha. induction (o_shards o) as [|sid l IHl]; intros acc Ha; cbn [fold_left]; [exact Ha|]. apply IHl.
    destruct (shards s !! sid) as [sh|]; [|exact Ha]. destruct (_ =? _); [|exact Ha].
    destruct (Z.max_spec acc (shard_end_all sh)) as [[_ ->]|[_ ->]]; [apply shard_end_all_u64|exact Ha]. }
  apply Hg. reflexivity.
Qed.

(* ResetMetaDuration returns the record with the lifetime it re-scheduled (the caller stores it) *)
Lemma reset_meta_duration_s cx d m b o E : height_ok cx ->
  ht (Oth' b d o) (reset_meta_duration cx d m)
     (fun m' t => m_created m' = m_created m /\ m_owner m' = m_owner m /\
                  ((m' = m /\ Oth' b d o t) \/ Oth' b d (Some (expiry m')) t)) E.
Proof.
  intros Hh. unfold reset_meta_duration. apply ht_bind_get; intros s0 Hs0. cbv zeta.
  destruct (_ =? _) eqn:Ed.
  { apply ht_ret. intros t <-. split; [reflexivity|]. split; [reflexivity|]. left. split; [reflexivity|exact Hs0]. }
  apply (ht_pre _ _ _ (Oth' b d o)); [|intros t <-; exact Hs0].
  eapply ht_bind; [apply ht_oth_remove|intros []].
  eapply ht_bind; [apply ht_oth_set|intros []].
  apply ht_ret. intros t Ht. split; [reflexivity|]. split; [reflexivity|]. right.
  unfold expiry; cbn. rewrite u64_add_sub.
  match goal with |- Oth' _ _ (Some (u64 ?e)) _ => assert (He : u64 e = e) end.
  { destruct (_ <=? _); [|apply reset_expired_height_u64].
    destruct Hh as [H1 H2]. rewrite (u64_id (cx_height cx)) by (unfold two63, two64 in *; lia).
    apply u64_id. unfold two63, two64 in *. lia. }
  rewrite He. exact Ht.
Qed.

Lemma delete_meta_s data : mok Rms true (delete_meta data).
Proof.
  start_inv b Hi. unfold delete_meta. apply ht_bind_get; intros s0 <-.
  destruct (metas b !! data) as [m|] eqn:Em; [|apply ht_fail; intros t <-; exact Hi].
  eapply ht_bind with (Qm := fun _ t => Inv_msched t /\ metas t !! data = None).
  - apply ht_modify. intros t <-. unfold set; cbn. split; [|apply lookup_delete].
    eapply (inv_of_oth_delete b data None b); [split; [apply Oth_init, Hi|exact I]|reflexivity|reflexivity].
  - intros []. apply ht_inv_remove_absent.
Qed.

Lemma update_permission_s owner data ro rw : mok Rms true (update_permission owner data ro rw).
Proof.
  start_inv b Hi. unfold update_permission. apply ht_bind_get; intros s0 <-.
  destruct (metas b !! data) as [m|] eqn:Em; [|apply ht_fail; intros t <-; exact Hi].
  destruct (negb _); [apply ht_fail; intros t <-; exact Hi|].
  apply ht_modify. intros t <-. eapply (inv_of_insert_same b data m); [exact Hi|exact Em| |unfold set; cbn; reflexivity|reflexivity].
  reflexivity.
Qed.

Lemma rollback_meta_s cx data : height_ok cx -> mok Rms true (rollback_meta cx data).
Proof.
  intros Hh. start_inv b Hi. unfold rollback_meta. apply ht_bind_get; intros s0 <-.
  destruct (metas b !! data) as [m|] eqn:Em; [|apply ht_ret; intros t <-; exact Hi].
  destruct (last_opt (m_commits m)) as [lastv|].
  - destruct (last_opt (m_orders m)) as [lo|]; [|apply ht_panic]. cbv zeta.
    apply (ht_pre _ _ _ (Oth' b data (Some (expiry m)))); [|intros ? <-; split; [apply Oth_init, Hi|apply (Hi data m Em)]].
    eapply ht_bind; [apply (reset_meta_duration_s cx data _ b _ _ Hh)|]. intros m2.
    apply ht_modify. intros t (Hc & _ & [[-> Ht]|Ht]).
    + (* lifetime unchanged: the record goes back with the lifetime it is listed for *)
      eapply inv_of_oth_insert; [exact Ht|unfold set; cbn; reflexivity|reflexivity|reflexivity].
    + eapply inv_of_oth_insert; [exact Ht|unfold set; cbn; reflexivity|reflexivity|reflexivity].
  - eapply ht_bind with (Qm := fun _ t => Inv_msched t /\ metas t !! data = None).
    + apply ht_modify. intros t <-. unfold set; cbn. split; [|apply lookup_delete].
      eapply (inv_of_oth_delete b data None b); [split; [apply Oth_init, Hi|exact I]|reflexivity|reflexivity].
    + intros []. apply ht_inv_remove_absent.
Qed.

Lemma ht_mx_pre {A} b (m : M A) : Inv_msched b -> keeps mx m ->
  ht (eq b) m (fun _ t => mx t = mx b) Inv_msched.
Proof.
  intros Hi H t <-. specialize (H b). destruct (m b) as [a t'|e t'|e|]; auto.
  intros d x Hd. unfold mx in H. injection H as Hm He. unfold listed. rewrite He. apply Hi. rewrite <- Hm. exact Hd.
Qed.
Lemma inv_of_mx b t : Inv_msched b -> mx t = mx b -> Inv_msched t.
Proof. intros Hi H d x Hd. unfold mx in H. injection H as Hm He. unfold listed. rewrite He. apply Hi. rewrite <- Hm. exact Hd. Qed.
Lemma oth_of_mx b d t : Inv_msched b -> mx t = mx b -> forall m, metas b !! d = Some m -> Oth' b d (Some (expiry m)) t.
Proof.
  intros Hi H m Hm. unfold mx in H. injection H as Em Ee. split.
  - split; [exact Em|]. intros d' m' _ Hd. unfold listed. rewrite Ee. apply (Hi d' m' Hd).
  - unfold listed. rewrite Ee. apply (Hi d m Hm).
Qed.

Lemma update_meta_s cx oid o : height_ok cx -> mok Rms true (update_meta cx oid o).
Proof.
  intros Hh. start_inv b Hi. unfold update_meta. apply ht_bind_get; intros s0 <-.
  destruct (negb _); [apply ht_fail; intros t <-; exact Hi|].
  destruct (metas b !! o_data o) as [m|] eqn:Em; [|apply ht_fail; intros t <-; exact Hi].
  destruct (negb _); [apply ht_fail; intros t <-; exact Hi|].
  eapply ht_bind with (Qm := fun m' t => Oth' b (o_data o) (Some (expiry m')) t).
  - destruct (o_op o =? 1).
    { apply ht_ret. intros t <-. apply (oth_of_mx b (o_data o) b Hi eq_refl m Em). }
    destruct (o_op o =? 2).
    { destruct (last_opt (m_commits m)) as [lastv|]; [|apply ht_panic].
      eapply ht_bind; [apply (ht_mx_pre b _ Hi); kx|]. intros [rev_left sids].
      eapply ht_bind with (Qm := fun _ t => mx t = mx b).
      { intros t Ht. pose proof (mx_remove_shards (dedupZ sids) t) as K. destruct (remove_shards _ t); auto; try congruence.
        apply (inv_of_mx b); [exact Hi|congruence]. }
      intros []. cbv zeta.
      apply (ht_pre _ _ _ (Oth' b (o_data o) (Some (expiry m)))); [|intros t Ht; apply (oth_of_mx b _ t Hi Ht m Em)].
      eapply ht_conseq; [apply (reset_meta_duration_s cx (o_data o) _ b (Some (expiry m)) Inv_msched Hh)| | |]; cbv beta;
        [auto|intros m' t (_ & _ & [[-> Ht]|Ht]); exact Ht|auto]. }
    destruct (o_op o =? 3).
    { apply ht_ret. intros t <-. apply (oth_of_mx b (o_data o) b Hi eq_refl m Em). }
    apply ht_fail. intros t <-. exact Hi.
  - intros m'. apply ht_modify. intros t Ht.
    eapply inv_of_oth_insert; [exact Ht|unfold set; cbn; reflexivity|reflexivity|reflexivity].
Qed.

Lemma update_meta_status_commit_s cx oid o : mok Rms true (update_meta_status_commit cx oid o).
Proof.
  start_inv b Hi. unfold update_meta_status_commit. apply ht_bind_get; intros s0 <-.
  destruct (metas b !! o_data o) as [m|] eqn:Em; [|apply ht_fail; intros t <-; exact Hi].
  destruct (negb _); [apply ht_fail; intros t <-; exact Hi|]. cbv zeta.
  destruct (_ <? _); [apply ht_fail; intros t <-; exact Hi|].
  eapply ht_bind with (Qm := fun m' t => Oth' b (o_data o) (Some (expiry m')) t).
  - destruct (_ <? _).
    + apply (ht_pre _ _ _ (Oth' b (o_data o) None)); [|intros ? <-; split; [apply Oth_init, Hi|exact I]].
      eapply ht_bind; [apply ht_oth_remove|intros []].
      eapply ht_bind; [apply ht_oth_set|intros []].
      apply ht_ret. intros t Ht. unfold expiry; cbn. rewrite u64_add_sub, u64_idem. exact Ht.
    + apply ht_ret. intros t <-. apply (oth_of_mx b (o_data o) b Hi eq_refl m Em).
  - intros m'. apply ht_modify. intros t Ht.
    eapply inv_of_oth_insert; [exact Ht|unfold set; cbn; reflexivity|reflexivity|reflexivity].
Qed.

Lemma new_meta_s cx o data nm : expiry nm = u64 (o_created o + o_duration o) -> mok Rms true (new_meta cx o data nm).
Proof.
  intros Hx. start_inv b Hi. unfold new_meta. apply ht_bind_get; intros s0 <-.
  destruct (negb _); [apply ht_fail; intros t <-; exact Hi|].
  destruct (bool_decide (is_Some (metas b !! data))) eqn:Ex; [apply ht_fail; intros t <-; exact Hi|].
  destruct (bool_decide (is_Some (models b !! meta_key nm))); [apply ht_fail; intros t <-; exact Hi|].
  eapply ht_bind with (Qm := fun _ t => metas t = <[data := nm]> (metas b) /\ expdata t = expdata b).
  - apply ht_modify. intros t <-. unfold set; cbn. split; reflexivity.
  - intros []. intros t [Hm He]. destruct (set_data_expire data _ t) as [[] t'|e t'|e|] eqn:E; auto; [|discriminate E].
    destruct (set_data_expire_listed _ _ _ _ E) as (Em & Hl & Hk).
    intros k x Hkx. rewrite Em, Hm in Hkx. destruct (decide (k = data)) as [->|Hne].
    + rewrite lookup_insert in Hkx. injection Hkx as <-. rewrite Hx. exact Hl.
    + rewrite lookup_insert_ne in Hkx by congruence. apply Hk. unfold listed. rewrite He. apply (Hi k x Hkx).
Qed.

(** ** the model end blocker *)
(* while the list scheduled at height [h] is being worked off: every remaining model is listed where its
   lifetime ends, and those whose lifetime ends at [h] are still ahead in the list *)
Definition J (h : Z) (rem : list string) (t : State) : Prop :=
  forall d m, metas t !! d = Some m ->
    (expiry m <> h -> listed t (expiry m) d) /\ (expiry m = h -> In d rem).

Lemma delete_meta_J h d0 rem : ht (J h (d0 :: rem)) (delete_meta d0) (fun _ => J h rem) (J h rem).
Proof.
  unfold delete_meta. apply ht_bind_get; intros s0 Hs0.
  destruct (metas s0 !! d0) as [m0|] eqn:Em.
  - eapply ht_bind with (Qm := fun _ t => metas t = delete d0 (metas s0) /\ expdata t = expdata s0).
    + apply ht_modify. intros t <-. unfold set; cbn. split; reflexivity.
    + intros []. intros t [Hm He]. pose proof (remove_data_expire_listed d0 (u64 (m_created m0 + m_duration m0)) t) as K.
      pose proof (remove_data_expire_noerr d0 (u64 (m_created m0 + m_duration m0)) t) as N.
      destruct (remove_data_expire _ _ t) as [a t'|e t'|e|]; auto; [|exfalso; eapply N; reflexivity].
      destruct K as [Em' Ke]. intros d m Hd. rewrite Em', Hm in Hd. apply lookup_delete_Some in Hd as [Hne Hd].
      destruct (Hs0 d m Hd) as [H1 H2]. split.
      * intros Hx. apply Ke; [congruence|]. unfold listed. rewrite He. apply H1, Hx.
      * intros Hx. destruct (H2 Hx) as [->|Hin]; [congruence|exact Hin].
  - apply ht_fail. intros t <-. intros d m Hd. destruct (Hs0 d m Hd) as [H1 H2]. split; [exact H1|].
    intros Hx. destruct (H2 Hx) as [->|Hin]; [congruence|exact Hin].
Qed.

Lemma end_block_model_s cx : mok Rms true (end_block_model cx).
Proof.
  start_inv b Hi. unfold end_block_model. apply ht_bind_get; intros s0 <-.
  destruct (expdata b !! cx_height cx) as [l|] eqn:El; [|apply ht_ret; intros t <-; exact Hi].
  eapply ht_bind with (Qm := fun _ t => J (cx_height cx) [] t).
  - apply (ht_pre _ _ _ (J (cx_height cx) l)).
    + clear El. induction l as [|d0 rem IH]; cbn [forM]; [apply ht_ret; auto|].
      apply (ht_bind _ _ _ _ _ (fun _ t => J (cx_height cx) rem t)); [|intros []; exact IH].
      apply (ht_bind _ _ _ _ _ (fun _ t => J (cx_height cx) rem t)); [apply ht_try, delete_meta_J|].
      intros r. apply ht_ret. auto.
    + intros t <-. intros d m Hd. split; [intros _; apply (Hi d m Hd)|].
      intros Hx. pose proof (Hi d m Hd) as Hl. unfold listed in Hl. rewrite Hx, El in Hl. exact Hl.
  - intros []. apply ht_modify. intros t Ht d m Hd. unfold set in Hd; cbn in Hd. destruct (Ht d m Hd) as [H1 H2].
    destruct (decide (expiry m = cx_height cx)) as [Hx|Hx]; [destruct (H2 Hx)|].
    unfold listed, set; cbn. rewrite lookup_delete_ne by congruence. apply H1, Hx.
Qed.

(** * the handlers *)
(* a property of the value a computation returns *)
Definition vok {A} (V : A -> Prop) (m : M A) : Prop := forall s, match m s with Ok a _ => V a | _ => True end.
Lemma mok_bind_v {A B} (R : State -> State -> Prop) `{!PreOrder R} (V : A -> Prop) (m : M A) (k : A -> M B) :
  mok R true m -> vok V m -> (forall a, V a -> mok R true (k a)) -> mok R true (bind m k).
Proof.
  intros Hm Hv Hk s. unfold bind. specialize (Hm s). specialize (Hv s). destruct (m s) as [a s1|e s1|e|]; auto.
  specialize (Hk a Hv s1). destruct (k a s1); auto; etransitivity; eauto.
Qed.

Lemma vok_bind {A B} (V : B -> Prop) (m : M A) (k : A -> M B) : (forall a, vok V (k a)) -> vok V (bind m k).
Proof. intros H s. unfold bind. destruct (m s) as [a s1|e s1|e|]; auto. apply H. Qed.
Lemma vok_ret {A} (V : A -> Prop) a : V a -> vok V (ret a).
Proof. intros H s. exact H. Qed.
Lemma vok_fail {A} (V : A -> Prop) e : vok V (@fail A e).
Proof. intros s. exact I. Qed.
Lemma vok_panic {A} (V : A -> Prop) e : vok V (@panic A e).
Proof. intros s. exact I. Qed.

Create HintDb msdb discriminated.
Global Hint Resolve delete_meta_s update_permission_s update_meta_status_commit_s end_block_model_s : msdb.
Global Hint Extern 1 (mok Rms true (extend_meta_duration _ (u64 _))) => apply extend_meta_duration_s, u64_idem : msdb.

Section Handlers.
  Context (cx : Ctx) (Hh : height_ok cx).

  Ltac sm_leaf := first [ solve [auto with msdb nocore] | solve [apply rollback_meta_s; assumption] | solve [apply update_meta_s; assumption]
                        | solve [apply keeps_Rms; first [kx_leaf | kx]] ].
  Ltac sm1 :=
    cbv beta;
    lazymatch goal with
    | |- mok _ _ (let _ := _ in _) => cbv zeta
    | |- mok _ _ (bind _ _) => apply mok_bind; try exact _; [ | intros ?]
    | |- mok _ _ (ret _) => apply mok_ret; try exact _
    | |- mok _ _ (fail _) => apply mok_fail; try exact _
    | |- mok _ _ (panic _) => apply mok_panic
    | |- mok _ _ get => apply mok_get; try exact _
    | |- mok _ _ (gets _) => apply mok_gets; try exact _
    | |- mok _ _ (try_ _) => apply mok_try
    | |- mok _ _ (forM _ _) => apply mok_forM; try exact _; intros ?
    | |- mok _ _ (if ?c then _ else _) => destruct c
    | |- mok _ _ (match ?x with _ => _ end) => first [is_var x; destruct x | destruct x eqn:?]
    | |- mok _ _ _ => sm_leaf
    end.
  Ltac sm := repeat sm1.
  (* the same, stopping in front of a loop whose result the continuation depends on *)
  Ltac smv := repeat (lazymatch goal with
                      | |- mok _ _ (bind ((fix go l acc {struct l} := _) _ _) _) => fail
                      | |- mok _ _ (bind (new_order _ _ _) _) => fail
                      | |- _ => sm1 end).

  Lemma cancel_order_s oid : mok Rms true (cancel_order cx oid).
  Proof. unfold cancel_order. sm. Qed.
  Hint Resolve cancel_order_s : msdb.

  Lemma sao_complete_s c p oid cid sz ok : mok Rms true (sao_complete cx c p oid cid sz ok).
  Proof. unfold sao_complete. sm. Qed.

  Lemma sao_cancel_s c p oid : mok Rms true (sao_cancel cx c p oid).
  Proof. unfold sao_cancel. sm. Qed.

  Lemma sao_terminate_s c p owner data sg : mok Rms true (sao_terminate cx c p owner data sg).
  Proof. unfold sao_terminate. sm. all: try (mok_loop; [sm | sm; apply IH]). Qed.

  Lemma sao_update_permission_s c p owner data ro rw sg v : mok Rms true (sao_update_permission cx c p owner data ro rw sg v).
  Proof. unfold sao_update_permission. sm. Qed.

  Lemma handle_timeout_order_s oid : mok Rms true (handle_timeout_order cx oid).
  Proof. unfold handle_timeout_order. sm. all: try (mok_loop; [sm | sm; apply IH]). Qed.
  Hint Resolve handle_timeout_order_s : msdb.

  Lemma handle_expired_shard_s sid : mok Rms true (handle_expired_shard cx sid).
  Proof. unfold handle_expired_shard. sm. Qed.
  Hint Resolve handle_expired_shard_s : msdb.

  Lemma end_block_sao_s : mok Rms true (end_block_sao cx).
  Proof. unfold end_block_sao. sm. Qed.

  (* Renew: the end height handed to ExtendMetaDuration is a uint64 *)
  Lemma renew_one_s m sd data : mok Rms true (renew_one cx m sd data).
  Proof.
    unfold renew_one. smv.
    eapply (mok_bind_v Rms (fun e => u64 e = e)).
    - mok_loop; [sm | sm; apply IH].
    - match goal with |- vok _ (?F ?l0 0) => assert (Hg : forall l' acc, u64 acc = acc -> vok (fun e => u64 e = e) (F l' acc)) end.
      { induction l' as [|[id sh] r IH]; intros acc Ha; fix_unfold; [apply vok_ret, Ha|].
        intros s. unfold bind at 1.
        match goal with |- match (match ?c with _ => _ end) with _ => _ end => destruct c as [a1 s1|e s1|e|] eqn:Ec end; auto.
        assert (Ha1 : u64 a1 = a1).
        { revert Ec. destruct (sh_status sh =? ShardMigrating); [intros E; injection E as <- _; exact Ha|].
          cbv zeta. destruct (_ <? 0); [discriminate|].
          unfold bind at 1. match goal with |- match ?c with _ => _ end = _ -> _ => destruct c as [sh1 s2|?|?|] end; try discriminate.
          unfold bind, modify, ret. intros E. injection E as <- _.
          destruct (_ <? _); [apply shard_end_all_u64|exact Ha]. }
        apply (IH a1 Ha1 s1). }
      apply Hg. reflexivity.
    - intros e He. sm. apply extend_meta_duration_s, He.
  Qed.

  Lemma sao_renew_s m : mok Rms true (sao_renew cx m).
  Proof. unfold sao_renew. sm. apply renew_one_s. Qed.

  Lemma end_block_s evs : mok Rms true (end_block cx evs).
  Proof.
    unfold end_block. apply mok_bind; try exact _; [apply keeps_Rms, mv_mx, mv_staking_tx|intros _].
    apply mok_bind; try exact _; [apply end_block_sao_s|intros _].
    apply mok_bind; try exact _; [|intros _; apply end_block_model_s].
    apply keeps_Rms. unfold end_block_node, do_penalty. kx.
  Qed.

  (* Store: the new order carries the height and the duration the new model is created with *)
  Lemma gen_shards_duration oid sps : forall o s o' s', gen_shards oid o sps s = Ok o' s' -> o_duration o' = o_duration o.
  Proof.
    induction sps as [|sp r IH]; intros o s o' s' H; simpl in H.
    - inversion H. reflexivity.
    - apply bind_ok in H. destruct H as (id & s1 & _ & H). apply IH in H. exact H.
  Qed.
  Lemma new_order_v o sps : vok (fun r => o_created (snd r) = cx_height cx /\ o_duration (snd r) = o_duration o) (new_order cx o sps).
  Proof.
    intros s. destruct (new_order cx o sps s) as [[id o2] s'|e s'|e|] eqn:H; auto. unfold new_order in H.
    apply bind_ok in H. destruct H as (id0 & s1 & _ & H).
    apply bind_ok in H. destruct H as (o1 & s2 & Hg & H).
    apply bind_ok in H. destruct H as ([] & s3 & _ & H). inversion H; subst. unfold set; cbn. split; [reflexivity|].
    unfold generate_shards in Hg. destruct sps as [|sp r].
    - inversion Hg. reflexivity.
    - apply bind_ok in Hg. destruct Hg as (o' & s4 & Hg & Hr). inversion Hr; subst. unfold set; cbn.
      eapply gen_shards_duration. exact Hg.
  Qed.

  Lemma sao_store_s m : mok Rms true (sao_store cx m).
  Proof.
    unfold sao_store. smv.
    eapply (mok_bind_v Rms); [apply keeps_Rms; kx|apply new_order_v|]. intros [oid o2] [Hc Hd]; cbn [snd] in Hc, Hd.
    sm. apply new_meta_s. unfold expiry; cbn. rewrite Hc, Hd. reflexivity.
  Qed.
End Handlers.

(** * every operation, every run *)
Lemma Rms_with_pg s p : Rms s (with_pg s p).
Proof. intros Hi d m Hd. apply (Hi d m Hd). Qed.

Theorem step_meta_scheduled : forall cx s op, height_ok cx -> Inv_msched s -> Inv_msched (fst (step cx s op)).
Proof.
  intros cx s op Hh. revert s op. 
  assert (H : forall s op, True -> Rms s (fst (step cx s op))).
  { apply (step_rel Rms (fun _ => True) cx).
    - intros s s' _. apply Rms_with_pg.
    - intros evs _ s p. apply Rms_with_pg.
    - intros _. apply keeps_Rms, mv_mx, mv_begin_block.
    - intros evs _. first [apply end_block_s, Hh | apply end_block_s].
    - intros op m _ Htx. destruct op; cbn in Htx; try discriminate; injection Htx as <-.
      + apply keeps_Rms, mv_mx, mv_lift_did.
      + apply keeps_Rms, mv_mx, mv_node_create.
      + apply keeps_Rms, mv_mx, mv_node_reset.
      + apply keeps_Rms, mv_mx, mv_add_vstorage.
      + apply keeps_Rms, mv_mx, mv_remove_vstorage.
      + apply keeps_Rms, mv_mx. apply keeps_bind; [apply mv_claim_reward|intros; apply keeps_ret].
      + first [apply sao_store_s, Hh | apply sao_store_s].
      + apply keeps_Rms, mv_mx, mv_sao_ready.
      + first [apply sao_complete_s, Hh | apply sao_complete_s].
      + first [apply sao_cancel_s, Hh | apply sao_cancel_s].
      + first [apply sao_renew_s, Hh | apply sao_renew_s].
      + first [apply sao_terminate_s, Hh | apply sao_terminate_s].
      + apply keeps_Rms, mv_mx, mv_sao_migrate.
      + apply sao_update_permission_s.
      + apply keeps_Rms, mv_mx, mv_report_faults.
      + apply keeps_Rms, mv_mx, mv_recover_faults.
      + apply keeps_Rms, mv_mx, mv_send_strict.
      + apply keeps_Rms, mv_mx, mv_staking_tx. }
  intros s op. apply (H s op I).
Qed.
Print Assumptions step_meta_scheduled.

(* THE HISTORY THEOREM: in every state reachable by ABCI calls at heights below 2^63, every data model is
   listed for removal at exactly the height its lifetime ends (created + duration) *)
Theorem run_meta_scheduled : forall tr s,
  Forall (fun co : Ctx * Op => height_ok co.1) tr -> Inv_msched s -> Inv_msched (run tr s).
Proof.
  induction tr as [|[cx op] tr IH]; intros s Hf Hi; [exact Hi|].
  apply Forall_cons in Hf as [Hh Hf]. change (run ((cx, op) :: tr) s) with (run tr (fst (step cx s op))).
  apply IH; [exact Hf|]. apply step_meta_scheduled; [exact Hh|exact Hi].
Qed.
Print Assumptions run_meta_scheduled.

(* consequence: the model end blocker at the height a model's lifetime ends finds it in its list *)
Corollary expiring_model_is_listed : forall tr s cx d m,
  Forall (fun co : Ctx * Op => height_ok co.1) tr -> Inv_msched s ->
  metas (run tr s) !! d = Some m -> expiry m = cx_height cx ->
  exists l, expdata (run tr s) !! cx_height cx = Some l /\ In d l.
Proof.
  intros tr s cx d m Hf Hi Hd Hx. pose proof (run_meta_scheduled tr s Hf Hi d m Hd) as Hl. unfold listed in Hl. rewrite Hx in Hl.
  destruct (expdata (run tr s) !! cx_height cx) as [l|]; [exists l; split; [reflexivity|exact Hl]|destruct Hl].
Qed.

(** ** non-vacuity *)
From SaoVerif Require Import Model.Inv Model.Monitors Proofs.RefInt.
Lemma in_list_In' x l : in_list x l = true -> In x l.
Proof. unfold in_list. rewrite existsb_exists. intros (y & Hy & E). apply String.eqb_eq in E. subst. exact Hy. Qed.
Lemma mon_meta_scheduled_sound s : mon_meta_scheduled s = true -> Inv_msched s.
Proof. intros H d m Hd. pose proof (all_s_spec _ _ H d m Hd) as Hb. cbn beta in Hb. apply in_list_In' in Hb. exact Hb. Qed.

Example meta_scheduled_nonvacuous :
  Inv_msched W.s2 /\ (exists m, metas W.s2 !! W.data = Some m /\ expiry m = 3606 /\ expdata W.s2 !! 3606 = Some [W.data]) /\
  Forall (fun co : Ctx * Op => height_ok co.1) History.hist_run /\
  match metas (run History.hist_run W.s2) !! W.data with Some m => expiry m | None => 0 end = 3610.
Proof.
  split; [apply mon_meta_scheduled_sound; vm_compute; reflexivity|].
  split; [eexists; split; [vm_compute; reflexivity|split; vm_compute; reflexivity]|].
  split; [unfold History.hist_run; repeat (apply List.Forall_cons; [split; vm_compute; congruence|]); apply List.Forall_nil|].
  vm_compute. reflexivity.
Qed.
