(* C14 (network totals) and C08 (reward-per-share accumulator): the pool counters equal the
   sums over providers, BeginBlock mints what it distributes, claims take whole coins
   out of the claimer's credit, nothing else moves the total credited. *)
From SaoVerif Require Import Base.Prelude Base.Ints Base.Dec Model.Did Model.Types Model.Monad Model.Bank Model.Select
     Model.Node Model.Storage Model.Sao Model.Hooks Model.App Model.Spec.
From RecordUpdate Require Import RecordUpdate.
Import RecordSetNotations.

(** * 0. arithmetic *)
Lemma quot_mul_le a b : 0 <= a -> 0 < b -> Z.quot a b * b <= a.
Proof.
  intros Ha Hb. rewrite Z.quot_div_nonneg by lia. rewrite Z.mul_comm. apply Z.mul_div_le. lia.
Qed.
Lemma quot_nonneg a b : 0 <= a -> 0 < b -> 0 <= Z.quot a b.
Proof. intros Ha Hb. apply Z.quot_pos; lia. Qed.
Lemma shiftr_le x n : 0 <= x -> 0 <= n -> Z.shiftr x n <= x.
Proof.
  intros Hx Hn. rewrite Z.shiftr_div_pow2 by lia.
  assert (Hp : 0 < 2 ^ n) by (apply Z.pow_pos_nonneg; lia).
  apply Z.div_le_upper_bound; [lia|]. nia.
Qed.

(** * 1. sums over maps *)
Section sum_map.
  Context {K : Type} `{Countable K} {A : Type}.
  Implicit Types (f g h : A -> Z) (m : gmap K A).

  Lemma sum_map_empty f : sum_map f (∅ : gmap K A) = 0.
  Proof. unfold sum_map. apply map_fold_empty. Qed.

  Lemma sum_map_insert f m k v : m !! k = None -> sum_map f (<[k:=v]> m) = f v + sum_map f m.
  Proof.
    intros Hk. unfold sum_map.
    apply (map_fold_insert_L (fun (_ : K) (a : A) (acc : Z) => f a + acc) 0 k v m); auto.
    intros; lia.
  Qed.

  Lemma sum_map_delete f m k x : m !! k = Some x -> sum_map f m = f x + sum_map f (delete k m).
  Proof.
    intros Hk. rewrite <- (insert_delete m k x Hk) at 1.
    apply sum_map_insert. apply lookup_delete.
  Qed.

  Lemma sum_map_insert_Some f m k v x :
    m !! k = Some x -> sum_map f (<[k:=v]> m) = sum_map f m - f x + f v.
  Proof.
    intros Hk. rewrite <- insert_delete_insert.
    rewrite sum_map_insert by apply lookup_delete.
    rewrite (sum_map_delete f m k x Hk). lia.
  Qed.

  (* both cases at once *)
  Lemma sum_map_insert_gen f m k v :
    sum_map f (<[k:=v]> m) = sum_map f m - from_option f 0 (m !! k) + f v.
  Proof.
    destruct (m !! k) as [x|] eqn:Hk; simpl.
    - apply sum_map_insert_Some; exact Hk.
    - rewrite sum_map_insert by exact Hk. lia.
  Qed.

  Lemma sum_map_ext f g m : (forall k x, m !! k = Some x -> f x = g x) -> sum_map f m = sum_map g m.
  Proof.
    induction m as [|k x m Hk IH] using map_ind; intros Hfg.
    - rewrite !sum_map_empty. reflexivity.
    - rewrite !sum_map_insert by exact Hk.
      rewrite (Hfg k x) by apply lookup_insert.
      rewrite IH; [reflexivity|].
      intros k' x' Hk'. apply (Hfg k'). rewrite lookup_insert_ne; [exact Hk'|].
      intros ->. congruence.
  Qed.

  Lemma sum_map_ext_all f g m : (forall x, f x = g x) -> sum_map f m = sum_map g m.
  Proof. intros Hfg. apply sum_map_ext. intros; apply Hfg. Qed.

  Lemma sum_map_linear a g h m :
    sum_map (fun p => a * g p + h p) m = a * sum_map g m + sum_map h m.
  Proof.
    induction m as [|k x m Hk IH] using map_ind.
    - rewrite !sum_map_empty. lia.
    - rewrite !sum_map_insert by exact Hk. rewrite IH. lia.
  Qed.

  Lemma sum_map_nonneg f m : (forall k x, m !! k = Some x -> 0 <= f x) -> 0 <= sum_map f m.
  Proof.
    induction m as [|k x m Hk IH] using map_ind; intros Hf.
    - rewrite sum_map_empty. lia.
    - rewrite sum_map_insert by exact Hk.
      assert (0 <= f x) by (apply (Hf k); apply lookup_insert).
      assert (0 <= sum_map f m).
      { apply IH. intros k' x' Hk'. apply (Hf k'). rewrite lookup_insert_ne; [exact Hk'|].
        intros ->. congruence. }
      lia.
  Qed.
End sum_map.

(** * 2. frame reasoning over the outcome monad *)
(* [presAt R m s]: every state [m] can leave behind when started in [s] (normal return or
   error return: both keep their writes somewhere in the application) is [R]-related to [s] *)
Definition presAt {A} (R : State -> State -> Prop) (m : M A) (s : State) : Prop :=
  match m s with Ok _ s' | Err _ s' => R s s' | _ => True end.

(* the part of the state the accumulator statements talk about *)
Definition same3 (s s' : State) : Prop :=
  pledges s' = pledges s /\ pool s' = pool s /\ supply s' = supply s.

Class Frame (R : State -> State -> Prop) : Prop := {
  R_trans : forall s1 s2 s3, R s1 s2 -> R s2 s3 -> R s1 s3;
  R_same : forall s s', same3 s s' -> R s s' }.

Global Instance Frame_same3 : Frame same3.
Proof.
  split.
  - intros s1 s2 s3 (A1 & A2 & A3) (B1 & B2 & B3). unfold same3. repeat split; congruence.
  - auto.
Qed.

Section frame.
  Context {R : State -> State -> Prop} `{HF : Frame R}.

  Lemma R_refl s : R s s.
  Proof. apply R_same. repeat split. Qed.

  Lemma R_same' s s' : pledges s' = pledges s -> pool s' = pool s -> supply s' = supply s -> R s s'.
  Proof. intros. apply R_same. repeat split; assumption. Qed.

  Lemma presAt_ret {A} (a : A) s : presAt R (ret a) s.
  Proof. apply R_refl. Qed.
  Lemma presAt_fail {A} e s : presAt R (@fail A e) s.
  Proof. apply R_refl. Qed.
  Lemma presAt_panic {A} e s : presAt R (@panic A e) s.
  Proof. exact I. Qed.
  Lemma presAt_get s : presAt R get s.
  Proof. apply R_refl. Qed.
  Lemma presAt_bind_get {A} (k : State -> M A) s : presAt R (k s) s -> presAt R (bind get k) s.
  Proof. intros Hk. exact Hk. Qed.
  Lemma presAt_bind {A B} (m : M A) (k : A -> M B) s :
    presAt R m s -> (forall a s', presAt R (k a) s') -> presAt R (bind m k) s.
  Proof.
    unfold presAt, bind. intros Hm Hk. destruct (m s) as [a s1|e s1|e|]; auto.
    specialize (Hk a s1). destruct (k a s1) as [b s2|e s2|e|]; auto; eapply R_trans; eauto.
  Qed.
  (* the first part leaves pledges, pool and supply alone: the rest may rely on that *)
  Lemma presAt_bind_keep {A B} (m : M A) (k : A -> M B) s :
    presAt same3 m s -> (forall a s', same3 s s' -> presAt R (k a) s') -> presAt R (bind m k) s.
  Proof.
    unfold presAt, bind. intros Hm Hk. destruct (m s) as [a s1|e s1|e|]; auto.
    - specialize (Hk a s1 Hm). destruct (k a s1) as [b s2|e s2|e|]; auto;
        (eapply R_trans; [apply R_same; exact Hm|exact Hk]).
    - apply R_same; exact Hm.
  Qed.
  Lemma presAt_modify f s : R s (f s) -> presAt R (modify f) s.
  Proof. intros Hf. exact Hf. Qed.
  Lemma presAt_try {A} (m : M A) s : presAt R m s -> presAt R (try_ m) s.
  Proof. unfold presAt, try_. destruct (m s); auto. Qed.
  Lemma presAt_forM {A} (l : list A) (f : A -> M unit) :
    (forall x s, presAt R (f x) s) -> forall s, presAt R (forM l f) s.
  Proof.
    intros Hf. induction l as [|x l IH]; intros s; simpl.
    - apply presAt_ret.
    - apply presAt_bind; [apply Hf|]. intros _ s'. apply IH.
  Qed.
  Lemma presAt_weaken {A} (m : M A) s : presAt same3 m s -> presAt R m s.
  Proof. unfold presAt. destruct (m s); auto; apply R_same. Qed.
End frame.

Ltac pmod :=
  apply presAt_modify; apply R_same'; reflexivity.

Create HintDb presdb.

Ltac pstep :=
  cbv beta;
  match goal with
  | |- presAt _ (ret _) _ => apply presAt_ret
  | |- presAt _ (fail _) _ => apply presAt_fail
  | |- presAt _ (panic _) _ => exact I
  | |- presAt _ (fun _ => Hang) _ => exact I
  | |- presAt _ (bind get _) _ => apply presAt_bind_get
  | |- presAt _ (bind _ _) _ => apply presAt_bind; [|intros ? ?]
  | |- presAt _ (try_ _) _ => apply presAt_try
  | |- presAt _ (forM _ _) _ => apply presAt_forM; intros ? ?
  | |- presAt _ (modify _) _ => pmod
  | |- presAt _ (let _ := _ in _) _ => cbv zeta
  | |- presAt _ (let '(_, _) := ?x in _) _ => destruct x
  | |- presAt _ (if ?b then _ else _) _ => destruct b eqn:?
  | |- presAt _ (match ?x with _ => _ end) _ => destruct x eqn:?
  | |- presAt _ _ _ => solve [auto 2 with presdb]
  end.
Ltac psolve := repeat pstep.

(** ** handlers that never touch pledges, pool or supply (for any frame) *)
Section leaves.
  Context {R : State -> State -> Prop} `{HF : Frame R}.

  Lemma p_send_strict f t a s : presAt R (send_strict f t a) s.
  Proof.
    unfold presAt, send_strict. destruct (a <=? 0); [apply R_refl|].
    destruct (_ <? _); [apply R_refl|]. apply R_same'; reflexivity.
  Qed.
  Lemma p_send_lenient f t a s : presAt R (send_lenient f t a) s.
  Proof. unfold presAt, send_lenient. destruct (a =? 0); [apply R_refl|]. apply p_send_strict. Qed.
  Lemma p_coin_sub a b s : presAt R (coin_sub a b) s.
  Proof. unfold coin_sub. psolve. Qed.
  Hint Resolve p_send_strict p_send_lenient p_coin_sub : presdb.

  Lemma p_do_penalty s : presAt R do_penalty s.
  Proof. unfold do_penalty. psolve. Qed.
  Hint Resolve p_do_penalty : presdb.
  Lemma p_end_block_node cx s : presAt R (end_block_node cx) s.
  Proof. unfold end_block_node. psolve. Qed.
  Lemma p_node_create cx c s : presAt R (node_create cx c) s.
  Proof. unfold node_create. psolve. Qed.
  Lemma p_node_reset cx m s : presAt R (node_reset cx m) s.
  Proof. unfold node_reset. psolve. Qed.
  Lemma p_repay_debt sp rw s : presAt R (repay_debt sp rw) s.
  Proof. unfold repay_debt. psolve. Qed.
  Lemma p_market_claim cx sp s : presAt R (market_claim cx sp) s.
  Proof. unfold market_claim. psolve. Qed.
  Lemma p_increase_reputation n v s : presAt R (increase_reputation n v) s.
  Proof. unfold increase_reputation. psolve. Qed.
  Lemma p_random_sp_m cx c ig sz s : presAt R (random_sp_m cx c ig sz) s.
  Proof. unfold random_sp_m. psolve. Qed.
  Hint Resolve p_end_block_node p_node_create p_node_reset p_repay_debt p_market_claim p_increase_reputation
       p_random_sp_m : presdb.
End leaves.
Global Hint Resolve Frame_same3 : presdb.
Global Hint Resolve p_send_strict p_send_lenient p_coin_sub p_do_penalty p_end_block_node p_node_create p_node_reset
  p_repay_debt p_market_claim p_increase_reputation p_random_sp_m : presdb.

Section leaves2.
  Context {R : State -> State -> Prop} `{HF : Frame R}.

  Lemma p_send_to_did_balances m d a s : presAt R (send_to_did_balances m d a) s.
  Proof. unfold send_to_did_balances. psolve. Qed.
  Lemma p_worker_release cx o sh s : presAt R (worker_release cx o sh) s.
  Proof. unfold worker_release. psolve. Qed.
  Lemma p_worker_append cx o sh s : presAt R (worker_append cx o sh) s.
  Proof. unfold worker_append. psolve. Qed.
  Lemma p_market_deposit o s : presAt R (market_deposit o) s.
  Proof. unfold market_deposit. psolve. Qed.
  Hint Resolve p_send_to_did_balances p_worker_release p_worker_append p_market_deposit : presdb.

  Lemma p_market_withdraw cx oid o s : presAt R (market_withdraw cx oid o) s.
  Proof.
    unfold market_withdraw. destruct (o_amount o =? 0); [psolve|].
    cbv zeta. revert s.
    generalize (dec_of_int (o_amount o) -
      dec_mul_int (dec_mul_int (dec_mul_int (o_price o) (i64 (o_size o))) (i64 (o_replica o))) (i64 (o_duration o))).
    generalize (o_shards o) as ids.
    induction ids as [|id rest IH]; intros refund s.
    - psolve.
    - psolve; apply IH.
  Qed.
  Lemma p_append_order o s : presAt R (append_order o) s.
  Proof. unfold append_order. psolve. Qed.
  Lemma p_append_shard sh s : presAt R (append_shard sh) s.
  Proof. unfold append_shard. psolve. Qed.
  Hint Resolve p_market_withdraw p_append_order p_append_shard : presdb.
  Lemma p_new_shard_task oid o pr s : presAt R (new_shard_task oid o pr) s.
  Proof. unfold new_shard_task. psolve. Qed.
  Hint Resolve p_new_shard_task : presdb.
  Lemma p_gen_shards oid sps : forall o s, presAt R (gen_shards oid o sps) s.
  Proof. induction sps as [|sp rest IH]; intros o s; simpl; psolve. Qed.
  Hint Resolve p_gen_shards : presdb.
  Lemma p_generate_shards oid o sps s : presAt R (generate_shards oid o sps) s.
  Proof. unfold generate_shards. psolve. Qed.
  Hint Resolve p_generate_shards : presdb.
  Lemma p_new_order cx o sps s : presAt R (new_order cx o sps) s.
  Proof. unfold new_order. psolve. Qed.
  Lemma p_renew_order o s : presAt R (renew_order o) s.
  Proof. unfold renew_order. psolve. Qed.
  Lemma p_order_terminate oid r s : presAt R (order_terminate oid r) s.
  Proof. unfold order_terminate. psolve. Qed.
  Lemma p_refund_order oid s : presAt R (refund_order oid) s.
  Proof. unfold refund_order. psolve. Qed.
  Lemma p_set_data_expire d a s : presAt R (set_data_expire d a) s.
  Proof. unfold set_data_expire. psolve. Qed.
  Lemma p_remove_data_expire d a s : presAt R (remove_data_expire d a) s.
  Proof. unfold remove_data_expire. psolve. Qed.
  Hint Resolve p_new_order p_renew_order p_order_terminate p_refund_order p_set_data_expire p_remove_data_expire : presdb.
  Lemma p_new_meta cx o d m s : presAt R (new_meta cx o d m) s.
  Proof. unfold new_meta. psolve. Qed.
  Lemma p_reset_meta_duration cx d m s : presAt R (reset_meta_duration cx d m) s.
  Proof. unfold reset_meta_duration. psolve. Qed.
  Lemma p_extend_meta_duration d e s : presAt R (extend_meta_duration d e) s.
  Proof. unfold extend_meta_duration. psolve. Qed.
  Lemma p_delete_meta d s : presAt R (delete_meta d) s.
  Proof. unfold delete_meta. psolve. Qed.
  Lemma p_remove_shards ids s : presAt R (remove_shards ids) s.
  Proof. unfold remove_shards. psolve. Qed.
  Hint Resolve p_new_meta p_reset_meta_duration p_extend_meta_duration p_delete_meta p_remove_shards : presdb.
  Lemma p_update_meta_status_commit cx oid o s : presAt R (update_meta_status_commit cx oid o) s.
  Proof. unfold update_meta_status_commit. psolve. Qed.
  Lemma p_rollback_meta cx d s : presAt R (rollback_meta cx d) s.
  Proof. unfold rollback_meta. psolve. Qed.
  Hint Resolve p_update_meta_status_commit p_rollback_meta : presdb.
  Lemma p_cancel_order cx oid s : presAt R (cancel_order cx oid) s.
  Proof. unfold cancel_order. psolve. Qed.
  Lemma p_update_permission o d ro rw s : presAt R (update_permission o d ro rw) s.
  Proof. unfold update_permission. psolve. Qed.
  Lemma p_end_block_model cx s : presAt R (end_block_model cx) s.
  Proof. unfold end_block_model. psolve. Qed.
  Hint Resolve p_cancel_order p_update_permission p_end_block_model : presdb.
End leaves2.
Global Hint Resolve p_send_to_did_balances p_worker_release p_worker_append p_market_deposit
  p_market_withdraw p_append_order p_append_shard p_new_shard_task p_gen_shards p_generate_shards
  p_new_order p_renew_order p_order_terminate p_refund_order p_set_data_expire p_remove_data_expire
  p_new_meta p_reset_meta_duration p_extend_meta_duration p_delete_meta p_remove_shards
  p_update_meta_status_commit p_rollback_meta p_cancel_order p_update_permission p_end_block_model : presdb.

Section leaves3.
  Context {R : State -> State -> Prop} `{HF : Frame R}.

  Lemma p_set_timeout_block o h s : presAt R (set_timeout_block o h) s.
  Proof. unfold set_timeout_block. psolve. Qed.
  Lemma p_set_expired_shard_block o h s : presAt R (set_expired_shard_block o h) s.
  Proof. unfold set_expired_shard_block. psolve. Qed.
  Lemma p_get_sps cx o d s : presAt R (get_sps cx o d) s.
  Proof. unfold get_sps. psolve. Qed.
  Hint Resolve p_set_timeout_block p_set_expired_shard_block p_get_sps : presdb.
  Lemma p_sao_store cx m s : presAt R (sao_store cx m) s.
  Proof. unfold sao_store. psolve. Qed.
  Lemma p_sao_ready cx c p o s : presAt R (sao_ready cx c p o) s.
  Proof. unfold sao_ready. psolve. Qed.
  Lemma p_migrate_one cx pr d s : presAt R (migrate_one cx pr d) s.
  Proof.
    unfold migrate_one. apply presAt_bind_get. destruct (metas s !! d) as [meta|]; [|psolve].
    revert s. generalize (@nil string) as commits. generalize (rev (m_orders meta)) as l.
    induction l as [|oid rest IH]; intros commits s.
    - psolve.
    - psolve; apply IH.
  Qed.
  Hint Resolve p_migrate_one : presdb.
  Lemma p_sao_migrate cx c p d s : presAt R (sao_migrate cx c p d) s.
  Proof. unfold sao_migrate. psolve. Qed.
  Lemma p_sao_update_permission cx c p ow d ro rw sg v s : presAt R (sao_update_permission cx c p ow d ro rw sg v) s.
  Proof. unfold sao_update_permission. psolve. Qed.
  Lemma p_set_fault k f s : presAt R (set_fault k f) s.
  Proof. unfold set_fault. psolve. Qed.
  Hint Resolve p_set_fault : presdb.
  Lemma p_sao_report_faults cx c p fl s : presAt R (sao_report_faults cx c p fl) s.
  Proof. unfold sao_report_faults. psolve. Qed.
  Lemma p_sao_recover_faults cx c p fl s : presAt R (sao_recover_faults cx c p fl) s.
  Proof. unfold sao_recover_faults. psolve. Qed.
  Lemma p_handle_timeout_order cx oid s : presAt R (handle_timeout_order cx oid) s.
  Proof.
    unfold handle_timeout_order. psolve.
    all: match goal with |- presAt _ (?f (combine ?a ?b) ?o) ?s =>
           cut (forall l' o' s', presAt R (f l' o') s'); [intros Hc; apply Hc|] end.
    all: intros l'; induction l' as [|[newsp [sid sh]] r IH]; intros oacc s1; [psolve|psolve; apply IH].
  Qed.
  Lemma p_set_role c r v s : presAt R (set_role c r v) s.
  Proof. unfold set_role. apply presAt_modify. destruct (nodes s !! c); apply R_same'; reflexivity. Qed.
  Hint Resolve p_set_role : presdb.
  Lemma p_verify_super v a b s : presAt R (verify_super v a b) s.
  Proof.
    unfold verify_super. psolve.
    all: apply presAt_modify; destruct (pg _ =? 0); apply R_same'; reflexivity.
  Qed.
  Hint Resolve p_verify_super : presdb.
  Lemma p_st_event e s : presAt R (st_event e) s.
  Proof. unfold st_event. destruct e; psolve. Qed.
  Hint Resolve p_st_event : presdb.
  Lemma p_staking_tx evs s : presAt R (staking_tx evs) s.
  Proof. unfold staking_tx. psolve. Qed.
  Lemma p_lift_did cx o s : presAt R (lift_did cx o) s.
  Proof. unfold presAt, lift_did. destruct (did_handle _ _ _); [apply R_refl|apply R_same'; reflexivity]. Qed.
End leaves3.
Global Hint Resolve p_set_timeout_block p_set_expired_shard_block p_get_sps p_sao_store p_sao_ready p_migrate_one
  p_sao_migrate p_sao_update_permission p_set_fault p_sao_report_faults p_sao_recover_faults
  p_handle_timeout_order p_set_role p_verify_super p_st_event p_staking_tx p_lift_did : presdb.

(** ** handlers that reach pledges only through ShardPledge, ShardRelease and the renewal top-up *)
Class FramePl (R : State -> State -> Prop) `{Frame R} : Prop := {
  R_shard_pledge : forall id sh price s, presAt R (shard_pledge id sh price) s;
  R_shard_release : forall sp sh s, presAt R (shard_release sp sh) s;
  R_bump : forall s k p x, pledges s !! k = Some p -> R s (s <| pledges ::= <[k := p <| pl_shpledged := x |>]> |>) }.
Ltac pstep2 := first [apply R_shard_release | apply R_shard_pledge | pstep].
Ltac psolve2 := repeat pstep2.

Section composite.
  Context {R : State -> State -> Prop} `{HP : FramePl R}.

  Lemma p_model_terminate_order cx oid o s : presAt R (model_terminate_order cx oid o) s.
  Proof. unfold model_terminate_order. psolve2. Qed.
  Hint Resolve p_model_terminate_order : presdb.
  Lemma p_force_push_loop cx lc l : forall acc s, presAt R (force_push_loop cx l lc acc) s.
  Proof. induction l as [|oid rest IH]; intros acc s; simpl; psolve2. Qed.
  Hint Resolve p_force_push_loop : presdb.
  Lemma p_update_meta cx oid o s : presAt R (update_meta cx oid o) s.
  Proof. unfold update_meta. psolve2. Qed.
  Hint Resolve p_update_meta : presdb.
  Lemma p_complete_migration cx oid o sid sh s : presAt R (complete_migration cx oid o sid sh) s.
  Proof. unfold complete_migration. psolve2. Qed.
  Hint Resolve p_complete_migration : presdb.
  Lemma p_sao_complete cx c p oid cid sz ok s : presAt R (sao_complete cx c p oid cid sz ok) s.
  Proof. unfold sao_complete. psolve2. Qed.
  Lemma p_sao_cancel cx c p oid s : presAt R (sao_cancel cx c p oid) s.
  Proof. unfold sao_cancel. psolve2. Qed.
  Lemma p_renew_one cx m sd d s : presAt R (renew_one cx m sd d) s.
  Proof.
    unfold renew_one. psolve2.
    match goal with |- presAt _ (?f ?l 0) ?s =>
      cut (forall l' a' s', presAt R (f l' a') s'); [intros Hc; apply Hc|] end.
    intros l'; induction l' as [|[id sh] r IH]; intros a' s1; [psolve2|].
    psolve2; try apply IH.
    all: apply presAt_modify; apply R_bump; assumption.
  Qed.
  Hint Resolve p_renew_one : presdb.
  Lemma p_sao_renew cx m s : presAt R (sao_renew cx m) s.
  Proof. unfold sao_renew. psolve2. Qed.
  Lemma p_sao_terminate cx c p ow d sg s : presAt R (sao_terminate cx c p ow d sg) s.
  Proof.
    unfold sao_terminate. psolve2.
    match goal with |- presAt _ (?f ?l []) ?s =>
      cut (forall l' a' s', presAt R (f l' a') s'); [intros Hc; apply Hc|] end.
    intros l'; induction l' as [|oid r IH]; intros a' s1; [psolve2|psolve2; apply IH].
  Qed.
  Lemma p_handle_expired_shard cx sid s : presAt R (handle_expired_shard cx sid) s.
  Proof. unfold handle_expired_shard. psolve2. Qed.
  Hint Resolve p_handle_expired_shard : presdb.
  Lemma p_end_block_sao cx s : presAt R (end_block_sao cx) s.
  Proof. unfold end_block_sao. psolve2. Qed.
  Hint Resolve p_end_block_sao : presdb.
  Lemma p_end_block cx evs s : presAt R (end_block cx evs) s.
  Proof. unfold end_block. psolve2. Qed.
End composite.

(** * 3. the accumulator relation *)
(* a provider without capacity has nothing pending (its debt matches the accumulator).
   [settle] skips such a provider and the callers then overwrite its debt, so this is what
   makes the overwrite harmless. Every handler establishes it for the pledge it writes. *)
Definition Settled (s : State) : Prop :=
  forall po k p, pool s = Some po -> pledges s !! k = Some p -> pl_total p <= 0 ->
                 pending (po_accreward po) p = 0.

Definition Rc (s s' : State) : Prop :=
  supply s' = supply s /\ (Inv_pool s -> Inv_pool s') /\ (Settled s -> Settled s' /\ phi s' = phi s).

Lemma Inv_pool_same s s' : pledges s' = pledges s -> pool s' = pool s -> Inv_pool s -> Inv_pool s'.
Proof. unfold Inv_pool. intros -> ->. auto. Qed.
Lemma Settled_same s s' : pledges s' = pledges s -> pool s' = pool s -> Settled s -> Settled s'.
Proof. unfold Settled. intros -> ->. auto. Qed.
Lemma phi_same s s' : pledges s' = pledges s -> pool s' = pool s -> phi s' = phi s.
Proof. unfold phi. intros -> ->. reflexivity. Qed.

Global Instance Frame_Rc : Frame Rc.
Proof.
  split.
  - intros s1 s2 s3 (A1 & A2 & A3) (B1 & B2 & B3). split; [congruence|]. split; [auto|].
    intros HS. destruct (A3 HS) as [HS2 E2]. destruct (B3 HS2) as [HS3 E3]. split; [exact HS3|congruence].
  - intros s s' (E1 & E2 & E3). split; [exact E3|]. split; [apply Inv_pool_same; assumption|].
    intros HS. split; [eapply Settled_same; eassumption|apply phi_same; assumption].
Qed.

Lemma Rc_pool_none s s' : pool s = None -> pool s' = None -> supply s' = supply s -> Rc s s'.
Proof.
  intros H1 H2 H3. split; [exact H3|]. split.
  - intros _ po Hpo. congruence.
  - intros _. split; [intros po k p Hpo; congruence|]. unfold phi. rewrite H1, H2. reflexivity.
Qed.

(* one pledge is rewritten, the pool moves by the same amounts, the accumulator stays *)
Lemma Rc_update s s' po po' k old p' :
  pool s = Some po -> pool s' = Some po' -> supply s' = supply s ->
  pledges s !! k = old -> pledges s' = <[k:=p']> (pledges s) ->
  po_accreward po' = po_accreward po ->
  po_storage po' = po_storage po + (pl_total p' - from_option pl_total 0 old) ->
  po_pledged po' = po_pledged po + (pl_spledged p' - from_option pl_spledged 0 old) ->
  ((forall p, old = Some p -> pl_total p <= 0 -> pending (po_accreward po) p = 0) ->
     claimable (po_accreward po) p' = from_option (claimable (po_accreward po)) 0 old /\
     (pl_total p' <= 0 -> pending (po_accreward po) p' = 0)) ->
  Rc s s'.
Proof.
  intros Hpo Hpo' Hsup Hold Hpl Hacc Hst Hpg Hcl. split; [exact Hsup|]. split.
  - intros HI po'' Hpo''. rewrite Hpo' in Hpo''. injection Hpo'' as <-.
    destruct (HI po Hpo) as [H1 H2]. rewrite Hpl, !sum_map_insert_gen, Hold. split; lia.
  - intros HS.
    assert (Hk : forall p, old = Some p -> pl_total p <= 0 -> pending (po_accreward po) p = 0).
    { intros p Hp. subst old. apply (HS po k p Hpo Hp). }
    destruct (Hcl Hk) as [Hc1 Hc2]. split.
    + intros po'' k' q Hpo'' Hq Hle. rewrite Hpo' in Hpo''. injection Hpo'' as <-.
      rewrite Hacc. rewrite Hpl in Hq. destruct (decide (k' = k)) as [->|Hne].
      * rewrite lookup_insert in Hq. injection Hq as <-. auto.
      * rewrite lookup_insert_ne in Hq by congruence. apply (HS po k' q Hpo Hq Hle).
    + unfold phi. rewrite Hpo, Hpo', Hacc, Hpl, sum_map_insert_gen, Hold. lia.
Qed.

Lemma settle_total acc p : pl_total (settle acc p) = pl_total p.
Proof. unfold settle. destruct (0 <? pl_total p); reflexivity. Qed.
Lemma settle_spledged acc p : pl_spledged (settle acc p) = pl_spledged p.
Proof. unfold settle. destruct (0 <? pl_total p); reflexivity. Qed.
Lemma settle_reward acc p :
  (pl_total p <= 0 -> pending acc p = 0) -> pl_reward (settle acc p) = claimable acc p.
Proof.
  unfold settle, claimable. intros Hp. destruct (0 <? pl_total p) eqn:E.
  - reflexivity.
  - rewrite Hp by lia. lia.
Qed.

Lemma same3_trans s1 s2 s3 : same3 s1 s2 -> same3 s2 s3 -> same3 s1 s3.
Proof. apply R_trans. Qed.

Lemma Rc_add_vstorage c sz s : presAt Rc (add_vstorage c sz) s.
Proof.
  unfold add_vstorage. apply presAt_bind_get.
  destruct (nodes s !! c) as [n|] eqn:Hn; [|psolve].
  destruct (pool s) as [po|] eqn:Hpo; [|psolve].
  cbv zeta.
  match goal with |- presAt _ (if ?b then _ else _) _ => destruct b; [exact I|] end.
  apply presAt_bind_keep; [apply p_send_strict|]. intros _ s1 Hs1.
  apply presAt_bind_keep; [psolve|]. intros _ s2 Hs2.
  pose proof (same3_trans _ _ _ Hs1 Hs2) as (Hpl & Hpool & Hsup).
  apply presAt_modify.
  eapply (Rc_update s2 _ po _ c (pledges s !! c)); try reflexivity.
  - congruence.
  - congruence.
  - destruct (pledges s !! c) as [p|]; cbn; rewrite ?settle_total, ?settle_spledged; cbn; lia.
  - destruct (pledges s !! c) as [p|]; cbn; rewrite ?settle_total, ?settle_spledged; cbn; lia.
  - intros Hk. split.
    + destruct (pledges s !! c) as [p|]; cbn.
      * unfold claimable at 1, pending. cbn. rewrite settle_total.
        rewrite settle_reward by (intros; apply (Hk p); [reflexivity|cbn in *; lia]).
        unfold claimable, pending, dec_mul_int. cbn. lia.
      * unfold claimable, pending, settle, dec_mul_int. cbn. lia.
    + intros _. unfold pending, dec_mul_int. cbn. lia.
Qed.

Lemma presAt_bind_ret {A B} R (a : A) (k : A -> M B) s : presAt R (k a) s -> presAt R (bind (ret a) k) s.
Proof. intros Hk. exact Hk. Qed.

(* a computation that keeps pledges, pool and supply and whose value satisfies [Q] *)
Definition keepQ {A} (Q : A -> Prop) (m : M A) (s : State) : Prop :=
  match m s with Ok a s' => same3 s s' /\ Q a | Err _ s' => same3 s s' | _ => True end.
Lemma keepQ_bind {A B} (Q : B -> Prop) (m : M A) (k : A -> M B) s :
  presAt same3 m s -> (forall a s', keepQ Q (k a) s') -> keepQ Q (bind m k) s.
Proof.
  unfold keepQ, presAt, bind. intros Hm Hk. destruct (m s) as [a s1|e s1|e|]; auto.
  specialize (Hk a s1). destruct (k a s1) as [b s2|e s2|e|]; auto.
  - destruct Hk as [Hk HQ]. split; [eapply same3_trans; eauto|exact HQ].
  - eapply same3_trans; eauto.
Qed.
Lemma keepQ_ret {A} (Q : A -> Prop) a s : Q a -> keepQ Q (ret a) s.
Proof. intros HQ. split; [apply R_refl|exact HQ]. Qed.
Lemma presAt_bind_keepQ {A B} R `{Frame R} (Q : A -> Prop) (m : M A) (k : A -> M B) s :
  keepQ Q m s -> (forall a s', same3 s s' -> Q a -> presAt R (k a) s') -> presAt R (bind m k) s.
Proof.
  unfold keepQ, presAt, bind. intros Hm Hk. destruct (m s) as [a s1|e s1|e|]; auto.
  - destruct Hm as [Hm HQ]. specialize (Hk a s1 Hm HQ). destruct (k a s1) as [b s2|e s2|e|]; auto;
      (eapply R_trans; [apply R_same; exact Hm|exact Hk]).
  - apply R_same; exact Hm.
Qed.

Lemma Rc_remove_vstorage c sz s : presAt Rc (remove_vstorage c sz) s.
Proof.
  unfold remove_vstorage. apply presAt_bind_get.
  destruct (nodes s !! c) as [n|] eqn:Hn; [|psolve].
  destruct (pool s) as [po|] eqn:Hpo; [|psolve].
  destruct (pledges s !! c) as [p|] eqn:Hp; [|psolve].
  cbv zeta.
  repeat match goal with |- presAt _ (if ?b then _ else _) _ => destruct b; [psolve|] end.
  unfold coin_sub.
  match goal with |- presAt _ (bind (if ?b then _ else _) _) _ => destruct b; [exact I|] end.
  apply presAt_bind_ret.
  apply presAt_bind_keep; [apply p_send_strict|]. intros _ s1 Hs1.
  apply presAt_bind_keep; [psolve|]. intros _ s2 Hs2.
  pose proof (same3_trans _ _ _ Hs1 Hs2) as (Hpl & Hpool & Hsup).
  apply presAt_modify.
  eapply (Rc_update s2 _ po _ c (Some p)); try reflexivity.
  - congruence.
  - congruence.
  - cbn. rewrite ?settle_total, ?settle_spledged. cbn. lia.
  - cbn. rewrite ?settle_total, ?settle_spledged. cbn. lia.
  - intros Hk. split.
    + cbn. unfold claimable at 1, pending. cbn. rewrite settle_total.
      rewrite settle_reward by (intros; cbn; apply (Hk p); [reflexivity|cbn in *; lia]).
      unfold claimable, pending, dec_mul_int. cbn. lia.
    + intros _. unfold pending, dec_mul_int. cbn. lia.
Qed.

Lemma Rc_shard_pledge id sh price s : presAt Rc (shard_pledge id sh price) s.
Proof.
  unfold shard_pledge. apply presAt_bind_get.
  destruct (pledges s !! sh_sp sh) as [p|] eqn:Hp; [|psolve].
  destruct (pool s) as [po|] eqn:Hpo; [|psolve].
  cbv zeta.
  match goal with |- presAt _ (if ?b then _ else _) _ => destruct b; [psolve|] end.
  match goal with |- presAt _ (if ?b then _ else _) _ => destruct b; [exact I|] end.
  apply presAt_bind_keep; [psolve|]. intros _ s1 (Hpl & Hpool & Hsup).
  apply presAt_bind; [|intros; apply presAt_ret].
  apply presAt_modify.
  eapply (Rc_update s1 _ po po (sh_sp sh) (Some p)); try reflexivity.
  - congruence.
  - change (pool s1 = Some po). congruence.
  - rewrite Hpl. exact Hp.
  - cbn. rewrite ?settle_total. lia.
  - cbn. rewrite ?settle_spledged. lia.
  - intros Hk. split.
    + cbn. unfold claimable at 1, pending. cbn. rewrite settle_total.
      rewrite settle_reward by (intros; apply (Hk p); [reflexivity|lia]).
      unfold claimable, pending, dec_mul_int. lia.
    + intros _. unfold pending, dec_mul_int. cbn. lia.
Qed.

Lemma Rc_shard_release sp sh s : presAt Rc (shard_release sp sh) s.
Proof.
  unfold shard_release. apply presAt_bind_get.
  destruct (pledges s !! sp) as [p|] eqn:Hp; [|psolve].
  destruct (pool s) as [po|] eqn:Hpo; [|psolve].
  cbv zeta.
  set (acc := po_accreward po). set (p1 := settle acc p).
  apply (presAt_bind_keepQ Rc (fun p2 => pl_total p2 = pl_total p1 /\ pl_spledged p2 = pl_spledged p1 /\
                                         pl_reward p2 = pl_reward p1)).
  { destruct sh as [sh|]; [|apply keepQ_ret; auto].
    apply keepQ_bind; [apply p_repay_debt|]. intros rw s1.
    apply keepQ_bind; [psolve|]. intros _ s2.
    unfold coin_sub. destruct (_ <? 0); [exact I|].
    split; [apply R_refl|]. cbn. auto. }
  intros p2 s1 (Hpl & Hpool & Hsup) (Q1 & Q2 & Q3).
  apply presAt_modify.
  eapply (Rc_update s1 _ po po sp (Some p)); try reflexivity.
  - congruence.
  - change (pool s1 = Some po). congruence.
  - rewrite Hpl. exact Hp.
  - cbn. rewrite Q1. subst p1. rewrite settle_total. lia.
  - cbn. rewrite Q2. subst p1. rewrite settle_spledged. lia.
  - intros Hk. split.
    + cbn. unfold claimable at 1, pending. cbn. rewrite Q3. subst p1.
      rewrite settle_reward by (intros; apply (Hk p); [reflexivity|lia]).
      unfold claimable, pending, dec_mul_int. lia.
    + intros _. unfold pending, dec_mul_int. cbn. lia.
Qed.

Lemma Rc_bump s k p x :
  pledges s !! k = Some p -> Rc s (s <| pledges ::= <[k := p <| pl_shpledged := x |>]> |>).
Proof.
  intros Hp. destruct (pool s) as [po|] eqn:Hpo.
  - eapply (Rc_update s _ po po k (Some p)); try reflexivity; try assumption.
    + cbn. lia.
    + cbn. lia.
    + intros Hk. split; [reflexivity|]. intros Hle. apply (Hk p); [reflexivity|exact Hle].
  - apply Rc_pool_none; [exact Hpo|exact Hpo|reflexivity].
Qed.

Global Instance FramePl_Rc : FramePl Rc.
Proof. split; [apply Rc_shard_pledge|apply Rc_shard_release|apply Rc_bump]. Qed.

(** * 4. whole-application steps *)
Lemma deliver_R R `{Frame R} {A} (m : M A) s : presAt R m s -> R s (deliver m s).1.1.
Proof.
  unfold presAt, deliver. destruct (m s); simpl; intros Hm; auto; try apply R_refl.
  apply R_same'; reflexivity.
Qed.
Lemma block_phase_R R `{Frame R} {A} (m : M A) s : presAt R m s -> R s (block_phase m s).1.1.
Proof. unfold presAt, block_phase. destruct (m s); simpl; intros Hm; auto; apply R_refl. Qed.

Lemma step_tx cx s op m : tx_of cx op = Some m -> fst (step cx s op) = (deliver m s).1.1.
Proof.
  destruct op; simpl; intros E; try discriminate; injection E as <-;
    match goal with |- context [deliver ?m s] => destruct (deliver m s) as [[? ?] ?] end; reflexivity.
Qed.
Lemma step_end_block cx s evs : fst (step cx s (OEndBlock evs)) = (block_phase (end_block cx evs) s).1.1.
Proof. simpl. destruct (block_phase _ s) as [[? ?] ?]. reflexivity. Qed.
Lemma step_begin_block cx s : fst (step cx s OBeginBlock) = (block_phase (begin_block cx) s).1.1.
Proof. simpl. destruct (block_phase _ s) as [[? ?] ?]. reflexivity. Qed.

Lemma step_other_Rc cx s op :
  op <> OBeginBlock -> (forall c, op <> OClaimReward c) -> Rc s (fst (step cx s op)).
Proof.
  intros Hb Hc.
  destruct (tx_of cx op) as [m|] eqn:Htx.
  - rewrite (step_tx cx s op m Htx). apply (deliver_R Rc).
    destruct op; simpl in Htx; try discriminate; injection Htx as <-.
    + apply p_lift_did.
    + apply p_node_create.
    + apply p_node_reset.
    + apply Rc_add_vstorage.
    + apply Rc_remove_vstorage.
    + exfalso. eapply Hc. reflexivity.
    + apply p_sao_store.
    + apply p_sao_ready.
    + apply p_sao_complete.
    + apply p_sao_cancel.
    + apply p_sao_renew.
    + apply p_sao_terminate.
    + apply p_sao_migrate.
    + apply p_sao_update_permission.
    + apply p_sao_report_faults.
    + apply p_sao_recover_faults.
    + apply p_send_strict.
    + apply p_staking_tx.
  - destruct op; simpl in Htx; try discriminate.
    + contradiction.
    + rewrite step_end_block. apply (block_phase_R Rc). apply p_end_block.
    + simpl. pose proof (p_staking_tx (R:=Rc) evs s) as Hs. unfold presAt in Hs.
      destruct (staking_tx evs s); simpl; try apply R_refl; apply R_same'; reflexivity.
Qed.

(** ** BeginBlock *)
Definition bb_post (s s' : State) : Prop :=
  exists m, 0 <= m /\ supply s' = supply s + m /\ balance s' (macc NODE) = balance s (macc NODE) + m /\
    pledges s' = pledges s /\ (0 <= np_reward (nparams s) -> m <= np_reward (nparams s)) /\
    match pool s with
    | None => pool s' = None /\ m = 0
    | Some po =>
        (po_pledged po = 0 -> m = 0) /\
        exists po', pool s' = Some po' /\ po_reward po' = po_reward po + m /\
          po_storage po' = po_storage po /\ po_pledged po' = po_pledged po /\
          ((m = 0 /\ po' = po) \/
           (po_storage po <> 0 /\ po_accreward po' = po_accreward po + Z.quot (dec_of_int m) (po_storage po)))
    end.

Lemma bb_post_refl s : bb_post s s.
Proof.
  exists 0. repeat split; try lia.
  destruct (pool s) as [po|]; [|auto]. split; [auto|]. exists po. repeat split; try lia. left; auto.
Qed.

Lemma begin_block_spec cx s :
  match begin_block cx s with Ok _ s' | Err _ s' => bb_post s s' | _ => True end.
Proof.
  unfold begin_block, bind, get.
  destruct (pool s) as [p|] eqn:Hpool; [|apply bb_post_refl].
  destruct (po_pledged p =? 0) eqn:Hpl0; [apply bb_post_refl|].
  destruct (np_reward (nparams s) =? 0) eqn:Hr0; [apply bb_post_refl|].
  unfold reward_age.
  destruct (TOTAL_REWARD - po_reward p <? 0); [exact I|].
  destruct (TOTAL_REWARD - po_reward p =? 0); [exact I|].
  unfold ret at 1. cbv beta iota.
  set (age := Z.log2 _).
  set (subsidy := Z.shiftr _ age).
  set (reward := if po_pledged p <? np_baseline (nparams s) then _ else subsidy).
  destruct (_ && _); [exact I|].
  destruct (reward <? 0) eqn:Hneg; [exact I|].
  destruct (reward =? 0) eqn:Hz; [apply bb_post_refl|].
  set (p1 := if po_nrpb p =? 0 then _ else p).
  set (p2 := if cx_height cx mod np_adjust (nparams s) =? 0 then _ else p1).
  set (p3 := p2 <| po_nrpb := _ |>).
  assert (E3 : po_storage p3 = po_storage p /\ po_pledged p3 = po_pledged p /\ po_reward p3 = po_reward p /\
               po_accreward p3 = po_accreward p).
  { subst p3 p2 p1. destruct (po_nrpb p =? 0), (cx_height cx mod np_adjust (nparams s) =? 0); repeat split. }
  destruct E3 as (E31 & E32 & E33 & E34).
  unfold mint. destruct (reward <=? 0) eqn:Hle; [lia|]. cbv beta iota.
  destruct (po_storage p3 =? 0) eqn:Hst; [exact I|].
  unfold modify.
  assert (Hsub : reward <= subsidy).
  { subst reward. destruct (po_pledged p <? np_baseline (nparams s)); [|lia].
    match goal with |- (if ?b then _ else _) <= _ => destruct b eqn:Hb end; lia. }
  exists reward. split; [lia|]. split; [reflexivity|]. split.
  { unfold balance at 1. cbn. rewrite lookup_insert. reflexivity. }
  split; [reflexivity|]. split.
  { intros Hnn. etransitivity; [exact Hsub|]. apply shiftr_le; [exact Hnn|apply Z.log2_nonneg]. }
  rewrite Hpool. split; [lia|].
  eexists. split; [reflexivity|]. cbn in E31, E32, E33, E34, Hst |- *. rewrite E31, E32, E33, E34.
  repeat split; try reflexivity. right. split; [lia|reflexivity].
Qed.

Lemma step_bb_post cx s : bb_post s (fst (step cx s OBeginBlock)).
Proof.
  rewrite step_begin_block. unfold block_phase. pose proof (begin_block_spec cx s) as Hb.
  destruct (begin_block cx s); simpl; auto; apply bb_post_refl.
Qed.

Definition Nonneg (s : State) : Prop := forall k p, pledges s !! k = Some p -> 0 <= pl_total p.

Lemma claimable_acc acc acc' p : claimable acc' p = (acc' - acc) * pl_total p + claimable acc p.
Proof. unfold claimable, pending, dec_mul_int. lia. Qed.

Lemma phi_acc_change s s' po po' :
  pool s = Some po -> pool s' = Some po' -> pledges s' = pledges s ->
  phi s' = phi s + (po_accreward po' - po_accreward po) * sum_map pl_total (pledges s).
Proof.
  intros Hpo Hpo' Hpl. unfold phi. rewrite Hpo, Hpo', Hpl.
  rewrite (sum_map_ext_all (claimable (po_accreward po'))
             (fun p => (po_accreward po' - po_accreward po) * pl_total p + claimable (po_accreward po) p)).
  - rewrite sum_map_linear. lia.
  - intros p. apply claimable_acc.
Qed.

Lemma bb_inv_pool s s' : bb_post s s' -> Inv_pool s -> Inv_pool s'.
Proof.
  intros (m & _ & _ & _ & Hpl & _ & Hp) HI po' Hpo'.
  destruct (pool s) as [po|] eqn:Hpo.
  - destruct Hp as (_ & po'' & Hpo'' & _ & Hst & Hpg & _). rewrite Hpo' in Hpo''. injection Hpo'' as <-.
    rewrite Hpl, Hst, Hpg. apply HI. exact Hpo.
  - destruct Hp as [Hn _]. congruence.
Qed.

Lemma bb_phi s s' :
  bb_post s s' -> Inv_pool s -> (forall po, pool s = Some po -> 0 <= po_storage po) ->
  phi s <= phi s' /\ phi s' - phi s <= dec_of_int (supply s' - supply s).
Proof.
  intros (m & Hm & Hsup & _ & Hpl & _ & Hp) HI Hnn.
  replace (supply s' - supply s) with m by lia.
  destruct (pool s) as [po|] eqn:Hpo.
  - destruct Hp as (_ & po' & Hpo' & _ & _ & _ & Hcase).
    rewrite (phi_acc_change s s' po po' Hpo Hpo' Hpl).
    destruct (HI po Hpo) as [HS _]. rewrite <- HS.
    destruct Hcase as [[-> ->]|[Hne Hacc]].
    + unfold dec_of_int. lia.
    + specialize (Hnn po eq_refl). rewrite Hacc.
      assert (Hd : 0 <= dec_of_int m) by (unfold dec_of_int, P18; lia).
      pose proof (quot_mul_le (dec_of_int m) (po_storage po) Hd ltac:(lia)).
      pose proof (quot_nonneg (dec_of_int m) (po_storage po) Hd ltac:(lia)).
      nia.
  - destruct Hp as [Hn ->]. unfold phi. rewrite Hpo, Hn. unfold dec_of_int. lia.
Qed.

Lemma bb_settled s s' : bb_post s s' -> Nonneg s -> Settled s -> Settled s'.
Proof.
  intros (m & _ & _ & _ & Hpl & _ & Hp) Hnn HS po' k p Hpo' Hk Hle.
  rewrite Hpl in Hk. pose proof (Hnn k p Hk) as H0.
  destruct (pool s) as [po|] eqn:Hpo.
  - pose proof (HS po k p Hpo Hk Hle) as Hpe.
    unfold pending, dec_mul_int in *. replace (pl_total p) with 0 in * by lia. lia.
  - destruct Hp as [Hn _]. congruence.
Qed.

(** ** ClaimReward *)
Definition post {A} (Q : A -> State -> Prop) (m : M A) (s : State) : Prop :=
  match m s with Ok a s' => Q a s' | _ => True end.
Lemma post_bind {A B} (Q : B -> State -> Prop) (m : M A) (k : A -> M B) s :
  post (fun a s1 => post Q (k a) s1) m s -> post Q (bind m k) s.
Proof. unfold post, bind. destruct (m s); auto. Qed.
Lemma post_bind_get {A} (Q : A -> State -> Prop) (k : State -> M A) s : post Q (k s) s -> post Q (bind get k) s.
Proof. intros Hk. exact Hk. Qed.
Lemma post_mono {A} (Q1 Q2 : A -> State -> Prop) (m : M A) s :
  post Q1 m s -> (forall a s', Q1 a s' -> Q2 a s') -> post Q2 m s.
Proof. unfold post. destruct (m s); auto. Qed.

(* what a claim leaves alone: pledges, pool, supply, and every account but the claimer's
   and the two module accounts it is paid from *)
Definition fr (c : string) (s s' : State) : Prop :=
  pledges s' = pledges s /\ pool s' = pool s /\ supply s' = supply s /\
  forall a, a <> c -> a <> macc NODE -> a <> macc MARKET -> bal s' !! a = bal s !! a.
Lemma fr_refl c s : fr c s s.
Proof. repeat split. Qed.
Lemma fr_trans c s1 s2 s3 : fr c s1 s2 -> fr c s2 s3 -> fr c s1 s3.
Proof.
  intros (A1 & A2 & A3 & A4) (B1 & B2 & B3 & B4). repeat split; try congruence.
  intros a H1 H2 H3. rewrite B4, A4; auto.
Qed.

Lemma market_claim_fr cx c s : post (fun _ s' => fr c s s') (market_claim cx c) s.
Proof.
  unfold post, market_claim, bind, get. destruct (workers s !! worker_name c); [|apply fr_refl].
  cbv zeta. destruct (_ =? 0); [apply fr_refl|]. destruct (_ <? 0); [exact I|]. simpl. repeat split.
Qed.
Lemma repay_debt_fr c rw s : post (fun _ s' => fr c s s') (repay_debt c rw) s.
Proof.
  unfold post, repay_debt, bind, get. destruct (debts s !! c); [|apply fr_refl].
  destruct (repay_loop _ _) as [rw' [d|]]; simpl; repeat split.
Qed.
Lemma pay_fr c from amt s :
  from = macc NODE \/ from = macc MARKET ->
  post (fun _ s' => fr c s s') (if amt =? 0 then ret tt else send_strict from c amt) s.
Proof.
  intros Hf. unfold post. destruct (amt =? 0); [apply fr_refl|].
  unfold send_strict. destruct (amt <=? 0); [exact I|]. destruct (_ <? amt); [exact I|].
  repeat split. intros a H1 H2 H3. unfold move. cbn.
  rewrite !lookup_insert_ne; [reflexivity| |]; intros <-; destruct Hf; congruence.
Qed.

Lemma release_none_spec c p0 s :
  pledges s !! c = Some p0 ->
  post (fun _ s1 => exists p3, pledges s1 = <[c:=p3]> (pledges s) /\ pool s1 = pool s /\ supply s1 = supply s /\
                     bal s1 = bal s /\ pl_total p3 = pl_total p0 /\ pl_spledged p3 = pl_spledged p0 /\
                     match pool s with
                     | Some po => pending (po_accreward po) p3 = 0 /\ pl_reward p3 = pl_reward (settle (po_accreward po) p0)
                     | None => p3 = p0
                     end)
       (try_ (shard_release c None)) s.
Proof.
  intros Hp0. unfold post, try_, shard_release, bind, get. rewrite Hp0.
  destruct (pool s) as [po|] eqn:Hpo; simpl.
  - eexists. split; [reflexivity|]. rewrite Hpo. repeat split.
    + cbn. apply settle_total.
    + cbn. apply settle_spledged.
    + unfold pending, dec_mul_int. cbn. lia.
  - exists p0. rewrite Hpo. repeat split. symmetry. apply insert_id. exact Hp0.
Qed.

Definition claim_post (c : string) (s s' : State) : Prop :=
  exists p0 q, pledges s !! c = Some p0 /\ pledges s' = <[c:=q]> (pledges s) /\
    pool s' = pool s /\ supply s' = supply s /\
    (forall a, a <> c -> a <> macc NODE -> a <> macc MARKET -> bal s' !! a = bal s !! a) /\
    pl_total q = pl_total p0 /\ pl_spledged q = pl_spledged p0 /\
    (forall po, pool s = Some po -> exists coins, 0 <= coins /\ pending (po_accreward po) q = 0 /\
        pl_reward q = pl_reward (settle (po_accreward po) p0) - dec_of_int coins).

Lemma claim_reward_spec cx c s : post (fun _ s' => claim_post c s s') (claim_reward cx c) s.
Proof.
  unfold claim_reward. apply post_bind_get.
  destruct (pledges s !! c) as [p0|] eqn:Hp0; [|exact I].
  apply post_bind. eapply post_mono; [apply (release_none_spec c p0 s Hp0)|].
  intros _ s1 (p3 & Hpl1 & Hpool1 & Hsup1 & Hbal1 & Ht3 & Hs3 & Hcase).
  apply post_bind_get. rewrite Hpl1, lookup_insert.
  destruct (dec_split (pl_reward p3)) as [claim remain] eqn:Hsplit.
  destruct (claim <? 0) eqn:Hneg; [exact I|].
  apply post_bind. eapply post_mono; [apply market_claim_fr|]. intros wr s2 F2.
  apply post_bind. eapply post_mono; [apply repay_debt_fr|]. intros rw s3 F3.
  apply post_bind. eapply post_mono; [apply pay_fr; auto|]. intros u4 s4 F4.
  apply post_bind. eapply post_mono; [apply pay_fr; auto|]. intros u5 s5 F5.
  pose proof (fr_trans _ _ _ _ (fr_trans _ _ _ _ (fr_trans _ _ _ _ F2 F3) F4) F5) as (G1 & G2 & G3 & G4).
  unfold post, bind, modify, ret.
  exists p0, (p3 <| pl_reward := remain |>).
  split; [exact Hp0|]. split.
  { cbn. rewrite G1, Hpl1. apply insert_insert. }
  split; [cbn; congruence|]. split; [cbn; congruence|]. split.
  { intros a H1 H2 H3. cbn. rewrite G4 by assumption. rewrite Hbal1. reflexivity. }
  split; [exact Ht3|]. split; [exact Hs3|].
  intros po Hpo. rewrite Hpo in Hcase. destruct Hcase as [Hpe Hrw].
  unfold dec_split in Hsplit. injection Hsplit as Hc Hr.
  exists claim. split; [lia|]. split.
  - exact Hpe.
  - cbn. rewrite <- Hrw, <- Hr, Hc. unfold dec_of_int. lia.
Qed.

Lemma step_claim_ok cx s s' d c : step cx s (OClaimReward c) = (s', OutTx COk d) -> claim_post c s s'.
Proof.
  simpl. unfold deliver, bind. pose proof (claim_reward_spec cx c s) as Hc. unfold post in Hc.
  destruct (claim_reward cx c s); simpl; intros E; inversion E; subst; auto.
Qed.
Lemma step_claim_any cx s c :
  claim_post c s (fst (step cx s (OClaimReward c))) \/ same3 s (fst (step cx s (OClaimReward c))).
Proof.
  simpl. unfold deliver, bind. pose proof (claim_reward_spec cx c s) as Hc. unfold post in Hc.
  destruct (claim_reward cx c s); simpl; auto; right; repeat split.
Qed.

Lemma claim_inv_pool c s s' : claim_post c s s' -> Inv_pool s -> Inv_pool s'.
Proof.
  intros (p0 & q & Hp0 & Hpl & Hpool & _ & _ & Ht & Hs & _) HI po Hpo. rewrite Hpool in Hpo.
  destruct (HI po Hpo) as [H1 H2]. rewrite Hpl, !(sum_map_insert_Some _ _ _ _ p0 Hp0). split; lia.
Qed.

Lemma claim_settled_phi c s s' :
  claim_post c s s' -> Settled s ->
  Settled s' /\
  match pool s with
  | Some _ => exists coins, 0 <= coins /\ phi s' = phi s - dec_of_int coins
  | None => phi s' = phi s
  end.
Proof.
  intros (p0 & q & Hp0 & Hpl & Hpool & _ & _ & Ht & Hs & Hq) HS.
  destruct (pool s) as [po|] eqn:Hpo.
  - destruct (Hq po eq_refl) as (coins & Hc & Hpe & Hrw). split.
    + intros po' k p Hpo' Hk Hle. rewrite Hpool in Hpo'. injection Hpo' as <-.
      rewrite Hpl in Hk. destruct (decide (k = c)) as [->|Hne].
      * rewrite lookup_insert in Hk. injection Hk as <-. exact Hpe.
      * rewrite lookup_insert_ne in Hk by congruence. apply (HS po k p Hpo Hk Hle).
    + exists coins. split; [exact Hc|]. unfold phi. rewrite Hpool, Hpo, Hpl.
      rewrite (sum_map_insert_Some _ _ _ _ p0 Hp0).
      rewrite settle_reward in Hrw by (apply (HS po c p0 Hpo Hp0)).
      unfold claimable at 3. rewrite Hpe, Hrw. lia.
  - split.
    + intros po' k p Hpo'. congruence.
    + unfold phi. rewrite Hpool, Hpo. reflexivity.
Qed.

Lemma op_cases (op : Op) :
  op = OBeginBlock \/ (exists c, op = OClaimReward c) \/ (op <> OBeginBlock /\ forall c, op <> OClaimReward c).
Proof.
  destruct op; try (right; right; split; [discriminate|intros; discriminate]).
  - left. reflexivity.
  - right. left. eexists. reflexivity.
Qed.

(** * 5. C14: the pool counters are the sums over the providers *)
Theorem step_inv_pool : forall cx s op, Inv_pool s -> Inv_pool (fst (step cx s op)).
Proof.
  intros cx s op HI. destruct (op_cases op) as [->|[[c ->]|[Hb Hc]]].
  - eapply bb_inv_pool; [apply step_bb_post|exact HI].
  - destruct (step_claim_any cx s c) as [Hc|(E1 & E2 & _)].
    + eapply claim_inv_pool; eassumption.
    + eapply Inv_pool_same; eassumption.
  - destruct (step_other_Rc cx s op Hb Hc) as (_ & H & _). auto.
Qed.
Print Assumptions step_inv_pool.

Lemma run_cons cx op tr s : run ((cx, op) :: tr) s = run tr (fst (step cx s op)).
Proof. reflexivity. Qed.

Theorem run_inv_pool : forall tr s, Inv_pool s -> Inv_pool (run tr s).
Proof.
  induction tr as [|[cx op] tr IH]; intros s HI.
  - exact HI.
  - rewrite run_cons. apply IH. apply step_inv_pool. exact HI.
Qed.
Print Assumptions run_inv_pool.

(** * 6. C08: block-reward accounting *)
(* added hypothesis: the configured block reward is not negative (needed only for [m <= np_reward]:
   when nothing is minted [m = 0]) *)
Theorem begin_block_mint : forall cx s s' d,
  0 <= np_reward (nparams s) ->
  step cx s OBeginBlock = (s', OutBlock BOk d) ->
  exists m, 0 <= m /\ supply s' = supply s + m /\ balance s' (macc NODE) = balance s (macc NODE) + m /\
    m <= np_reward (nparams s) /\
    (forall po, pool s = Some po -> po_pledged po = 0 -> m = 0) /\
    (forall po, pool s = Some po -> exists po', pool s' = Some po' /\ po_reward po' = po_reward po + m /\
        po_storage po' = po_storage po /\ po_pledged po' = po_pledged po) /\
    pledges s' = pledges s.
Proof.
  intros cx s s' d Hnp Hstep. pose proof (step_bb_post cx s) as Hb. rewrite Hstep in Hb. simpl in Hb.
  destruct Hb as (m & Hm & Hsup & Hbal & Hpl & Hle & Hp).
  exists m. repeat split; auto.
  - intros po Hpo. rewrite Hpo in Hp. tauto.
  - intros po Hpo. rewrite Hpo in Hp. destruct Hp as (_ & po' & H1 & H2 & H3 & H4 & _). eauto.
Qed.
Print Assumptions begin_block_mint.

Theorem begin_block_phi : forall cx s s' d, Inv_pool s -> step cx s OBeginBlock = (s', OutBlock BOk d) ->
  (forall po, pool s = Some po -> 0 < po_storage po) ->
  phi s <= phi s' /\ phi s' - phi s <= dec_of_int (supply s' - supply s) /\
  (forall k p po po', pool s = Some po -> pool s' = Some po' -> pledges s !! k = Some p ->
      claimable (po_accreward po') p - claimable (po_accreward po) p = (po_accreward po' - po_accreward po) * pl_total p).
Proof.
  intros cx s s' d HI Hstep Hpos. pose proof (step_bb_post cx s) as Hb. rewrite Hstep in Hb. simpl in Hb.
  destruct (bb_phi s s' Hb HI) as [H1 H2].
  { intros po Hpo. specialize (Hpos po Hpo). lia. }
  split; [exact H1|]. split; [exact H2|].
  intros k p po po' _ _ _. rewrite (claimable_acc (po_accreward po) (po_accreward po')). lia.
Qed.
Print Assumptions begin_block_phi.

(* added hypothesis: [Settled s] *)
Theorem claim_phi : forall cx s s' d c, Settled s ->
  step cx s (OClaimReward c) = (s', OutTx COk d) -> (exists po, pool s = Some po) ->
  exists coins, 0 <= coins /\ phi s' = phi s - dec_of_int coins /\
    (forall k, k <> c -> pledges s' !! k = pledges s !! k) /\ pool s' = pool s.
Proof.
  intros cx s s' d c HS Hstep [po Hpo]. pose proof (step_claim_ok cx s s' d c Hstep) as Hc.
  destruct (claim_settled_phi c s s' Hc HS) as [_ Hphi]. rewrite Hpo in Hphi.
  destruct Hphi as (coins & H0 & H1). exists coins. split; [exact H0|]. split; [exact H1|].
  destruct Hc as (p0 & q & _ & Hpl & Hpool & _). split; [|exact Hpool].
  intros k Hk. rewrite Hpl. apply lookup_insert_ne. congruence.
Qed.
Print Assumptions claim_phi.

(* added hypothesis: [Settled s]; it is preserved *)
Theorem other_phi : forall cx s op, Settled s -> op <> OBeginBlock -> (forall c, op <> OClaimReward c) ->
  phi (fst (step cx s op)) = phi s.
Proof. intros cx s op HS Hb Hc. destruct (step_other_Rc cx s op Hb Hc) as (_ & _ & H). apply H. exact HS. Qed.
Print Assumptions other_phi.

Theorem other_supply : forall cx s op, op <> OBeginBlock -> supply (fst (step cx s op)) = supply s.
Proof.
  intros cx s op Hb. destruct (op_cases op) as [->|[[c ->]|[_ Hc]]]; [contradiction| |].
  - destruct (step_claim_any cx s c) as [(p0 & q & _ & _ & _ & E & _)|(_ & _ & E)]; exact E.
  - destruct (step_other_Rc cx s op Hb Hc) as (E & _). exact E.
Qed.
Print Assumptions other_supply.

Theorem step_settled : forall cx s op, Settled s -> (op = OBeginBlock -> Nonneg s) -> Settled (fst (step cx s op)).
Proof.
  intros cx s op HS Hnn. destruct (op_cases op) as [->|[[c ->]|[Hb Hc]]].
  - eapply bb_settled; [apply step_bb_post|auto|exact HS].
  - destruct (step_claim_any cx s c) as [Hc|(E1 & E2 & _)].
    + apply (claim_settled_phi c s _ Hc HS).
    + eapply Settled_same; eassumption.
  - destruct (step_other_Rc cx s op Hb Hc) as (_ & _ & H). apply H. exact HS.
Qed.
Print Assumptions step_settled.

Theorem claim_pays : forall cx s s' d c, step cx s (OClaimReward c) = (s', OutTx COk d) ->
  exists p, pledges s !! c = Some p /\
    (forall a, a <> c -> a <> macc NODE -> a <> macc MARKET -> bal s' !! a = bal s !! a).
Proof.
  intros cx s s' d c Hstep. destruct (step_claim_ok cx s s' d c Hstep) as (p0 & q & Hp0 & _ & _ & _ & Hbal & _).
  exists p0. split; assumption.
Qed.
Print Assumptions claim_pays.

(** ** the history-level statement *)
Fixpoint minted_in (tr : list (Ctx * Op)) (s : State) : Z :=
  match tr with
  | [] => 0
  | (cx, op) :: r => (supply (fst (step cx s op)) - supply s) + minted_in r (fst (step cx s op))
  end.
Fixpoint claimed_in (tr : list (Ctx * Op)) (s : State) : Z :=
  match tr with
  | [] => 0
  | (cx, op) :: r =>
      (match op with OClaimReward _ => phi s - phi (fst (step cx s op)) | _ => 0 end) + claimed_in r (fst (step cx s op))
  end.
(* side condition carried along the run: no provider's capacity is negative when a block begins *)
Fixpoint nonneg_at_blocks (tr : list (Ctx * Op)) (s : State) : Prop :=
  match tr with
  | [] => True
  | (cx, op) :: r => (op = OBeginBlock -> Nonneg s) /\ nonneg_at_blocks r (fst (step cx s op))
  end.

Lemma step_bound cx s op :
  Inv_pool s -> Settled s -> (op = OBeginBlock -> Nonneg s) ->
  phi (fst (step cx s op)) + (match op with OClaimReward _ => phi s - phi (fst (step cx s op)) | _ => 0 end)
  <= phi s + dec_of_int (supply (fst (step cx s op)) - supply s).
Proof.
  intros HI HS Hnn. destruct (op_cases op) as [->|[[c ->]|[Hb Hc]]].
  - destruct (bb_phi s _ (step_bb_post cx s) HI) as [_ H2]; [|lia].
    intros po Hpo. destruct (HI po Hpo) as [-> _]. apply sum_map_nonneg. apply Hnn. reflexivity.
  - rewrite other_supply by discriminate. unfold dec_of_int. lia.
  - rewrite other_supply by exact Hb. rewrite other_phi by assumption.
    destruct op; try (unfold dec_of_int; lia).
Qed.

Theorem no_overclaim : forall tr s, Inv_pool s -> Settled s -> nonneg_at_blocks tr s ->
  phi (run tr s) + claimed_in tr s <= phi s + dec_of_int (minted_in tr s).
Proof.
  induction tr as [|[cx op] tr IH]; intros s HI HS Hnn.
  - simpl. unfold dec_of_int. lia.
  - destruct Hnn as [Hn Hrest]. rewrite run_cons. cbn [minted_in claimed_in].
    pose proof (step_bound cx s op HI HS Hn) as Hb.
    specialize (IH (fst (step cx s op)) (step_inv_pool cx s op HI) (step_settled cx s op HS Hn) Hrest).
    unfold dec_of_int in *. lia.
Qed.
Print Assumptions no_overclaim.

(** * 7. the added hypotheses are needed *)
Definition ex_params : NParams :=
  mkNParams 1000 1000000000 500000000000000000 32000000 2000 100000000000000000 "" 1 10000 10737418240 1800.
Definition ex_cx (h : Z) : Ctx := {| cx_height := h; cx_chain := "c"; cx_time := 0; cx_seed := 0 |}.

(* a state that is not [Settled]: a provider without capacity whose recorded debt is 5 *)
Definition unsettled : State :=
  mkState did_empty (<["sao1a" := mkNode "" 10000 0 1 [] 0 ""]> ∅) (<["sao1a" := mkPledge 0 0 0 5 0 0]> ∅) ∅
          (Some (mkPool 0 0 0 1 0 0 0 0)) None ∅ ∅ ∅ ex_params ∅ 1 ∅ 0 ∅ ∅ ∅ ∅ ∅ ∅
          (list_to_map [("sao1a", 1000000)]) 1000000 ∅ ∅ 0.

(* without [Settled] a pledge changes the total credited: the overwritten debt was never settled *)
Theorem other_phi_refuted : exists cx s op,
  op <> OBeginBlock /\ (forall c, op <> OClaimReward c) /\ phi (fst (step cx s op)) <> phi s.
Proof.
  exists (ex_cx 1), unsettled, (OAddVstorage "sao1a" 1000000).
  split; [discriminate|]. split; [intros; discriminate|]. vm_compute. discriminate.
Qed.
Print Assumptions other_phi_refuted.

Theorem claim_phi_refuted : exists cx s s' d c,
  step cx s (OClaimReward c) = (s', OutTx COk d) /\ (exists po, pool s = Some po) /\
  forall coins, 0 <= coins -> phi s' <> phi s - dec_of_int coins.
Proof.
  exists (ex_cx 1), unsettled. eexists. eexists. exists "sao1a".
  split; [vm_compute; reflexivity|]. split; [eexists; reflexivity|].
  intros coins Hc. vm_compute phi. unfold dec_of_int, P18. lia.
Qed.
Print Assumptions claim_phi_refuted.

(* without [0 <= np_reward] the bound [m <= np_reward] fails when nothing is minted *)
Theorem begin_block_mint_refuted : exists cx s s' d,
  step cx s OBeginBlock = (s', OutBlock BOk d) /\
  ~ exists m, 0 <= m /\ supply s' = supply s + m /\ m <= np_reward (nparams s).
Proof.
  exists (ex_cx 1).
  exists (mkState did_empty ∅ ∅ ∅ None None ∅ ∅ ∅
            (mkNParams (-1) 1000000000 500000000000000000 32000000 2000 100000000000000000 "" 1 10000 10737418240 1800)
            ∅ 1 ∅ 0 ∅ ∅ ∅ ∅ ∅ ∅ ∅ 0 ∅ ∅ 0).
  eexists. eexists. split; [vm_compute; reflexivity|].
  intros (m & H0 & _ & Hle). simpl in Hle. lia.
Qed.
Print Assumptions begin_block_mint_refuted.

(** * 8. non-vacuity *)
(* two providers pledge capacity, three blocks mint 1000 each, the first provider claims *)
Definition ex_genesis : State :=
  mkState did_empty ∅ ∅ ∅ (Some (mkPool 0 0 0 0 0 0 0 0)) None ∅ ∅ ∅ ex_params ∅ 1 ∅ 0 ∅ ∅ ∅ ∅ ∅ ∅
          (list_to_map [("sao1a", 1000000000000); ("sao1b", 1000000000000)]) 2000000000000 ∅ ∅ 0.
Definition ex_trace : list (Ctx * Op) :=
  [ (ex_cx 1, ONodeCreate "sao1a"); (ex_cx 1, ONodeCreate "sao1b");
    (ex_cx 1, OAddVstorage "sao1a" 1000000000000000); (ex_cx 1, OAddVstorage "sao1b" 3000000000000000);
    (ex_cx 2, OBeginBlock); (ex_cx 3, OBeginBlock); (ex_cx 3, OClaimReward "sao1a"); (ex_cx 4, OBeginBlock) ].

Lemma ex_genesis_inv : Inv_pool ex_genesis.
Proof. intros po Hpo. injection Hpo as <-. split; reflexivity. Qed.
Lemma ex_genesis_settled : Settled ex_genesis.
Proof. intros po k p _ Hk. simpl in Hk. rewrite lookup_empty in Hk. discriminate. Qed.
Fixpoint nonneg_chk (tr : list (Ctx * Op)) (s : State) : bool :=
  match tr with
  | [] => true
  | (cx, op) :: r =>
      (match op with
       | OBeginBlock => bool_decide (map_Forall (fun (_ : string) p => 0 <= pl_total p) (pledges s))
       | _ => true end) && nonneg_chk r (fst (step cx s op))
  end.
Lemma nonneg_chk_sound tr : forall s, nonneg_chk tr s = true -> nonneg_at_blocks tr s.
Proof.
  induction tr as [|[cx op] tr IH]; intros s Hc; [exact I|].
  simpl in Hc. apply andb_true_iff in Hc. destruct Hc as [H1 H2]. split; [|apply IH; exact H2].
  intros ->. apply bool_decide_eq_true_1 in H1. exact H1.
Qed.
Lemma ex_nonneg : nonneg_at_blocks ex_trace ex_genesis.
Proof. apply nonneg_chk_sound. vm_compute. reflexivity. Qed.

Lemma run_settled : forall tr s, Settled s -> nonneg_at_blocks tr s -> Settled (run tr s).
Proof.
  induction tr as [|[cx op] tr IH]; intros s HS Hn; [exact HS|].
  destruct Hn as [Hn Hr]. rewrite run_cons. apply IH; [apply step_settled; assumption|exact Hr].
Qed.

Example accumulator_nonvacuous :
  let s := run ex_trace ex_genesis in
  phi s = dec_of_int 2500 /\                          (* still claimable *)
  minted_in ex_trace ex_genesis = 3000 /\             (* coins minted *)
  claimed_in ex_trace ex_genesis = dec_of_int 500 /\  (* claimed along the run *)
  supply s = supply ex_genesis + 3000 /\
  balance s "sao1a" = 1000000000000 - 1000000000 + 500 /\ (* the claim was paid out *)
  balance s (macc NODE) = 4000000000 + 3000 - 500 /\
  Inv_pool s /\ Settled s /\
  phi s + claimed_in ex_trace ex_genesis <= phi ex_genesis + dec_of_int (minted_in ex_trace ex_genesis).
Proof.
  cbv zeta.
  split; [vm_compute; reflexivity|]. split; [vm_compute; reflexivity|]. split; [vm_compute; reflexivity|].
  split; [vm_compute; reflexivity|]. split; [vm_compute; reflexivity|]. split; [vm_compute; reflexivity|].
  split; [apply run_inv_pool; apply ex_genesis_inv|].
  split; [apply run_settled; [apply ex_genesis_settled|apply ex_nonneg]|].
  apply no_overclaim; [apply ex_genesis_inv|apply ex_genesis_settled|apply ex_nonneg].
Qed.
Print Assumptions accumulator_nonvacuous.
