(* C11 (retention and expiry), C12 (timeout progress), C13 (links created by Store):
   what the handlers and the end-blocker of x/sao do to the two schedules
   [timeouts] (height -> order ids) and [expshards] (height -> shard ids). *)
From SaoVerif Require Import Base.Prelude Base.Ints Base.Dec Model.Did Model.Types Model.Monad Model.Bank Model.Select
     Model.Node Model.Storage Model.Sao Model.Hooks Model.App Model.Spec Proofs.SelectFacts.
From RecordUpdate Require Import RecordUpdate.
Import RecordSetNotations.

(** * 0. Reasoning about the outcome monad *)

Lemma bind_ok {A B} (m : M A) (k : A -> M B) s b s' :
  bind m k s = Ok b s' -> exists a s1, m s = Ok a s1 /\ k a s1 = Ok b s'.
Proof. unfold bind. destruct (m s); try discriminate. eauto. Qed.

Lemma try_ok {A} (m : M A) s r s' :
  try_ m s = Ok r s' ->
  (exists a, r = Some a /\ m s = Ok a s') \/ (exists e, r = None /\ m s = Err e s').
Proof.
  unfold try_. destruct (m s) eqn:E; try discriminate; intros H; inversion H; subst; eauto.
Qed.

(** ** frames: the projection [f] of the state is left alone, on normal and on error return *)
Definition keeps {A B} (f : State -> B) (m : M A) : Prop :=
  forall s, match m s with Ok _ s' => f s' = f s | Err _ s' => f s' = f s | _ => True end.

Lemma keeps_ok {A B} (f : State -> B) (m : M A) s a s' : keeps f m -> m s = Ok a s' -> f s' = f s.
Proof. intros K E. specialize (K s). rewrite E in K. exact K. Qed.
Lemma keeps_err {A B} (f : State -> B) (m : M A) s e s' : keeps f m -> m s = Err e s' -> f s' = f s.
Proof. intros K E. specialize (K s). rewrite E in K. exact K. Qed.

Lemma keeps_ret {A B} (f : State -> B) (a : A) : keeps f (ret a).
Proof. intros s. reflexivity. Qed.
Lemma keeps_fail {A B} (f : State -> B) e : keeps f (@fail A e).
Proof. intros s. reflexivity. Qed.
Lemma keeps_panic {A B} (f : State -> B) e : keeps f (@panic A e).
Proof. intros s. exact I. Qed.
Lemma keeps_hang {A B} (f : State -> B) : keeps f (fun _ => @Hang A).
Proof. intros s. exact I. Qed.
Lemma keeps_get {B} (f : State -> B) : keeps f get.
Proof. intros s. reflexivity. Qed.
Lemma keeps_gets {A B} (f : State -> B) (g : State -> A) : keeps f (gets g).
Proof. intros s. reflexivity. Qed.
Lemma keeps_modify {B} (f : State -> B) g : (forall s, f (g s) = f s) -> keeps f (modify g).
Proof. intros H s. apply H. Qed.
Lemma keeps_bind {A C B} (f : State -> B) (m : M A) (k : A -> M C) :
  keeps f m -> (forall a, keeps f (k a)) -> keeps f (bind m k).
Proof.
  intros Km Kk s. unfold bind. specialize (Km s). destruct (m s) as [a s1|e s1| |]; auto.
  specialize (Kk a s1). destruct (k a s1); auto; congruence.
Qed.
Lemma keeps_try {A B} (f : State -> B) (m : M A) : keeps f m -> keeps f (try_ m).
Proof. intros K s. unfold try_. specialize (K s). destruct (m s); auto. Qed.
Lemma keeps_forM {A B} (f : State -> B) (l : list A) (k : A -> M unit) :
  (forall x, In x l -> keeps f (k x)) -> keeps f (forM l k).
Proof.
  induction l as [|x r IH]; intros H; simpl.
  - apply keeps_ret.
  - apply keeps_bind; [apply H; left; reflexivity|]. intros _. apply IH. intros y Hy. apply H. right. exact Hy.
Qed.
Lemma keeps_weaken {A B C} (f : State -> B) (h : B -> C) (m : M A) : keeps f m -> keeps (fun s => h (f s)) m.
Proof. intros K s. specialize (K s). destruct (m s); auto; congruence. Qed.

Lemma keeps_send_strict {B} (f : State -> B) from to amt :
  (forall s, f (move from to amt s) = f s) -> keeps f (send_strict from to amt).
Proof. intros H s. unfold send_strict. destruct (amt <=? 0); [reflexivity|]. destruct (_ <? _); [reflexivity|apply H]. Qed.
Lemma keeps_send_lenient {B} (f : State -> B) from to amt :
  (forall s, f (move from to amt s) = f s) -> keeps f (send_lenient from to amt).
Proof. intros H s. unfold send_lenient. destruct (amt =? 0); [reflexivity|]. apply keeps_send_strict. exact H. Qed.

Ltac head_of t := lazymatch t with ?g _ => head_of g | _ => t end.

(* one syntactic step of a frame proof; leaves the side conditions of writes it cannot close *)
Ltac keeps_step :=
  cbv beta zeta;
  lazymatch goal with
  | |- keeps _ (bind _ _) => apply keeps_bind; [|intro]
  | |- keeps _ (ret _) => apply keeps_ret
  | |- keeps _ (fail _) => apply keeps_fail
  | |- keeps _ (panic _) => apply keeps_panic
  | |- keeps _ (fun _ => Hang) => apply keeps_hang
  | |- keeps _ get => apply keeps_get
  | |- keeps _ (gets _) => apply keeps_gets
  | |- keeps _ (try_ _) => apply keeps_try
  | |- keeps _ (forM _ _) => apply keeps_forM; intros ? _
  | |- keeps _ (modify _) => apply keeps_modify; intro; try reflexivity
  | |- keeps _ (send_strict _ _ _) => apply keeps_send_strict; intro; try reflexivity
  | |- keeps _ (send_lenient _ _ _) => apply keeps_send_lenient; intro; try reflexivity
  | |- keeps _ (match ?x with _ => _ end) => destruct x
  | |- keeps _ ?m => first [ assumption | solve [auto 2 with keeps] | let h := head_of m in unfold h ]
  end.
Ltac keeps_go := repeat keeps_step.

(** ** values returned *)
Definition returns {A} (Q : A -> Prop) (m : M A) : Prop := forall s a s', m s = Ok a s' -> Q a.

Lemma returns_ret {A} (Q : A -> Prop) a : Q a -> returns Q (ret a).
Proof. intros H s a' s' E. inversion E; subst. exact H. Qed.
Lemma returns_fail {A} (Q : A -> Prop) e : returns Q (fail e).
Proof. intros s a s' E. discriminate. Qed.
Lemma returns_panic {A} (Q : A -> Prop) e : returns Q (panic e).
Proof. intros s a s' E. discriminate. Qed.
Lemma returns_bind {A C} (Q : C -> Prop) (m : M A) (k : A -> M C) :
  (forall a, returns Q (k a)) -> returns Q (bind m k).
Proof. intros H s c s' E. apply bind_ok in E. destruct E as (a & s1 & _ & E). exact (H a s1 c s' E). Qed.

Ltac returns_step :=
  cbv beta zeta;
  lazymatch goal with
  | |- returns _ (bind _ _) => apply returns_bind; intro
  | |- returns _ (fail _) => apply returns_fail
  | |- returns _ (panic _) => apply returns_panic
  | |- returns _ (ret _) => apply returns_ret
  | |- returns _ (match ?x with _ => _ end) => destruct x eqn:?
  end.

(** ** the schedules *)
Lemma in_sched_insert (m : gmap Z (list Z)) h x :
  In x (default [] (<[h := default [] (m !! h) ++ [x]]> m !! h)).
Proof. rewrite lookup_insert. simpl. apply in_or_app. right. left. reflexivity. Qed.

(* the parts of the store the schedules and C13 talk about *)
Definition core (s : State) :=
  (shards s, orders s, expshards s, timeouts s, order_count s, shard_count s).

Lemma core_eq s s' : core s' = core s ->
  shards s' = shards s /\ orders s' = orders s /\ expshards s' = expshards s /\ timeouts s' = timeouts s /\
  order_count s' = order_count s /\ shard_count s' = shard_count s.
Proof. unfold core. intros H. inversion H. repeat split; assumption. Qed.

(** * 1. accepted transactions *)
Lemma step_tx_ok cx s op m s' d :
  tx_of cx op = Some m -> step cx s op = (s', OutTx COk d) -> m s = Ok tt s'.
Proof.
  intros Htx Hst.
  assert (Hd : (let '(s1, c, d1) := deliver m s in (s1, OutTx c d1)) = (s', OutTx COk d)).
  { destruct op; simpl in Htx; try discriminate; unfold step in Hst; simpl tx_of in Hst;
      inversion Htx; subst; exact Hst. }
  unfold deliver in Hd. destruct (m s) as [[] s1|e s1|e|]; inversion Hd; subst. reflexivity.
Qed.

(** * 2. what the market, node and model keepers leave alone *)
Lemma keeps_core_coin_sub a b : keeps core (coin_sub a b).
Proof. unfold coin_sub. keeps_go. Qed.
Global Hint Resolve keeps_core_coin_sub : keeps.
Lemma keeps_core_repay_debt sp rw : keeps core (repay_debt sp rw).
Proof. unfold repay_debt. keeps_go. Qed.
Global Hint Resolve keeps_core_repay_debt : keeps.
Lemma keeps_core_worker_release cx o sh : keeps core (worker_release cx o sh).
Proof. unfold worker_release. keeps_go. Qed.
Lemma keeps_core_worker_append cx o sh : keeps core (worker_append cx o sh).
Proof. unfold worker_append. keeps_go. Qed.
Lemma keeps_core_shard_release sp sh : keeps core (shard_release sp sh).
Proof. unfold shard_release. keeps_go. Qed.
Lemma keeps_core_remove_data_expire d h : keeps core (remove_data_expire d h).
Proof. unfold remove_data_expire. keeps_go. Qed.
Lemma keeps_core_set_data_expire d h : keeps core (set_data_expire d h).
Proof. unfold set_data_expire. keeps_go. Qed.
Global Hint Resolve keeps_core_worker_release keeps_core_worker_append keeps_core_shard_release
  keeps_core_remove_data_expire keeps_core_set_data_expire : keeps.
Lemma keeps_core_extend_meta_duration d h : keeps core (extend_meta_duration d h).
Proof. unfold extend_meta_duration. keeps_go. Qed.
Lemma keeps_core_increase_reputation n v : keeps core (increase_reputation n v).
Proof. unfold increase_reputation. keeps_go. Qed.
Lemma keeps_core_random_sp_m cx c ig sz : keeps core (random_sp_m cx c ig sz).
Proof. unfold random_sp_m. keeps_go. Qed.
Global Hint Resolve keeps_core_extend_meta_duration keeps_core_increase_reputation keeps_core_random_sp_m : keeps.
Lemma keeps_core_delete_meta d : keeps core (delete_meta d).
Proof. unfold delete_meta. keeps_go. Qed.
Global Hint Resolve keeps_core_delete_meta : keeps.
Lemma keeps_core_end_block_model cx : keeps core (end_block_model cx).
Proof. unfold end_block_model. keeps_go. Qed.
Lemma keeps_core_end_block_node cx : keeps core (end_block_node cx).
Proof. unfold end_block_node. keeps_go. Qed.
Lemma keeps_core_set_role c r v : keeps core (set_role c r v).
Proof. unfold set_role. apply keeps_modify. intros s. destruct (nodes s !! c); reflexivity. Qed.
Global Hint Resolve keeps_core_set_role : keeps.
Lemma keeps_core_verify_super v a b : keeps core (verify_super v a b).
Proof. unfold verify_super. keeps_go. destruct (pg s =? 0); reflexivity. Qed.
Global Hint Resolve keeps_core_verify_super : keeps.
Lemma keeps_core_staking_tx evs : keeps core (staking_tx evs).
Proof. unfold staking_tx. apply keeps_forM. intros e _. destruct e; unfold st_event; keeps_go. Qed.
Global Hint Resolve keeps_core_end_block_model keeps_core_end_block_node keeps_core_staking_tx : keeps.

(** * 3. C12: an order handed to providers gets its first check scheduled *)
Theorem ready_schedules_timeout : forall cx s c p oid s' d, step cx s (OReady c p oid) = (s', OutTx COk d) ->
  exists o', orders s' !! oid = Some o' /\ In oid (default [] (timeouts s' !! u64 (cx_height cx + o_timeout o'))).
Proof.
  intros cx s c p oid s' d Hst.
  apply (step_tx_ok _ _ _ (sao_ready cx c p oid)) in Hst; [|reflexivity].
  unfold sao_ready in Hst. apply bind_ok in Hst. destruct Hst as (s0 & s0' & Hget & Hst).
  inversion Hget; subst s0' s0; clear Hget.
  destruct (orders s !! oid) as [o|]; [|discriminate].
  cbv zeta in Hst.
  destruct (negb _); [discriminate|].
  destruct (negb _); [discriminate|].
  apply bind_ok in Hst. destruct Hst as (sps & s1 & _ & Hst).
  apply bind_ok in Hst. destruct Hst as (o' & s2 & _ & Hst).
  apply bind_ok in Hst. destruct Hst as ([] & s3 & Hmod & Hst).
  inversion Hmod; subst s3; clear Hmod.
  inversion Hst; subst s'; clear Hst.
  exists o'. split.
  - cbn. apply lookup_insert.
  - cbn. apply in_sched_insert.
Qed.
Print Assumptions ready_schedules_timeout.

(** * 4. C12: a fully stored order is left alone by the timeout mechanism *)
Lemma state_eta_shards s : s <| shards := shards s |> = s.
Proof. destruct s; reflexivity. Qed.

Lemma present_all_completed s (l : list Z) :
  (forall id, In id l -> exists sh, shards s !! id = Some sh /\ sh_status sh = ShardCompleted) ->
  let present := omap (fun id => match shards s !! id with Some sh => Some (id, sh) | None => None end) l in
  filter (fun x : Z * Shard => sh_status x.2 =? ShardWaiting) present = [] /\
  filter (fun x : Z * Shard => negb (sh_status x.2 =? ShardCompleted)) present = [].
Proof.
  induction l as [|id r IH]; intros H; simpl.
  - split; reflexivity.
  - destruct (H id (or_introl eq_refl)) as (sh & Hsh & Hst). rewrite Hsh.
    destruct IH as [IH1 IH2]; [intros y Hy; apply H; right; exact Hy|].
    split.
    + rewrite filter_cons_False; [exact IH1|]. simpl. rewrite Hst. vm_compute. tauto.
    + rewrite filter_cons_False; [exact IH2|]. simpl. rewrite Hst. vm_compute. tauto.
Qed.

Theorem timeout_ignores_fully_stored : forall cx oid s o, orders s !! oid = Some o -> o_status o = OrderCompleted ->
  (forall id, In id (o_shards o) -> exists sh, shards s !! id = Some sh /\ sh_status sh = ShardCompleted) ->
  handle_timeout_order cx oid s = Ok tt s.
Proof.
  intros cx oid s o Ho Hst Hall.
  unfold handle_timeout_order, bind at 1, get. rewrite Ho, Hst. simpl (OrderCompleted =? OrderPending).
  cbv iota.
  destruct (_ <=? _); [reflexivity|].
  destruct (present_all_completed s (o_shards o) Hall) as [E1 E2].
  cbv zeta. rewrite E1, E2. simpl.
  unfold bind, remove_shards, modify, ret. simpl. rewrite state_eta_shards. reflexivity.
Qed.
Print Assumptions timeout_ignores_fully_stored.

(** * 5. C12: the two known defects of the timeout field *)
(* a negative timeout is stored as 2^64 - 1 and the first check is scheduled in the past *)
Theorem negative_timeout_refuted : u64 (-1) = two64 - 1 /\ forall h, 0 < h < two63 -> u64 (h + u64 (-1)) = h - 1.
Proof.
  split; [reflexivity|].
  intros h Hh. change (u64 (-1)) with (two64 - 1). unfold u64, two64, two63 in *.
  symmetry. apply (Z.mod_unique _ _ 1); lia.
Qed.
Print Assumptions negative_timeout_refuted.

Definition wit_cx (h : Z) : Ctx := {| cx_height := h; cx_chain := ""; cx_time := 0; cx_seed := 0 |}.
Definition wit_params : NParams := mkNParams 0 0 0 0 1 0 "" 0 0 0 0.
Definition wit_state (os : list (Z * Order)) (ss : list (Z * Shard)) : State :=
  mkState did_empty ∅ ∅ ∅ None None ∅ ∅ ∅ wit_params (list_to_map os) 1 (list_to_map ss) 1 ∅ ∅ ∅ ∅ ∅ ∅ ∅ 0 ∅ ∅ 0.
Definition wit_order (status created duration timeout : Z) : Order :=
  mkOrder "c" "did:key:o" "p" "cid" duration status 1 [0] 1 1 1 created timeout "data" "commit" PRICE "".
Definition wit_shard : Shard := mkShard 0 ShardWaiting 1 "cid" 0 "" "p" 0 0 [].

(* a timeout longer than the remaining lifetime: the check returns without re-scheduling
   while a shard is still waiting *)
Theorem long_timeout_refuted : exists cx oid s o, orders s !! oid = Some o /\ o_status o = OrderDataReady /\
  (exists id sh, In id (o_shards o) /\ shards s !! id = Some sh /\ sh_status sh = ShardWaiting) /\
  handle_timeout_order cx oid s = Ok tt s /\ timeouts s = ∅.
Proof.
  exists (wit_cx 2003), 0, (wit_state [(0, wit_order OrderDataReady 3 3600 2000)] [(0, wit_shard)]),
         (wit_order OrderDataReady 3 3600 2000).
  split; [vm_compute; reflexivity|]. split; [reflexivity|].
  split; [exists 0, wit_shard; split; [left; reflexivity|split; [vm_compute; reflexivity|reflexivity]]|].
  split; [vm_compute; reflexivity|reflexivity].
Qed.
Print Assumptions long_timeout_refuted.

(** * 6. C11: completion schedules the release *)
Lemma shard_by_sp_sp s o p sid sh : shard_by_sp s o p = Some (sid, sh) -> sh_sp sh = p.
Proof.
  unfold shard_by_sp. induction (o_shards o) as [|id r IH]; simpl; [discriminate|].
  destruct (shards s !! id) as [sh0|]; [|exact IH].
  destruct (String.eqb (sh_sp sh0) p) eqn:E; [|exact IH].
  simpl. intros H. inversion H; subst. apply String.eqb_eq. exact E.
Qed.

Lemma shard_by_sp_lookup s o p sid sh : shard_by_sp s o p = Some (sid, sh) -> In sid (o_shards o) /\ shards s !! sid = Some sh.
Proof.
  unfold shard_by_sp. induction (o_shards o) as [|id r IH]; simpl; [discriminate|].
  destruct (shards s !! id) as [sh0|] eqn:El; [|intros H; destruct (IH H); auto].
  destruct (String.eqb (sh_sp sh0) p) eqn:E; [|intros H; destruct (IH H); auto].
  simpl. intros H. inversion H; subst. auto.
Qed.

Lemma shard_pledge_ok id sh price s r s' : shard_pledge id sh price s = Ok r s' ->
  exists x, shards s' = <[id := sh <| sh_pledge := x |>]> (shards s) /\ expshards s' = expshards s.
Proof.
  unfold shard_pledge. intros H. apply bind_ok in H. destruct H as (s0 & s0' & Hget & H).
  inversion Hget; subst s0' s0; clear Hget.
  destruct (pledges s !! sh_sp sh) as [p|]; [|discriminate].
  destruct (pool s) as [po|]; [|discriminate].
  cbv zeta in H.
  destruct (_ <? sh_size sh); [discriminate|].
  destruct (dec_trunc _ <? 0); [discriminate|].
  apply bind_ok in H. destruct H as (u & s1 & Hm & H).
  assert (K : core s1 = core s).
  { refine (keeps_ok core _ _ _ _ _ Hm). keeps_go. }
  apply core_eq in K. destruct K as (Ksh & _ & Kex & _).
  unfold bind, modify, ret in H. inversion H; subst s' r; clear H.
  eexists. cbn. rewrite Ksh, Kex. split; reflexivity.
Qed.

Lemma complete_branch_returns cx oid o sid sh :
  returns (fun r : Shard * Order * Order =>
             sh_sp r.1.1 = sh_sp sh /\ sh_created r.1.1 = cx_height cx /\
             (sh_status sh = ShardWaiting -> sh_duration r.1.1 = o_duration o))
    (if sh_status sh =? ShardMigrating then complete_migration cx oid o sid sh
     else
       let sh1 := sh <| sh_created := cx_height cx |> <| sh_duration := o_duration o |> in
       worker_append cx o sh1 ;;;
       if negb (o_status o =? OrderCompleted) then
         update_meta cx oid o ;;;
         market_deposit o ;;;
         ret (sh1, o, o <| o_status := OrderCompleted |>)
       else ret (sh1, o, o)).
Proof.
  destruct (sh_status sh =? ShardMigrating) eqn:E.
  - apply Z.eqb_eq in E. unfold complete_migration.
    repeat returns_step. simpl. rewrite E. repeat split; try reflexivity. discriminate.
  - repeat returns_step; simpl; auto.
Qed.

Theorem complete_schedules : forall cx s c p oid cid sz ok s' d, step cx s (OComplete c p oid cid sz ok) = (s', OutTx COk d) ->
  exists sid sh', shards s' !! sid = Some sh' /\ sh_sp sh' = p /\ sh_status sh' = ShardCompleted /\ sh_created sh' = cx_height cx /\
    In sid (default [] (expshards s' !! u64 (sh_created sh' + sh_duration sh'))) /\
    (forall o sh0, orders s !! oid = Some o -> shard_by_sp s o p = Some (sid, sh0) -> sh_status sh0 = ShardWaiting -> sh_duration sh' = o_duration o).
Proof.
  intros cx s c p oid cid sz ok s' d H.
  apply (step_tx_ok _ _ _ (sao_complete cx c p oid cid sz ok)) in H; [|reflexivity].
  unfold sao_complete in H.
  destruct (sz =? 0); [discriminate|].
  apply bind_ok in H. destruct H as (s0 & s0' & Hget & H). inversion Hget; subst s0' s0; clear Hget.
  destruct (orders s !! oid) as [o|] eqn:Ho; [|discriminate].
  destruct (negb (acts_for s c p)); [discriminate|].
  destruct (shard_by_sp s o p) as [[sid sh]|] eqn:Hsp; [|discriminate].
  destruct (sh_status sh =? ShardCompleted); [discriminate|].
  destruct (negb (sh_status sh =? ShardWaiting) && negb (sh_status sh =? ShardMigrating)); [discriminate|].
  destruct (negb (sz =? sh_size sh)); [discriminate|].
  destruct (metas s !! o_data o) as [meta|]; [|discriminate].
  destruct (negb (m_status meta =? MetaNew) && _ && _); [discriminate|].
  destruct (last_order_blocks s meta); [discriminate|].
  destruct (negb ok); [discriminate|].
  apply bind_ok in H. destruct H as (r & s1 & Hr & H).
  apply complete_branch_returns in Hr. destruct r as [[sh1 ip] o']. simpl in Hr. destruct Hr as (Rsp & Rcr & Rdur).
  cbv zeta in H.
  apply bind_ok in H. destruct H as ([] & s2 & H2 & H).
  unfold set_expired_shard_block, modify in H2. inversion H2; subst s2; clear H2.
  apply bind_ok in H. destruct H as ([] & s3 & H3 & H).
  apply (keeps_ok core) in H3; [|auto with keeps]. apply core_eq in H3. destruct H3 as (K3s & _ & K3e & _).
  apply bind_ok in H. destruct H as (shp & s4 & H4 & H).
  apply shard_pledge_ok in H4. destruct H4 as (x & K4s & K4e).
  apply bind_ok in H. destruct H as ([] & s5 & H5 & H).
  destruct (o_replica o' =? 0); [discriminate|]. inversion H5; subst s5; clear H5.
  apply bind_ok in H. destruct H as ([] & s6 & H6 & H).
  destruct (_ <? 0); [discriminate|]. inversion H6; subst s6; clear H6.
  apply bind_ok in H. destruct H as (u & s7 & H7 & H).
  apply (keeps_ok core) in H7; [|apply keeps_try; auto with keeps]. apply core_eq in H7. destruct H7 as (K7s & _ & K7e & _).
  unfold modify in H. inversion H; subst s'; clear H.
  exists sid. eexists. cbn.
  rewrite K7s, K4s, K7e, K4e, K3e. cbn.
  split; [apply lookup_insert|]. cbn.
  split; [rewrite Rsp; eapply shard_by_sp_sp; exact Hsp|].
  split; [reflexivity|]. split; [exact Rcr|].
  split; [apply in_sched_insert|].
  intros o2 sh0 Ho2 Hsp2 Hw. inversion Ho2; subst o2. rewrite Hsp in Hsp2. inversion Hsp2; subst sh0.
  apply Rdur. exact Hw.
Qed.
Print Assumptions complete_schedules.

(** * 7. C11: what the expiry handler does to its shard *)
Theorem expired_shard_post : forall cx sid s s' sh o, handle_expired_shard cx sid s = Ok tt s' ->
  shards s !! sid = Some sh -> orders s !! sh_order sh = Some o ->
  match sh_renew sh with
  | [] => shards s' !! sid = None
  | ri :: rest => exists sh', shards s' !! sid = Some sh' /\ sh_order sh' = ri_order ri /\ sh_created sh' = cx_height cx /\
                    sh_duration sh' = ri_duration ri /\ sh_renew sh' = rest /\ sh_sp sh' = sh_sp sh /\ sh_pledge sh' = sh_pledge sh /\
                    In sid (default [] (expshards s' !! u64 (cx_height cx + ri_duration ri)))
  end /\
  (forall k, k <> sid -> shards s' !! k = shards s !! k) /\
  (* the order loses the shard; it disappears with its last shard *)
  match o_shards o with
  | [x] => if x =? sid then orders s' !! sh_order sh = None else orders s' !! sh_order sh = Some o
  | l => exists o', orders s' !! sh_order sh = Some o' /\ o_shards o' = remove_firstZ sid l
  end.
Proof.
  intros cx sid s s' sh o H Hsh Ho.
  unfold handle_expired_shard in H.
  apply bind_ok in H. destruct H as (s0 & s0' & Hget & H). inversion Hget; subst s0' s0; clear Hget.
  rewrite Hsh, Ho in H.
  apply bind_ok in H. destruct H as (u1 & s1 & H1 & H).
  apply (keeps_ok core) in H1; [|apply keeps_try; auto with keeps]. apply core_eq in H1.
  destruct H1 as (K1s & K1o & K1e & _).
  apply bind_ok in H. destruct H as ([] & s2 & H2 & H).
  assert (A : match sh_renew sh with
              | [] => shards s2 !! sid = None
              | ri :: rest => exists sh', shards s2 !! sid = Some sh' /\ sh_order sh' = ri_order ri /\ sh_created sh' = cx_height cx /\
                    sh_duration sh' = ri_duration ri /\ sh_renew sh' = rest /\ sh_sp sh' = sh_sp sh /\ sh_pledge sh' = sh_pledge sh /\
                    In sid (default [] (expshards s2 !! u64 (cx_height cx + ri_duration ri)))
              end /\ (forall k, k <> sid -> shards s2 !! k = shards s !! k) /\ orders s2 = orders s).
  { destruct (sh_renew sh) as [|ri rest].
    - apply bind_ok in H2. destruct H2 as (u2 & s1a & H2a & H2).
      apply (keeps_ok core) in H2a; [|apply keeps_try; auto with keeps]. apply core_eq in H2a.
      destruct H2a as (Kas & Kao & _).
      unfold modify in H2. inversion H2; subst s2; clear H2. cbn.
      rewrite Kas, K1s, Kao, K1o.
      split; [apply lookup_delete|]. split; [|reflexivity].
      intros k Hk. apply lookup_delete_ne. congruence.
    - cbv zeta in H2.
      apply bind_ok in H2. destruct H2 as ([] & s1a & H2a & H2).
      unfold set_expired_shard_block, modify in H2a. inversion H2a; subst s1a; clear H2a.
      apply bind_ok in H2. destruct H2 as ([] & s1b & H2b & H2).
      unfold modify in H2b. inversion H2b; subst s1b; clear H2b.
      apply bind_ok in H2. destruct H2 as (sg & s1c & H2c & H2).
      inversion H2c; subst s1c sg; clear H2c.
      apply bind_ok in H2. destruct H2 as (u3 & s1d & H2d & H2).
      apply (keeps_ok core) in H2d; [|apply keeps_try; auto with keeps]. apply core_eq in H2d.
      destruct H2d as (Kds & Kdo & Kde & _).
      unfold ret in H2. inversion H2; subst s2; clear H2.
      rewrite Kds, Kdo, Kde. cbn. rewrite K1s, K1o, K1e.
      split; [|split; [|reflexivity]].
      + eexists. split; [apply lookup_insert|]. cbn. repeat split; try reflexivity. apply in_sched_insert.
      + intros k Hk. apply lookup_insert_ne. congruence. }
  destruct A as (A1 & A2 & A3).
  assert (B : shards s' = shards s2 /\ expshards s' = expshards s2 /\
              match o_shards o with
              | [x] => if x =? sid then orders s' = delete (sh_order sh) (orders s2) else orders s' = orders s2
              | l => orders s' = <[sh_order sh := o <| o_shards := remove_firstZ sid l |>]> (orders s2)
              end).
  { destruct (o_shards o) as [|x [|y l]].
    - unfold modify in H. inversion H; subst s'. cbn. auto.
    - destruct (x =? sid).
      + unfold modify in H. inversion H; subst s'. cbn. auto.
      + unfold ret in H. inversion H; subst s'. auto.
    - unfold modify in H. inversion H; subst s'. cbn. auto. }
  destruct B as (B1 & B2 & B3). rewrite B1, B2.
  split; [exact A1|]. split; [exact A2|].
  destruct (o_shards o) as [|x [|y l]].
  - rewrite B3. eexists. split; [apply lookup_insert|reflexivity].
  - destruct (x =? sid); rewrite B3.
    + apply lookup_delete.
    + rewrite A3. exact Ho.
  - rewrite B3. eexists. split; [apply lookup_insert|reflexivity].
Qed.
Print Assumptions expired_shard_post.

(** * 8. C11 "not before": what the end-blocker may remove *)
Lemma keeps_shard_at_of_core {A} (m : M A) (sid : Z) : keeps core m -> keeps (fun s => shards s !! sid) m.
Proof. intros K. exact (keeps_weaken core (fun c => c.1.1.1.1.1 !! sid) m K). Qed.
Global Hint Resolve keeps_shard_at_of_core : keeps.

(* the expiry handler touches no shard but its own argument *)
Lemma handle_expired_shard_other cx x sid : x <> sid -> keeps (fun s => shards s !! sid) (handle_expired_shard cx x).
Proof.
  intros Hx. unfold handle_expired_shard. keeps_go.
  - cbn. apply lookup_delete_ne. exact Hx.
  - cbn. apply lookup_insert_ne. exact Hx.
Qed.

Lemma expired_loop_keeps cx sid l : (forall x, In x l -> x <> sid) ->
  keeps (fun s => shards s !! sid) (forM l (handle_expired_shard cx)).
Proof. intros H. apply keeps_forM. intros x Hx. apply handle_expired_shard_other. apply H. exact Hx. Qed.

Lemma keeps_at {A B} (f : State -> B) (m : M A) s : keeps f m ->
  match m s with Ok _ s' => f s' = f s | Err _ s' => f s' = f s | _ => True end.
Proof. intros K. apply K. Qed.

Lemma bind_frame {A C B} (f : State -> B) (m : M A) (k : A -> M C) s :
  match m s with
  | Ok a s1 => f s1 = f s /\ match k a s1 with Ok _ s' => f s' = f s1 | Err _ s' => f s' = f s1 | _ => True end
  | Err _ s1 => f s1 = f s
  | _ => True
  end ->
  match bind m k s with Ok _ s' => f s' = f s | Err _ s' => f s' = f s | _ => True end.
Proof.
  unfold bind. destruct (m s) as [a s1|e s1| |]; auto.
  intros [H1 H2]. destruct (k a s1); auto; congruence.
Qed.

(* the timeout phase of this height does nothing: there is no entry, or no listed order needs attention *)
Definition timeouts_idle (cx : Ctx) (s : State) : Prop :=
  forall l, timeouts s !! cx_height cx = Some l -> forM l (handle_timeout_order cx) s = Ok tt s.

Lemma end_block_sao_keeps cx sid s :
  timeouts_idle cx s -> ~ In sid (default [] (expshards s !! cx_height cx)) ->
  match end_block_sao cx s with
  | Ok _ s' => shards s' !! sid = shards s !! sid
  | Err _ s' => shards s' !! sid = shards s !! sid
  | _ => True end.
Proof.
  intros Hidle Hnot. unfold end_block_sao. unfold bind at 1. change (get s) with (Ok s s). cbv iota beta.
  apply (bind_frame (fun s0 => shards s0 !! sid)).
  assert (P2 : forall s1, expshards s1 = expshards s ->
            match (s2 <- get ;;
                   match expshards s2 !! cx_height cx with
                   | None => ret tt
                   | Some l => forM l (handle_expired_shard cx) ;;; modify (fun s => s <| expshards ::= delete (cx_height cx) |>)
                   end) s1 with
            | Ok _ s' => shards s' !! sid = shards s1 !! sid
            | Err _ s' => shards s' !! sid = shards s1 !! sid
            | _ => True end).
  { intros s1 E. unfold bind at 1. change (get s1) with (Ok s1 s1). cbv iota beta. rewrite E.
    destruct (expshards s !! cx_height cx) as [l|]; [|reflexivity].
    simpl in Hnot.
    apply (keeps_at (fun s0 => shards s0 !! sid)).
    apply keeps_bind.
    - apply expired_loop_keeps. intros x Hx ->. exact (Hnot Hx).
    - intros _. apply keeps_modify. reflexivity. }
  destruct (timeouts s !! cx_height cx) as [l|] eqn:E.
  - unfold bind at 1. rewrite (Hidle l E). unfold modify. split; [reflexivity|].
    apply P2. reflexivity.
  - unfold ret. split; [reflexivity|]. apply P2. reflexivity.
Qed.

Lemma end_block_keeps cx evs sid s :
  (forall s1, core s1 = core s -> timeouts_idle cx s1) ->
  ~ In sid (default [] (expshards s !! cx_height cx)) ->
  match end_block cx evs s with
  | Ok _ s' => shards s' !! sid = shards s !! sid
  | Err _ s' => shards s' !! sid = shards s !! sid
  | _ => True end.
Proof.
  intros Hidle Hnot. unfold end_block.
  apply (bind_frame (fun s0 => shards s0 !! sid)).
  pose proof (keeps_core_staking_tx evs s) as K1.
  destruct (staking_tx evs s) as [u s1|e s1| |]; auto.
  - pose proof (core_eq _ _ K1) as (Ks & _ & Ke & _).
    split; [rewrite Ks; reflexivity|].
    apply (bind_frame (fun s0 => shards s0 !! sid)).
    pose proof (end_block_sao_keeps cx sid s1 (Hidle s1 K1)) as K2.
    rewrite Ke in K2. specialize (K2 Hnot).
    destruct (end_block_sao cx s1) as [u2 s2|e2 s2| |]; auto.
    split; [exact K2|].
    apply (keeps_at (fun s0 => shards s0 !! sid)).
    apply keeps_shard_at_of_core. apply keeps_bind; [auto with keeps|]. intros _. auto with keeps.
  - apply core_eq in K1. destruct K1 as (Ks & _). rewrite Ks. reflexivity.
Qed.

Lemma end_block_removed cx evs s sid sh :
  shards s !! sid = Some sh -> shards (fst (step cx s (OEndBlock evs))) !! sid = None ->
  match end_block cx evs s with
  | Ok _ s' => shards s' !! sid = shards s !! sid
  | Err _ s' => shards s' !! sid = shards s !! sid
  | _ => True end -> False.
Proof.
  intros Hsh Hrem. unfold step, block_phase in Hrem.
  destruct (end_block cx evs s) as [u s1|e s1| |]; simpl in Hrem; intros K; congruence.
Qed.

(* "not before": the end-blocker removes a completed shard only if it is scheduled at this
   very height, or an order is being checked for timeout at this height *)
Theorem end_block_releases_only_scheduled : forall cx s evs sid sh,
  shards s !! sid = Some sh -> sh_status sh = ShardCompleted -> shards (fst (step cx s (OEndBlock evs))) !! sid = None ->
  In sid (default [] (expshards s !! cx_height cx)) \/
  (exists oid, In oid (default [] (timeouts s !! cx_height cx))).
Proof.
  intros cx s evs sid sh Hsh _ Hrem.
  destruct (In_dec Z.eq_dec sid (default [] (expshards s !! cx_height cx))) as [Hin|Hnot]; [left; exact Hin|].
  destruct (timeouts s !! cx_height cx) as [[|oid l]|] eqn:E.
  - exfalso. apply (end_block_removed cx evs s sid sh Hsh Hrem). apply end_block_keeps; [|exact Hnot].
    intros s1 K l Hl. apply core_eq in K. destruct K as (_ & _ & _ & Kt & _). rewrite Kt, E in Hl.
    inversion Hl; subst l. reflexivity.
  - right. exists oid. left. reflexivity.
  - exfalso. apply (end_block_removed cx evs s sid sh Hsh Hrem). apply end_block_keeps; [|exact Hnot].
    intros s1 K l Hl. apply core_eq in K. destruct K as (_ & _ & _ & Kt & _). rewrite Kt, E in Hl. discriminate.
Qed.
Print Assumptions end_block_releases_only_scheduled.

(* stronger: the right alternative needs an order under check that is not fully stored; stated
   contrapositively (no classical logic): if every order checked at this height is fully
   stored (or gone), only the shards scheduled for this very height can be removed *)
Definition fully_stored (s : State) (oid : Z) : Prop :=
  orders s !! oid = None \/
  exists o, orders s !! oid = Some o /\ o_status o = OrderCompleted /\
            forall id, In id (o_shards o) -> exists sh, shards s !! id = Some sh /\ sh_status sh = ShardCompleted.

Lemma timeout_loop_fully_stored cx s l :
  (forall oid, In oid l -> fully_stored s oid) -> forM l (handle_timeout_order cx) s = Ok tt s.
Proof.
  induction l as [|oid r IH]; intros H; [reflexivity|].
  simpl. unfold bind.
  assert (E : handle_timeout_order cx oid s = Ok tt s).
  { destruct (H oid (or_introl eq_refl)) as [Hn|(o & Ho & Hst & Hall)].
    - unfold handle_timeout_order, bind, get. rewrite Hn. reflexivity.
    - eapply timeout_ignores_fully_stored; eassumption. }
  rewrite E. apply IH. intros y Hy. apply H. right. exact Hy.
Qed.

Theorem end_block_releases_only_scheduled_strong : forall cx s evs sid sh,
  (forall oid, In oid (default [] (timeouts s !! cx_height cx)) -> fully_stored s oid) ->
  shards s !! sid = Some sh -> shards (fst (step cx s (OEndBlock evs))) !! sid = None ->
  In sid (default [] (expshards s !! cx_height cx)).
Proof.
  intros cx s evs sid sh Hfs Hsh Hrem.
  destruct (In_dec Z.eq_dec sid (default [] (expshards s !! cx_height cx))) as [Hin|Hnot]; [exact Hin|].
  exfalso. apply (end_block_removed cx evs s sid sh Hsh Hrem). apply end_block_keeps; [|exact Hnot].
  intros s1 K l Hl. apply core_eq in K. destruct K as (Ks & Ko & _ & Kt & _).
  apply timeout_loop_fully_stored. intros oid Hoid.
  rewrite Kt in Hl. rewrite Hl in Hfs. specialize (Hfs oid Hoid).
  unfold fully_stored. rewrite Ks, Ko. exact Hfs.
Qed.
Print Assumptions end_block_releases_only_scheduled_strong.

(** * 9. C12: one step of the timeout check *)
Definition noerr {A} (m : M A) : Prop := forall s e s', m s <> Err e s'.
Lemma noerr_ret {A} (a : A) : noerr (ret a). Proof. intros s e s' H. discriminate. Qed.
Lemma noerr_panic {A} e : noerr (@panic A e). Proof. intros s e' s' H. discriminate. Qed.
Lemma noerr_get : noerr get. Proof. intros s e s' H. discriminate. Qed.
Lemma noerr_modify g : noerr (modify g). Proof. intros s e s' H. discriminate. Qed.
Lemma noerr_bind {A C} (m : M A) (k : A -> M C) : noerr m -> (forall a, noerr (k a)) -> noerr (bind m k).
Proof.
  intros Hm Hk s e s' H. unfold bind in H. destruct (m s) as [a s1|e1 s1| |] eqn:E; try discriminate.
  - exact (Hk a s1 e s' H).
  - exact (Hm s e1 s1 E).
Qed.
Ltac noerr_step :=
  cbv beta zeta;
  lazymatch goal with
  | |- noerr (bind _ _) => apply noerr_bind; [|intro]
  | |- noerr (ret _) => apply noerr_ret
  | |- noerr (panic _) => apply noerr_panic
  | |- noerr get => apply noerr_get
  | |- noerr (modify _) => apply noerr_modify
  | |- noerr (match ?x with _ => _ end) => destruct x
  | |- noerr ?m => let h := head_of m in unfold h
  end.

Lemma noerr_rollback_meta cx d : noerr (rollback_meta cx d).
Proof. unfold rollback_meta. repeat noerr_step. Qed.

Lemma refund_order_err oid s e s' : refund_order oid s = Err e s' -> s' = s.
Proof.
  unfold refund_order, bind, get. destruct (orders s !! oid) as [o|]; [|intros H; inversion H; reflexivity].
  cbv zeta. destruct (pay_addr s _) as [payer|]; [|intros H; inversion H; reflexivity].
  unfold send_strict. destruct (_ <=? 0); [intros H; inversion H; reflexivity|].
  destruct (_ <? _); intros H; inversion H; reflexivity.
Qed.

(* the only way [cancel_order] fails: the refund fails; nothing is written *)
Lemma cancel_order_err cx oid s e s' : cancel_order cx oid s = Err e s' ->
  e = "RefundOrder" /\ s' = s /\ exists e', refund_order oid s = Err e' s.
Proof.
  unfold cancel_order. unfold bind at 1. change (get s) with (Ok s s). cbv iota beta zeta.
  unfold bind at 1, try_. destruct (refund_order oid s) as [u s1|e1 s1| |] eqn:E; try discriminate.
  - intros H. exfalso. revert H. apply noerr_bind; [apply noerr_rollback_meta|]. intros _. apply noerr_modify.
  - pose proof (refund_order_err _ _ _ _ E) as Es. subst s1. intros H. inversion H; subst. eauto.
Qed.

Lemma cancel_order_ok cx oid s s' : cancel_order cx oid s = Ok tt s' -> orders s' !! oid = None.
Proof.
  unfold cancel_order. intros H.
  apply bind_ok in H. destruct H as (s0 & s0' & Hget & H). inversion Hget; subst s0' s0; clear Hget.
  cbv zeta in H. apply bind_ok in H. destruct H as (r & s1 & _ & H).
  destruct r; [|discriminate].
  apply bind_ok in H. destruct H as (u1 & s2 & _ & H).
  unfold modify in H. inversion H; subst s'. cbn. apply lookup_delete.
Qed.

Lemma remove_all_lookup (l : list Z) : forall (m : gmap Z Shard) id, In id l ->
  fold_left (fun m id => delete id m) l m !! id = None.
Proof.
  induction l as [|x r IH]; intros m id Hin; [destruct Hin|].
  simpl. destruct (In_dec Z.eq_dec id r) as [Hr|Hr].
  - apply IH. exact Hr.
  - destruct Hin as [->|Hin]; [|contradiction].
    clear IH. revert m. induction r as [|y r IH]; intros m; simpl.
    + apply lookup_delete.
    + rewrite delete_commute. apply IH. intros Hy. apply Hr. right. exact Hy.
Qed.

Lemma i32_sub_ne r t : 0 < t < two32 -> i32 (r - i32 t) <> r.
Proof.
  intros Ht. unfold i32.
  assert (Et : t mod two32 = t) by (apply Z.mod_small; lia). rewrite Et. cbv zeta.
  destruct (Z.ltb_spec t two31) as [L1|L1];
  match goal with |- (if ?a <? ?b then _ else _) <> _ => destruct (Z.ltb_spec a b) as [L2|L2] end;
  unfold two32, two31 in *; Z.div_mod_to_equations; lia.
Qed.

(* the check gave up on the order, but the refund to the payer fails: the order record stays
   (unchanged, not re-scheduled) while all its shards have been removed *)
Definition cancel_stuck (oid : Z) (o : Order) (s s' : State) : Prop :=
  o_status o <> OrderCompleted /\ (exists e, refund_order oid s' = Err e s') /\
  orders s' !! oid = Some o /\ (forall id, In id (o_shards o) -> shards s' !! id = None) /\
  timeouts s' = timeouts s.

Theorem timeout_progress_step_partial : forall cx oid s s' o, handle_timeout_order cx oid s = Ok tt s' -> orders s !! oid = Some o ->
  o_status o <> OrderPending -> u64 (cx_height cx + o_timeout o) < u64 (o_created o + o_duration o) ->
  (exists id sh, In id (o_shards o) /\ shards s !! id = Some sh /\ sh_status sh = ShardWaiting) ->
  Z.of_nat (length (o_shards o)) < two32 ->
  In oid (default [] (timeouts s' !! u64 (cx_height cx + o_timeout o))) \/
  orders s' !! oid = None \/
  (exists o', orders s' !! oid = Some o' /\ o_replica o' <> o_replica o) \/
  cancel_stuck oid o s s'.
Proof.
  intros cx oid s s' o H Ho Hnp Hlt (id & sh & Hid & Hsh & Hw) Hlen.
  unfold handle_timeout_order in H.
  apply bind_ok in H. destruct H as (s0 & s0' & Hget & H). inversion Hget; subst s0' s0; clear Hget.
  rewrite Ho in H.
  destruct (o_status o =? OrderPending) eqn:E1; [apply Z.eqb_eq in E1; contradiction|].
  destruct (_ <=? _) eqn:E2; [apply Z.leb_le in E2; lia|].
  cbv zeta in H.
  set (present := omap _ (o_shards o)) in H.
  set (tshards := filter _ present) in H.
  set (tcount := Z.of_nat (length tshards)) in H.
  assert (Hin : (id, sh) ∈ tshards).
  { apply elem_of_list_filter. split; [simpl; rewrite Hw; exact I|].
    apply elem_of_list_omap. exists id. split; [apply elem_of_list_In; exact Hid|]. rewrite Hsh. reflexivity. }
  assert (Htc : 0 < tcount < two32).
  { unfold tcount. split.
    - destruct tshards; [inversion Hin|]. simpl length. lia.
    - pose proof (filter_length (fun x : Z * Shard => sh_status x.2 =? ShardWaiting) present) as L1.
      fold tshards in L1.
      pose proof (omap_length_le (fun id => match shards s !! id with Some sh => Some (id, sh) | None => None end) (o_shards o)) as L2.
      fold present in L2. lia. }
  destruct (tcount =? 0) eqn:E3; [apply Z.eqb_eq in E3; lia|].
  apply bind_ok in H. destruct H as (rand & s1 & Hr & H).
  apply (keeps_ok core) in Hr; [|auto with keeps]. apply core_eq in Hr. destruct Hr as (K1s & K1o & _ & K1t & _).
  destruct rand as [|r0 rand].
  - destruct (_ <? _).
    + destruct (negb (o_status o =? OrderCompleted)) eqn:E4.
      * apply bind_ok in H. destruct H as ([] & s2 & H2 & H).
        unfold remove_shards, modify in H2. inversion H2; subst s2; clear H2.
        apply bind_ok in H. destruct H as (r & s3 & H3 & H).
        unfold ret in H. inversion H; subst s3; clear H.
        apply try_ok in H3. destruct H3 as [(a & _ & H3)|(e & _ & H3)].
        -- right. left. destruct a. apply cancel_order_ok in H3. exact H3.
        -- right. right. right.
           apply cancel_order_err in H3. destruct H3 as (_ & -> & e' & H3).
           split; [intros Hc; rewrite Hc in E4; discriminate|].
           split; [exists e'; exact H3|]. cbn.
           split; [rewrite K1o; exact Ho|]. split; [|exact K1t].
           intros i Hi. apply remove_all_lookup. exact Hi.
      * right. right. left.
        apply bind_ok in H. destruct H as ([] & s2 & _ & H).
        cbv zeta in H.
        destruct (dec_trunc _ <? 0); [discriminate|].
        apply bind_ok in H. destruct H as (o2 & s3 & H3 & H).
        assert (R : o_replica o2 = i32 (o_replica o - i32 tcount)).
        { match type of H3 with ?m _ = _ =>
            assert (R : returns (fun o2 => o_replica o2 = i32 (o_replica o - i32 tcount)) m)
          end.
          { repeat returns_step; reflexivity. }
          exact (R _ _ _ H3). }
        unfold modify in H. inversion H; subst s'. cbn.
        exists o2. split; [apply lookup_insert|]. rewrite R. apply i32_sub_ne. exact Htc.
    + left. unfold set_timeout_block, modify in H. inversion H; subst s'. cbn. rewrite K1t. apply in_sched_insert.
  - left.
    apply bind_ok in H. destruct H as (o' & s2 & H2 & H).
    apply bind_ok in H. destruct H as ([] & s3 & H3 & H).
    unfold set_timeout_block, modify in H. inversion H; subst s'. cbn. apply in_sched_insert.
Qed.
Print Assumptions timeout_progress_step_partial.

(* the statement without the fourth alternative is false: no provider is available, the tries
   are exhausted, the owner has no payment address -- the order stays, unscheduled, its shards gone *)
Definition stuck_state : State := wit_state [(0, wit_order OrderDataReady 3 3600 10)] [(0, wit_shard)].
Definition stuck_state' : State :=
  match handle_timeout_order (wit_cx 200) 0 stuck_state with Ok _ s' => s' | _ => stuck_state end.

Theorem timeout_progress_step_refuted : exists cx oid s s' o,
  handle_timeout_order cx oid s = Ok tt s' /\ orders s !! oid = Some o /\
  o_status o <> OrderPending /\ u64 (cx_height cx + o_timeout o) < u64 (o_created o + o_duration o) /\
  (exists id sh, In id (o_shards o) /\ shards s !! id = Some sh /\ sh_status sh = ShardWaiting) /\
  Z.of_nat (length (o_shards o)) < two32 /\
  ~ (In oid (default [] (timeouts s' !! u64 (cx_height cx + o_timeout o))) \/
     orders s' !! oid = None \/
     (exists o', orders s' !! oid = Some o' /\ o_replica o' <> o_replica o)) /\
  cancel_stuck oid o s s'.
Proof.
  exists (wit_cx 200), 0, stuck_state, stuck_state', (wit_order OrderDataReady 3 3600 10).
  split; [vm_compute; reflexivity|].
  split; [vm_compute; reflexivity|].
  split; [discriminate|].
  split; [vm_compute; reflexivity|].
  split; [exists 0, wit_shard; split; [left; reflexivity|split; [vm_compute; reflexivity|reflexivity]]|].
  split; [vm_compute; reflexivity|].
  split.
  - intros [H|[H|(o' & H1 & H2)]].
    + vm_compute in H. exact H.
    + vm_compute in H. discriminate.
    + vm_compute in H1. inversion H1; subst o'. apply H2. reflexivity.
  - split; [discriminate|].
    split; [eexists; vm_compute; reflexivity|].
    split; [vm_compute; reflexivity|].
    split; [|reflexivity].
    intros id [<-|[]]. vm_compute. reflexivity.
Qed.
Print Assumptions timeout_progress_step_refuted.

(** * 10. C13: the links created by Store *)
Lemma returns_bind_strong {A C} (P : A -> Prop) (Q : C -> Prop) (m : M A) (k : A -> M C) :
  returns P m -> (forall a, P a -> returns Q (k a)) -> returns Q (bind m k).
Proof.
  intros Hm H s c s' E. apply bind_ok in E. destruct E as (a & s1 & Ea & E).
  exact (H a (Hm _ _ _ Ea) s1 c s' E).
Qed.

(* [random_sp_spec] without its (unused) hypothesis on the seed *)
Lemma random_sp_length nodes pledges round0 seed count ignore size sps r :
  random_sp nodes pledges round0 seed count ignore size = SelOk (sps, r) ->
  Z.of_nat (length sps) <= Z.max 0 count.
Proof.
  intros Hres. rewrite random_sp_unfold in Hres.
  destruct (next_super nodes pledges round0 ignore size) as [sup| |] eqn:Hns;
    [|discriminate|discriminate].
  destruct sup as [[c0 r0]|].
  - apply next_super_spec in Hns. destruct Hns as (Hin & Hign & Hel & _).
    apply elem_of_list_In in Hin. apply super_cands_elem in Hin. destruct Hin as (Hall & Hrole).
    eapply sp_tail_spec; [| | |exact Hres].
    + reflexivity.
    + cbn. apply NoDup_singleton.
    + intros c Hc. apply elem_of_list_singleton in Hc. subst c.
      split; [exact Hall|]. split; [exact Hrole|]. split; [exact Hel|exact Hign].
  - eapply sp_tail_spec; [| | |exact Hres].
    + reflexivity.
    + cbn. apply NoDup_nil_2.
    + intros c Hc. apply elem_of_nil in Hc. contradiction.
Qed.

Lemma random_sp_m_length cx count ig sz :
  returns (fun l : list string => Z.of_nat (length l) <= Z.max 0 count) (random_sp_m cx count ig sz).
Proof.
  unfold random_sp_m. intros s l s' H.
  apply bind_ok in H. destruct H as (s0 & s0' & Hget & H). inversion Hget; subst s0' s0; clear Hget.
  destruct (random_sp _ _ _ _ _ _ _) as [[sps r]| |] eqn:E; try discriminate.
  apply random_sp_length in E.
  apply bind_ok in H. destruct H as (u & s1 & _ & H). inversion H; subst. rewrite map_length. exact E.
Qed.

Lemma get_sps_length cx o data :
  returns (fun l : list string => Z.of_nat (length l) <= o_replica o) (get_sps cx o data).
Proof.
  unfold get_sps. destruct (o_op o =? 1).
  - eapply returns_bind_strong; [apply random_sp_m_length|]. intros sps Hl. cbv beta in Hl |- *.
    destruct (o_replica o <=? 0) eqn:E1; [apply returns_fail|]. simpl.
    destruct (_ <? _); [apply returns_fail|]. apply returns_ret. apply Z.leb_gt in E1. lia.
  - destruct (o_op o =? 2); [|apply returns_fail].
    destruct (o_replica o <=? 0) eqn:E1; [apply returns_fail|]. apply Z.leb_gt in E1.
    apply returns_bind. intros s. cbv zeta.
    set (cur := find_sp_by_data s data).
    eapply (returns_bind_strong (fun l : list string => Z.of_nat (length l) <= o_replica o)).
    + destruct (o_replica o <? Z.of_nat (length cur)) eqn:E2.
      * apply returns_ret. rewrite take_length. lia.
      * apply Z.ltb_ge in E2. destruct (Z.of_nat (length cur) <? o_replica o) eqn:E3.
        -- eapply returns_bind_strong; [apply random_sp_m_length|]. intros add Hadd. cbv beta in Hadd |- *.
           apply returns_ret. rewrite app_length. lia.
        -- apply returns_ret. exact E2.
    + intros sps Hl. cbv beta in Hl |- *. destruct (_ <? _); [apply returns_fail|]. apply returns_ret. exact Hl.
Qed.

Lemma keeps_core_get_sps cx o data : keeps core (get_sps cx o data).
Proof. unfold get_sps. keeps_go. Qed.

Lemma gen_shards_ok oid : forall sps o s o' s', gen_shards oid o sps s = Ok o' s' ->
  0 <= shard_count s -> shard_count s + Z.of_nat (length sps) < two64 ->
  o_data o' = o_data o /\
  exists ids, o_shards o' = o_shards o ++ ids /\ NoDup ids /\
    (forall i, In i ids -> shard_count s <= i /\
                           exists sh, shards s' !! i = Some sh /\ sh_order sh = oid /\ sh_status sh = ShardWaiting) /\
    (forall i, i < shard_count s -> shards s' !! i = shards s !! i).
Proof.
  induction sps as [|sp r IH]; intros o s o' s' H H0 Hb.
  - simpl in H. inversion H; subst. split; [reflexivity|]. exists []. rewrite app_nil_r.
    split; [reflexivity|]. split; [apply NoDup_nil_2|]. split; [intros i []|]. reflexivity.
  - simpl in H. apply bind_ok in H. destruct H as (id & s1 & H1 & H).
    unfold new_shard_task, append_shard, bind, get, modify, ret in H1. inversion H1; subst id s1; clear H1.
    simpl length in Hb.
    assert (Eu : u64 (shard_count s + 1) = shard_count s + 1) by (apply u64_id; lia).
    apply IH in H; cbn; rewrite ?Eu; try lia.
    destruct H as (Hd & ids & Hsh & Hnd & Hin & Hlow). cbn in *. rewrite Eu in *.
    split; [exact Hd|].
    exists (shard_count s :: ids). split; [rewrite Hsh, <- app_assoc; reflexivity|].
    split.
    { apply NoDup_cons_2; [|exact Hnd]. intros Hx. apply elem_of_list_In in Hx. apply Hin in Hx. lia. }
    split.
    + intros i [<-|Hi].
      * split; [lia|]. rewrite Hlow by lia. rewrite lookup_insert. eexists. split; [reflexivity|]. split; reflexivity.
      * destruct (Hin i Hi) as (Hge & Hx). split; [lia|exact Hx].
    + intros i Hi. rewrite Hlow by lia. apply lookup_insert_ne. lia.
Qed.

Lemma new_order_ok cx o sps s id o2 s' : new_order cx o sps s = Ok (id, o2) s' ->
  0 <= shard_count s -> shard_count s + Z.of_nat (length sps) < two64 -> o_shards o = [] ->
  id = order_count s /\ orders s' !! id = Some o2 /\ o_data o2 = o_data o /\ NoDup (o_shards o2) /\
  metas s' = metas s /\
  (forall i, In i (o_shards o2) -> shard_count s <= i /\
                                   exists sh, shards s' !! i = Some sh /\ sh_order sh = id /\ sh_status sh = ShardWaiting).
Proof.
  intros H H0 Hb He. unfold new_order in H.
  apply bind_ok in H. destruct H as (id0 & s1 & H1 & H).
  unfold append_order, bind, get, modify, ret in H1. inversion H1; subst id0 s1; clear H1.
  apply bind_ok in H. destruct H as (o1 & s2 & H2 & H).
  apply bind_ok in H. destruct H as ([] & s3 & H3 & H).
  unfold modify in H3. inversion H3; subst s3; clear H3.
  unfold ret in H. inversion H; subst id o2 s'; clear H.
  assert (G : o_data o1 = o_data o /\ metas s2 = metas s /\ NoDup (o_shards o1) /\
              forall i, In i (o_shards o1) -> shard_count s <= i /\
                 exists sh, shards s2 !! i = Some sh /\ sh_order sh = order_count s /\ sh_status sh = ShardWaiting).
  { unfold generate_shards in H2. destruct sps as [|sp r].
    - inversion H2; subst. rewrite He. split; [reflexivity|]. split; [reflexivity|]. split; [apply NoDup_nil_2|]. intros i [].
    - apply bind_ok in H2. destruct H2 as (o' & s2' & H2 & H2r). inversion H2r; subst o1 s2'; clear H2r.
      assert (Km : metas s2 = metas s).
      { assert (K : forall l o0, keeps metas (gen_shards (order_count s) o0 l)).
        { induction l as [|x l IHl]; intros o0; simpl; [apply keeps_ret|].
          apply keeps_bind; [unfold new_shard_task, append_shard; keeps_go|]. intros a. apply IHl. }
        exact (keeps_ok metas _ _ _ _ (K _ _) H2). }
      apply gen_shards_ok in H2; [|exact H0|exact Hb].
      destruct H2 as (Hd & ids & Hsh & Hnd & Hin & _). rewrite He in Hsh. simpl in Hsh. cbn.
      split; [exact Hd|]. split; [exact Km|]. rewrite Hsh. split; [exact Hnd|]. exact Hin. }
  destruct G as (Gd & Gm & Gn & Gi). cbn.
  split; [reflexivity|]. split; [apply lookup_insert|]. split; [exact Gd|]. split; [exact Gn|].
  split; [exact Gm|exact Gi].
Qed.

Lemma keeps_core_umsc cx oid o : keeps core (update_meta_status_commit cx oid o).
Proof. unfold update_meta_status_commit. keeps_go. Qed.
Lemma keeps_core_new_meta cx o d nm : keeps core (new_meta cx o d nm).
Proof. unfold new_meta. keeps_go. Qed.

Lemma umsc_ok cx oid o s s' : update_meta_status_commit cx oid o s = Ok tt s' ->
  exists em, metas s' !! o_data o = Some em /\ m_order em = oid.
Proof.
  unfold update_meta_status_commit. intros H.
  apply bind_ok in H. destruct H as (s0 & s0' & Hget & H). inversion Hget; subst s0' s0; clear Hget.
  destruct (metas s !! o_data o) as [m|]; [|discriminate].
  destruct (negb _); [discriminate|]. cbv zeta in H.
  destruct (_ <? cx_height cx); [discriminate|].
  apply bind_ok in H. destruct H as (m1 & s1 & _ & H).
  unfold modify in H. inversion H; subst s'. cbn. eexists. split; [apply lookup_insert|reflexivity].
Qed.

Lemma new_meta_ok cx o d nm s s' : new_meta cx o d nm s = Ok tt s' -> metas s' !! d = Some nm.
Proof.
  unfold new_meta. intros H.
  apply bind_ok in H. destruct H as (s0 & s0' & Hget & H). inversion Hget; subst s0' s0; clear Hget.
  destruct (negb _); [discriminate|].
  destruct (bool_decide _); [discriminate|].
  destruct (bool_decide _); [discriminate|].
  apply bind_ok in H. destruct H as ([] & s1 & H1 & H).
  unfold modify in H1. inversion H1; subst s1; clear H1.
  unfold set_data_expire, modify in H. inversion H; subst s'. cbn. apply lookup_insert.
Qed.

(* needs: the id counters bound the stored ids ([Inv_ids]), the counters are far from the
   uint64 wrap ([counts_small]), and the replica count fits the int32 of the Go message
   (stated generously as < 2^63) *)
Theorem store_links : forall cx s m s' d, step cx s (OStore m) = (s', OutTx COk d) ->
  Inv_ids s -> counts_small s -> st_replica m < two63 ->
  exists oid o, oid = order_count s /\ orders s' !! oid = Some o /\
    (forall id, In id (o_shards o) -> exists sh, shards s' !! id = Some sh /\ sh_order sh = oid /\ sh_status sh = ShardWaiting /\ shards s !! id = None) /\
    NoDup (o_shards o) /\
    exists em, metas s' !! st_data m = Some em /\ m_order em = oid.
Proof.
  intros cx s m s' d H (_ & Hids) (_ & Hsc) Hrep.
  apply (step_tx_ok _ _ _ (sao_store cx m)) in H; [|reflexivity].
  unfold sao_store in H.
  apply bind_ok in H. destruct H as (s0 & s0' & Hget & H). inversion Hget; subst s0' s0; clear Hget.
  destruct (verify_sig s (st_owner m) (st_sig m)) as [sigdid|]; [|discriminate].
  destruct (String.eqb (st_commit m) ""); [discriminate|].
  destruct (String.eqb (st_data m) ""); [discriminate|].
  destruct ((st_op m <? 1) || (2 <? st_op m)); [discriminate|].
  destruct (st_duration m <? 3600); [discriminate|].
  destruct (negb (st_cid_ok m)); [discriminate|].
  cbv zeta in H.
  match type of H with (if ?b then _ else _) _ = _ => destruct b; [discriminate|] end.
  match type of H with (if ?b then _ else _) _ = _ => destruct b; [discriminate|] end.
  apply bind_ok in H. destruct H as (pay0 & sa & Ha & H).
  apply (keeps_ok core) in Ha; [|keeps_go].
  destruct (nodes s !! st_pprovider m); [|discriminate].
  destruct (split_commit (st_commit m)) as [last_commit commit].
  destruct (st_timeout m =? 0); [discriminate|].
  apply bind_ok in H. destruct H as (isp & sb & Hb & H).
  apply (keeps_ok core) in Hb; [|keeps_go].
  apply bind_ok in H. destruct H as (sps & sc & Hc & H).
  assert (Hlen : Z.of_nat (length sps) <= Z.max 0 (st_replica m)).
  { destruct isp.
    - apply get_sps_length in Hc. simpl in Hc. lia.
    - inversion Hc; subst. simpl. lia. }
  apply (keeps_ok core) in Hc; [|destruct isp; [apply keeps_core_get_sps|apply keeps_ret]].
  destruct (_ <? 0); [discriminate|].
  apply bind_ok in H. destruct H as (s1 & s1' & Hget & H). inversion Hget; subst s1' s1; clear Hget.
  apply bind_ok in H. destruct H as (payer & sd & Hd & H).
  apply (keeps_ok core) in Hd; [|keeps_go].
  destruct (balance sc payer <? _); [discriminate|].
  apply bind_ok in H. destruct H as ([] & se & He & H).
  apply (keeps_ok core) in He; [|keeps_go].
  apply bind_ok in H. destruct H as ([oid o2] & sf & Hf & H).
  assert (Kc : core se = core s) by congruence.
  apply core_eq in Kc. destruct Kc as (Ks & Ko & _ & _ & Koc & Ksc).
  apply new_order_ok in Hf; [| rewrite Ksc; lia | rewrite Ksc; unfold two64, two63 in *; lia | reflexivity].
  destruct Hf as (Fid & Fo & Fd & Fn & _ & Fi). cbn in Fd.
  apply bind_ok in H. destruct H as ([] & sg & Hg & H).
  assert (Kg : shards sg = shards sf /\ orders sg = orders sf).
  { destruct isp; [unfold set_timeout_block, modify in Hg|unfold ret in Hg]; inversion Hg; subst sg; split; reflexivity. }
  destruct Kg as (Kgs & Kgo).
  apply bind_ok in H. destruct H as (s2 & s2' & Hget & H). inversion Hget; subst s2' s2; clear Hget.
  assert (T : core s' = core sg /\ exists em, metas s' !! st_data m = Some em /\ m_order em = oid).
  { destruct (metas sg !! st_data m) as [em|].
    - destruct (oid <? m_order em); [discriminate|].
      destruct (orders sg !! m_order em) as [lo|]; [|discriminate].
      destruct (negb (o_status lo =? OrderCompleted)); [discriminate|].
      destruct (negb (str_contains _ _)); [discriminate|].
      split; [exact (keeps_ok core _ _ _ _ (keeps_core_umsc _ _ _) H)|].
      apply umsc_ok in H. rewrite Fd in H. exact H.
    - split; [exact (keeps_ok core _ _ _ _ (keeps_core_new_meta _ _ _ _) H)|].
      apply new_meta_ok in H. eexists. split; [exact H|reflexivity]. }
  destruct T as (Tc & Tm). apply core_eq in Tc. destruct Tc as (Ts & To & _).
  exists oid, o2.
  split; [rewrite Fid; exact Koc|].
  split; [rewrite To, Kgo; exact Fo|].
  split.
  - intros id Hid. destruct (Fi id Hid) as (Hge & sh & Hsh & Hso & Hss).
    exists sh. rewrite Ts, Kgs. split; [exact Hsh|]. split; [exact Hso|]. split; [exact Hss|].
    destruct (shards s !! id) as [sh0|] eqn:E; [|reflexivity].
    apply Hids in E. rewrite Ksc in Hge. lia.
  - split; [exact Fn|exact Tm].
Qed.
Print Assumptions store_links.
