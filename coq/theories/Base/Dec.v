(* sdk.Dec (cosmos-sdk v0.46.2 types/decimal.go): a big integer scaled by 10^18. *)
From SaoVerif Require Import Base.Prelude.

Definition P18 : Z := 1000000000000000000.
Definition dec_of_int (i : Z) : Z := i * P18.
(* NewDecWithPrec(1, 6) *)
Definition PRICE : Z := 1000000000000.

Definition dec_mul_int (d i : Z) : Z := d * i.
(* QuoInt64: big.Int.Quo, truncation toward zero (division by zero panics: guarded by callers) *)
Definition dec_quo_int (d i : Z) : Z := Z.quot d i.

(* chopPrecisionAndRound: divide by 10^18, round half to even, sign handled symmetrically *)
Definition chop_round_pos (x : Z) : Z :=
  let q := x / P18 in
  let r := x mod P18 in
  if r =? 0 then q
  else if r <? P18 / 2 then q
  else if P18 / 2 <? r then q + 1
  else if Z.even q then q else q + 1.
Definition chop_round (x : Z) : Z := if x <? 0 then - chop_round_pos (- x) else chop_round_pos x.

Definition dec_mul (a b : Z) : Z := chop_round (a * b).
Definition dec_quo (a b : Z) : Z := chop_round (Z.quot (a * P18 * P18) b).
(* TruncateInt: big.Int.Quo by 10^18 *)
Definition dec_trunc (d : Z) : Z := Z.quot d P18.
(* Ceil *)
Definition dec_ceil (d : Z) : Z :=
  let q := Z.quot d P18 in
  let r := Z.rem d P18 in
  if r =? 0 then q * P18 else if r <? 0 then q * P18 else (q + 1) * P18.
(* DecCoin.TruncateDecimal: (whole coins, fractional remainder) *)
Definition dec_split (d : Z) : Z * Z := let t := dec_trunc d in (t, d - t * P18).

(* the "round up to a whole coin" idiom used for prices and pledges:
   amount, dec := X.TruncateDecimal(); if !dec.IsZero() { amount++ } *)
Definition ceil_coin (d : Z) : Z := let '(t, r) := dec_split d in if r =? 0 then t else t + 1.
