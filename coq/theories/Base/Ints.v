(* Go fixed-width integer conversions, written out wherever the chain code converts. *)
From SaoVerif Require Import Base.Prelude.

Definition two64 : Z := 18446744073709551616.
Definition two63 : Z := 9223372036854775808.
Definition two32 : Z := 4294967296.
Definition two31 : Z := 2147483648.

(* uint64(x) for any integer x *)
Definition u64 (x : Z) : Z := x mod two64.
(* int64(x) : two's complement reinterpretation *)
Definition i64 (x : Z) : Z := let m := x mod two64 in if m <? two63 then m else m - two64.
Definition i32 (x : Z) : Z := let m := x mod two32 in if m <? two31 then m else m - two32.
Definition u32 (x : Z) : Z := x mod two32.
Definition u8 (x : Z) : Z := x mod 256.

Definition is_u64 (x : Z) : bool := (0 <=? x) && (x <? two64).
Definition is_i64 (x : Z) : bool := (- two63 <=? x) && (x <? two63).

Lemma u64_range x : 0 <= u64 x < two64.
Proof. unfold u64, two64. apply Z.mod_pos_bound. lia. Qed.

Lemma u64_id x : 0 <= x < two64 -> u64 x = x.
Proof. intros H. unfold u64. apply Z.mod_small. exact H. Qed.

Lemma i64_id x : - two63 <= x < two63 -> i64 x = x.
Proof.
  intros H. unfold i64, two64, two63 in *.
  destruct (Z_lt_dec x 0) as [Hn|Hn].
  - assert (E : x mod 18446744073709551616 = x + 18446744073709551616).
    { symmetry. apply (Z.mod_unique _ _ (-1)); lia. }
    rewrite E. destruct (_ <? _) eqn:L; lia.
  - rewrite Z.mod_small by lia. destruct (_ <? _) eqn:L; lia.
Qed.

Lemma u8_range x : 0 <= u8 x < 256.
Proof. unfold u8. apply Z.mod_pos_bound. lia. Qed.
