(* Base definitions shared by the whole model: the untyped [value] used to move
   states and operations between the Go harness and the model, string helpers that
   mirror the Go standard library functions the chain code calls, list helpers. *)
From Coq Require Export ZArith List Bool String Ascii Lia.
From stdpp Require Export base option list strings gmap sorting.
Export ListNotations.
Open Scope string_scope.
Open Scope list_scope.
Open Scope Z_scope.

(** * Untyped values (wire format between harness and model) *)
Inductive value : Type :=
| VZ (z : Z)
| VS (s : string)
| VL (l : list value).

Definition vbool (b : bool) : value := VZ (if b then 1 else 0).
Definition unbool (v : value) : option bool :=
  match v with VZ 0 => Some false | VZ 1 => Some true | _ => None end.
Definition unZ (v : value) : option Z := match v with VZ z => Some z | _ => None end.
Definition unS (v : value) : option string := match v with VS s => Some s | _ => None end.
Definition unL (v : value) : option (list value) := match v with VL l => Some l | _ => None end.

Fixpoint mapM {A B} (f : A -> option B) (l : list A) : option (list B) :=
  match l with
  | [] => Some []
  | x :: xs => match f x, mapM f xs with Some y, Some ys => Some (y :: ys) | _, _ => None end
  end.

Definition unLS (v : value) : option (list string) :=
  match v with VL l => mapM unS l | _ => None end.
Definition unLZ (v : value) : option (list Z) :=
  match v with VL l => mapM unZ l | _ => None end.
Definition vLS (l : list string) : value := VL (map VS l).
Definition vLZ (l : list Z) : value := VL (map VZ l).

(** * String helpers mirroring Go's [strings] package *)

Fixpoint str_prefix (p s : string) : bool :=
  match p, s with
  | EmptyString, _ => true
  | String a p', String b s' => if Ascii.eqb a b then str_prefix p' s' else false
  | String _ _, EmptyString => false
  end.

(* strings.Contains(s, sub) *)
Fixpoint str_contains (s sub : string) : bool :=
  if str_prefix sub s then true
  else match s with
       | EmptyString => false
       | String _ s' => str_contains s' sub
       end.

(* strings.Split(s, sep) for a single-byte separator: always at least one piece *)
Fixpoint str_split_aux (sep : ascii) (s : string) (cur : string) : list string :=
  match s with
  | EmptyString => [cur]
  | String a s' =>
      if Ascii.eqb a sep then cur :: str_split_aux sep s' EmptyString
      else str_split_aux sep s' (cur +:+ String a EmptyString)
  end.
Definition str_split (sep : ascii) (s : string) : list string := str_split_aux sep s EmptyString.

Definition str_len (s : string) : Z := Z.of_nat (String.length s).

Definition str_eqb (a b : string) : bool := String.eqb a b.

Definition in_list (x : string) (l : list string) : bool := existsb (String.eqb x) l.

(* byte-wise order, as the IAVL/KV iterator sees keys *)
Definition str_le (a b : string) : bool :=
  match String.compare a b with Gt => false | _ => true end.

Fixpoint str_all (f : ascii -> bool) (s : string) : bool :=
  match s with EmptyString => true | String a s' => f a && str_all f s' end.

Definition ascii_in (a : ascii) (lo hi : nat) : bool :=
  let n := nat_of_ascii a in (Nat.leb lo n) && (Nat.leb n hi).
Definition is_lower a := ascii_in a 97 122.
Definition is_upper a := ascii_in a 65 90.
Definition is_digit a := ascii_in a 48 57.
Definition is_char (c : nat) (a : ascii) := Nat.eqb (nat_of_ascii a) c.

(* decimal rendering of a non-negative integer: fmt.Sprintf("%d") *)
Definition digit_char (d : Z) : ascii := ascii_of_nat (48 + Z.to_nat d).
Fixpoint dec_aux (fuel : nat) (n : Z) (acc : string) : string :=
  match fuel with
  | O => acc
  | S f => let acc' := String (digit_char (n mod 10)) acc in
           if n / 10 =? 0 then acc' else dec_aux f (n / 10) acc'
  end.
Definition str_of_Z (n : Z) : string :=
  if n <? 0 then "-" +:+ dec_aux 80 (- n) "" else dec_aux 80 n "".

(** * List helpers *)
Fixpoint remove_first (x : string) (l : list string) : list string :=
  match l with
  | [] => []
  | y :: ys => if String.eqb x y then ys else y :: remove_first x ys
  end.

Fixpoint remove_firstZ (x : Z) (l : list Z) : list Z :=
  match l with
  | [] => []
  | y :: ys => if x =? y then ys else y :: remove_firstZ x ys
  end.

Definition inZ (x : Z) (l : list Z) : bool := existsb (Z.eqb x) l.

Fixpoint nodup_strb (l : list string) : bool :=
  match l with
  | [] => true
  | x :: xs => negb (in_list x xs) && nodup_strb xs
  end.

Fixpoint last_opt {A} (l : list A) : option A :=
  match l with [] => None | [x] => Some x | _ :: xs => last_opt xs end.

Definition sumZ (l : list Z) : Z := fold_right Z.add 0 l.

(** * Key-ordered listing of maps (the order a KV-store iterator yields) *)
Definition kle {A} (x y : string * A) : Prop := str_le x.1 y.1 = true.
Global Instance kle_dec {A} (x y : string * A) : Decision (kle x y).
Proof. unfold kle. apply _. Defined.
Definition sorted_items {A} (m : gmap string A) : list (string * A) :=
  merge_sort kle (map_to_list m).

Definition zle {A} (x y : Z * A) : Prop := (x.1 <=? y.1) = true.
Global Instance zle_dec {A} (x y : Z * A) : Decision (zle x y).
Proof. unfold zle. apply _. Defined.
Definition sorted_itemsZ {A} (m : gmap Z A) : list (Z * A) :=
  merge_sort zle (map_to_list m).

(** * value codecs for maps *)
Definition enc_smap {A} (f : A -> value) (m : gmap string A) : value :=
  VL (map (fun kv => VL [VS kv.1; f kv.2]) (sorted_items m)).
Definition dec_smap {A} (f : value -> option A) (v : value) : option (gmap string A) :=
  match v with
  | VL l => match mapM (fun e => match e with
                                 | VL [VS k; x] => match f x with Some a => Some (k, a) | None => None end
                                 | _ => None end) l with
            | Some kvs => Some (list_to_map kvs)
            | None => None
            end
  | _ => None
  end.
Definition enc_zmap {A} (f : A -> value) (m : gmap Z A) : value :=
  VL (map (fun kv => VL [VZ kv.1; f kv.2]) (sorted_itemsZ m)).
Definition dec_zmap {A} (f : value -> option A) (v : value) : option (gmap Z A) :=
  match v with
  | VL l => match mapM (fun e => match e with
                                 | VL [VZ k; x] => match f x with Some a => Some (k, a) | None => None end
                                 | _ => None end) l with
            | Some kvs => Some (list_to_map kvs)
            | None => None
            end
  | _ => None
  end.

(* structural equality on values, for the comparison of projections *)
Fixpoint value_eqb (a b : value) {struct a} : bool :=
  match a, b with
  | VZ x, VZ y => x =? y
  | VS x, VS y => String.eqb x y
  | VL x, VL y =>
      (fix go (l1 l2 : list value) {struct l1} : bool :=
         match l1, l2 with
         | [], [] => true
         | u :: us, w :: ws => value_eqb u w && go us ws
         | _, _ => false
         end) x y
  | _, _ => false
  end.
