(* Generated obligation for C18: which store prefixes are written by consensus code but
   not carried through ExportGenesis / InitGenesis. *)
From Coq Require Import String List Bool.
From SaoVerif Require Import Registry Generated.SourceFacts.
Import ListNotations.
Open Scope string_scope.
Open Scope list_scope.

Definition unexported : list (string * string) :=
  map (fun p => let '(m, pre, _, _, _) := p in (m, pre))
      (filter (fun p => let '(_, _, w, e, i) := p in w && negb (e && i)) store_prefixes).

Theorem unexported_are_the_known_ones : unexported = known_unexported.
Proof. vm_compute. reflexivity. Qed.
