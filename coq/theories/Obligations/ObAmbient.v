(* Generated obligations for C01 / C03: no ambient input reaches consensus code except
   at the registered sites; the only process-level variable is the registered one. *)
From Coq Require Import String List Bool.
From SaoVerif Require Import Registry Generated.SourceFacts.
Import ListNotations.
Open Scope string_scope.
Open Scope list_scope.

(* every ambient site the translator finds in consensus-reachable code is registered *)
Theorem ambient_sites_registered :
  subset site_eqb ambient_sites (map fst known_sites) = true.
Proof. vm_compute. reflexivity. Qed.

(* translator self-test: it still finds every registered site *)
Theorem registered_sites_found :
  subset site_eqb (map fst known_sites) ambient_sites = true.
Proof. vm_compute. reflexivity. Qed.

(* no wall-clock read other than the telemetry one, no randomness, goroutine, select, env *)
Theorem wallclock_only_telemetry :
  sites_of_kind "wallclock" ambient_sites = [("x/node/abci.go", "x/node.BeginBlocker", "wallclock", "time.Now", 1)].
Proof. vm_compute. reflexivity. Qed.
Theorem no_random_go_select_env :
  sites_of_kind "random" ambient_sites ++ sites_of_kind "go" ambient_sites ++
  sites_of_kind "select" ambient_sites ++ sites_of_kind "env" ambient_sites ++
  sites_of_kind "recvwrite" ambient_sites = [].
Proof. vm_compute. reflexivity. Qed.

Theorem mutable_globals_registered : mutable_globals = known_globals.
Proof. vm_compute. reflexivity. Qed.

(* no keeper-like struct carries a map, slice, channel, lock or pointer to plain data:
   every piece of consensus state is in the store, none in the process *)
Theorem keepers_hold_no_process_state : keeper_ref_fields = [].
Proof. vm_compute. reflexivity. Qed.
