(* Generated obligations about the shape of the code shared by several properties:
   every message handler is modelled, bank call sites are the modelled ones, a single
   mint site, end-blocker order, module account permissions, constants. *)
From Coq Require Import String List Bool.
From SaoVerif Require Import Registry Generated.SourceFacts.
Import ListNotations.
Open Scope string_scope.
Open Scope list_scope.

Theorem msgs_modelled : msg_methods = modelled_msgs.
Proof. vm_compute. reflexivity. Qed.

Theorem bank_sites_modelled : bank_sites = modelled_bank_sites.
Proof. vm_compute. reflexivity. Qed.

(* coins are created at exactly one place, and nothing burns *)
Theorem single_mint_site :
  filter (fun s => let '(_, m, _) := s in String.eqb m "MintCoins" || String.eqb m "BurnCoins") bank_sites
  = [("x/node/keeper.Keeper.MintCoins", "MintCoins", 1)].
Proof. vm_compute. reflexivity. Qed.

(* sao's end-blocker (shard expiry) runs before model's (data expiry); node after sao *)
Theorem end_order_ok :
  before "sao" "model" end_order && before "sao" "node" end_order && before "staking" "sao" end_order = true.
Proof. vm_compute. reflexivity. Qed.

Theorem begin_order_node : existsb (String.eqb "node") begin_order = true.
Proof. vm_compute. reflexivity. Qed.

(* node may mint; order and market may not; did has no module account *)
Theorem macc_perms_ok :
  filter (fun p => existsb (String.eqb (fst p)) ["node"; "order"; "market"; "did"]) macc_perms
  = [("market", "staking"); ("node", "minter,burner"); ("order", "staking")].
Proof. vm_compute. reflexivity. Qed.

Theorem constants_match : constants = model_constants.
Proof. vm_compute. reflexivity. Qed.

Theorem literals_match : literal_sites = model_literals.
Proof. vm_compute. reflexivity. Qed.
