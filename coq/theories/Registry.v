(* Hand-written counterpart of Generated/SourceFacts.v: what the model and the proofs
   assume about the shape of the Go code. The obligations in Obligations/*.v compare
   the two on every run. Sites are matched by (file, function, kind, detail, ordinal),
   never by line number. *)
From Coq Require Import String List Bool Arith.
Import ListNotations.
Open Scope string_scope.

Definition site := (string * string * string * string * nat)%type.

Definition site_eqb (a b : site) : bool :=
  let '(f1, g1, k1, d1, n1) := a in
  let '(f2, g2, k2, d2, n2) := b in
  String.eqb f1 f2 && String.eqb g1 g2 && String.eqb k1 k2 && String.eqb d1 d2 && Nat.eqb n1 n2.

(* Every ambient site known in consensus-reachable code, with how it is discharged. *)
Definition known_sites : list (site * string) := [
  (("app/app.go", "app.App.ModuleAccountAddrs", "maprange", "maccPerms", 1),
   "builds a map from a map: the result does not depend on the order");
  (("x/model/keeper/data_management.go", "x/model/keeper.Keeper.UpdateMeta", "maprange", "shardSet", 1),
   "body is RemoveShard(id) on distinct keys: order-insensitive (Ambient.fold_delete_perm)");
  (("x/node/abci.go", "x/node.BeginBlocker", "wallclock", "time.Now", 1),
   "argument of telemetry.ModuleMeasureSince only; never reaches state or responses");
  (("x/node/keeper/hooks.go", "x/node/keeper.Hooks.BeforeDelegationSharesModified", "globalwrite", "x/node/keeper.sharesBeforeModified", 1),
   "process global; modelled as the component pg outside State (finding D10)");
  (("x/node/keeper/hooks.go", "x/node/keeper.Hooks.verifySuperStorageNodes", "globalwrite", "x/node/keeper.sharesBeforeModified", 1),
   "reset of the process global (finding D10)");
  (("x/node/keeper/node.go", "x/node/keeper.Keeper.DoPenalty", "maprange", "totalPenaltyMap", 1),
   "body sets one node record per distinct provider key: order-insensitive");
  (("x/sao/keeper/msg_server_terminate.go", "x/sao/keeper.msgServer.Terminate", "maprange", "shardSet", 1),
   "body is RemoveShard(id) on distinct keys: order-insensitive (Ambient.fold_delete_perm)")
].

Definition known_globals : list string := [ "x/node/keeper.sharesBeforeModified" ].

(* message handlers the model implements (module, method) *)
Definition modelled_msgs : list (string * string) := [
  ("did", "Binding"); ("did", "Update"); ("did", "UpdatePaymentAddress");
  ("node", "AddVstorage"); ("node", "ClaimReward"); ("node", "Create"); ("node", "RemoveVstorage"); ("node", "Reset");
  ("sao", "Cancel"); ("sao", "Complete"); ("sao", "Migrate"); ("sao", "Ready"); ("sao", "RecoverFaults");
  ("sao", "Renew"); ("sao", "ReportFaults"); ("sao", "Store"); ("sao", "Terminate"); ("sao", "UpdataPermission")
].

(* bank call sites the model implements: (function, method, number of sites) *)
Definition modelled_bank_sites : list (string * string * nat) := [
  ("x/did/keeper.Keeper.SendCoinsFromModuleToDidBalances", "SendCoinsFromModuleToModule", 1);
  ("x/market/keeper.Keeper.Deposit", "SendCoinsFromModuleToModule", 1);
  ("x/market/keeper.Keeper.Withdraw", "SendCoinsFromModuleToModule", 1);
  ("x/node/keeper.Keeper.MintCoins", "MintCoins", 1);
  ("x/node/keeper.Keeper.ShardPledge", "SendCoinsFromAccountToModule", 3);
  ("x/node/keeper.Keeper.ShardRelease", "SendCoinsFromModuleToAccount", 1);
  ("x/node/keeper.msgServer.AddVstorage", "SendCoinsFromAccountToModule", 1);
  ("x/node/keeper.msgServer.ClaimReward", "SendCoinsFromModuleToAccount", 2);
  ("x/node/keeper.msgServer.RemoveVstorage", "SendCoinsFromModuleToAccount", 1);
  ("x/order/keeper.Keeper.RefundOrder", "SendCoinsFromModuleToAccount", 1);
  ("x/order/keeper.Keeper.RenewOrder", "SendCoinsFromAccountToModule", 1);
  ("x/order/keeper.Keeper.TerminateOrder", "SendCoinsFromModuleToAccount", 1);
  ("x/sao/keeper.Keeper.HandleTimeoutOrder", "SendCoinsFromModuleToAccount", 1);
  ("x/sao/keeper.msgServer.Renew", "SendCoinsFromAccountToModule", 2);
  ("x/sao/keeper.msgServer.Store", "SendCoinsFromAccountToModule", 1)
].

(* store prefixes a module writes in consensus code but does not carry through genesis
   export/import (finding D18) *)
Definition known_unexported : list (string * string) := [
  ("node", "Fault/faultId/"); ("node", "Fault/value/"); ("node", "FishingReward/value/"); ("node", "NodeRound/value/")
].

Definition model_constants : list (string * string) := [
  ("x/did/keeper.DEFAULT_NETWORK", """cosmos""");
  ("x/did/keeper.EXPIRE_DURATION", "900");
  ("x/node.TOTAL_REWARD", """400000000000000sao""");
  ("x/node/keeper.OrderAmountDenominator", "10");
  ("x/node/keeper.OrderAmountNumerator", "1");
  ("x/node/keeper.ProjectionPeriodDenominator", "10");
  ("x/node/keeper.ProjectionPeriodNumerator", "1");
  ("x/node/keeper.StorageThreshold", "10737418240");
  ("x/sao/keeper.MaxRenewDuration", "63072000");
  ("x/sao/keeper.MaxTries", "10")
].

Definition model_literals : list string := [
  "10000.0@x/node/keeper.msgServer.Create x1";
  "8000.0@x/node/keeper.Keeper.RandomSP x2";
  "NewDecWithPrec(1,6)@x/node/keeper.msgServer.AddVstorage x1";
  "NewDecWithPrec(1,6)@x/node/keeper.msgServer.RemoveVstorage x1";
  "NewDecWithPrec(1,6)@x/sao/keeper.msgServer.Renew x1";
  "NewDecWithPrec(1,6)@x/sao/keeper.msgServer.Store x1";
  "height%600@x/node.EndBlock x1";
  "proposal.Duration<3600@x/sao/keeper.msgServer.Renew x1";
  "proposal.Duration<3600@x/sao/keeper.msgServer.Store x1"
].

(* generic helpers for the obligations *)
Definition subset {A} (eqb : A -> A -> bool) (l1 l2 : list A) : bool :=
  forallb (fun x => existsb (eqb x) l2) l1.
Definition pair_eqb (a b : string * string) : bool := String.eqb (fst a) (fst b) && String.eqb (snd a) (snd b).
Definition triple_eqb (a b : string * string * nat) : bool :=
  let '(x1, y1, n1) := a in let '(x2, y2, n2) := b in String.eqb x1 x2 && String.eqb y1 y2 && Nat.eqb n1 n2.
Fixpoint index_of (x : string) (l : list string) : option nat :=
  match l with
  | [] => None
  | y :: r => if String.eqb x y then Some 0 else option_map S (index_of x r)
  end.
Definition before (a b : string) (l : list string) : bool :=
  match index_of a l, index_of b l with
  | Some i, Some j => Nat.ltb i j
  | _, _ => false
  end.
Definition sites_of_kind (k : string) (l : list site) : list site :=
  filter (fun s => let '(_, _, k', _, _) := s in String.eqb k k') l.
