(* C01 -- Replica determinism: same blocks give same results on every node.

   The model's transition [step cx s op] is a Gallina function of the block context (height,
   chain id, block time, seed = previous app hash), the state and the operation: it has no
   wall-clock, randomness, map-order or scheduling input, so two replicas running the MODEL
   agree by construction. What carries content is that the CODE has no other input either:
   (1) generated obligations (Obligations/ObAmbient.v, re-derived from the Go source on every
       run): the only wall-clock read in consensus-reachable code is the telemetry one, there is
       no randomness, goroutine, select, environment read or receiver-field write, the map ranges
       are exactly the registered ones, the only package-level variable written is
       sharesBeforeModified;
   (2) the map ranges are order-insensitive (theorems below);
   (3) a failed or non-consensus call leaves nothing behind except that variable (theorems
       below; the residue is finding D10, refuted below and listed in KNOWN_FINDINGS.txt);
   (4) the step-wise correspondence of the model with the real application on every sampled
       history, and the twin-replica test: a second process replays the recorded consensus
       inputs under a different schedule of Simulate / CheckTx / query calls, in-process
       restarts and delays, and must reproduce every DeliverTx result (code, data, gas,
       events), every EndBlock response and every commit hash.
   Gas, events and the IAVL hash are not in the model: their equality is carried by (4) only. *)
From SaoVerif Require Import Base.Prelude Base.Ints Base.Dec Model.Did Model.Types Model.Monad Model.Bank Model.Select Model.Node Model.Storage Model.Sao Model.Hooks Model.App Model.Spec Proofs.Frame Proofs.HooksFacts.
From RecordUpdate Require Import RecordUpdate.
Import RecordSetNotations.

Theorem C01_remove_shards_perm : forall l l' , Permutation l l' -> forall s, remove_shards l s = remove_shards l' s.
Proof. first [exact remove_shards_perm | apply remove_shards_perm]. Qed.
Print Assumptions C01_remove_shards_perm.

Theorem C01_remove_shards_dedup : forall l s, remove_shards (dedupZ l) s = remove_shards l s.
Proof. first [exact remove_shards_dedup | apply remove_shards_dedup]. Qed.
Print Assumptions C01_remove_shards_dedup.

Theorem C01_pg_only_staking : forall cx s op, (forall evs, op <> OStaking evs) -> (forall evs, op <> OSimulate evs) ->
  (forall evs, op = OEndBlock evs -> evs = []) -> pg (fst (step cx s op)) = pg s.
Proof. first [exact pg_only_staking | apply pg_only_staking]. Qed.
Print Assumptions C01_pg_only_staking.

Theorem C01_restart_equiv : forall tr s, pg s = 0 -> run tr (restart s) = run tr s.
Proof. first [exact restart_equiv | apply restart_equiv]. Qed.
Print Assumptions C01_restart_equiv.

Theorem C01_failed_delegate_residue : forall cx s del val sh, del_shares s del val = Some sh ->
  fst (step cx s (OStaking (ev_delegate_fails del val))) = s <| pg := sh |>.
Proof. first [exact failed_delegate_residue | apply failed_delegate_residue]. Qed.
Print Assumptions C01_failed_delegate_residue.

Theorem C01_simulate_residue : forall cx s del val sh, del_shares s del val = Some sh ->
  fst (step cx s (OSimulate (ev_delegate_fails del val))) = s <| pg := sh |>.
Proof. first [exact simulate_residue | apply simulate_residue]. Qed.
Print Assumptions C01_simulate_residue.

Theorem C01_restart_equiv_refuted : exists cx s op, pg s <> 0 /\ nodes (fst (step cx (restart s) op)) <> nodes (fst (step cx s op)).
Proof. first [exact restart_equiv_refuted | apply restart_equiv_refuted]. Qed.
Print Assumptions C01_restart_equiv_refuted.

Theorem C01_d10_crash_restart_divergence :
  let tr1 := [(d10_cx, OStaking (ev_delegate_fails "OP" "V"))] in
  let tr2 := [(d10_cx, OStaking d10_evs)] in
  pg (d10_state 0) = 0 /\
  n_role <$> nodes (run tr2 (run tr1 (d10_state 0))) !! "N" = Some 1 /\
  n_role <$> nodes (run tr2 (restart (run tr1 (d10_state 0)))) !! "N" = Some 0.
Proof. first [exact d10_crash_restart_divergence | apply d10_crash_restart_divergence]. Qed.
Print Assumptions C01_d10_crash_restart_divergence.

Theorem C01_step_keeps_nparams : forall cx s op, nparams (fst (step cx s op)) = nparams s.
Proof. first [exact step_keeps_nparams | apply step_keeps_nparams]. Qed.
Print Assumptions C01_step_keeps_nparams.

Theorem C01_step_keeps_did : forall cx s op, (forall o, op <> ODid o) -> did (fst (step cx s op)) = did s.
Proof. first [exact step_keeps_did | apply step_keeps_did]. Qed.
Print Assumptions C01_step_keeps_did.
