(* C06 -- Escrow solvency: module accounts always cover what the chain says it owes.

   Proved: conservation -- every operation other than BeginBlock leaves the supply unchanged
   and the sum of all tracked balances changes exactly by the supply change (coins only move);
   BeginBlock only adds. The solvency inequalities themselves (order escrow >= unsettled order
   amounts; market escrow >= accrued + future income; node escrow >= collateral net of debt +
   unclaimed rewards) are NOT proved as invariants: they are evaluated as monitors on the
   implementation state after every step (solv.order, solv.node) and at every block boundary
   (solv.market). Findings D13 and D23 violate them (KNOWN_FINDINGS.txt). *)
From SaoVerif Require Import Base.Prelude Base.Ints Base.Dec Model.Did Model.Types Model.Monad Model.Bank Model.Select Model.Node Model.Storage Model.Sao Model.Hooks Model.App Model.Spec Proofs.Frame.
From RecordUpdate Require Import RecordUpdate.
Import RecordSetNotations.

Theorem C06_step_conserves : forall cx s op, no_staking op = true ->
  sum_bal (fst (step cx s op)) - sum_bal s = supply (fst (step cx s op)) - supply s.
Proof. exact step_conserves. Qed.
Print Assumptions C06_step_conserves.

Theorem C06_step_supply : forall cx s op, op <> OBeginBlock -> supply (fst (step cx s op)) = supply s.
Proof. exact step_supply. Qed.
Print Assumptions C06_step_supply.

Theorem C06_begin_block_supply : forall cx s, supply s <= supply (fst (step cx s OBeginBlock)).
Proof. exact begin_block_supply. Qed.
Print Assumptions C06_begin_block_supply.
