(* C06 -- Escrow solvency: module accounts always cover what the chain says it owes.

   Proved: conservation -- every operation other than BeginBlock leaves the supply unchanged and
   the sum of all tracked balances changes exactly by the supply change; BeginBlock only adds.
   Proved (Proofs/Escrow.v): the ORDER escrow covers the payment of every non-renewal order in
   status Pending/DataReady (Inv_order_escrow) -- preserved by every operation and every run under
   four inductive side conditions (amounts non-negative, order statuses well-formed, no payment
   address or pledge record IS the escrow account) and one condition on the operation (the escrow
   account is not itself the sender of a bank transfer -- module accounts cannot sign); each
   hypothesis has a refuting witness. Corollary refund_never_short: refunding an unsettled order
   never fails for lack of escrowed funds.
   NOT proved as invariants: market escrow >= accrued + future income, node escrow >= collateral net
   of debt + unclaimed rewards. They are monitored on implementation states (solv.market at block
   boundaries, solv.node after every step). Findings D13 and D23 violate them (KNOWN_FINDINGS.txt). *)
From SaoVerif Require Import Base.Prelude Base.Ints Base.Dec Model.Did Model.Types Model.Monad Model.Bank Model.Select Model.Node Model.Storage Model.Sao Model.Hooks Model.App Model.Spec Proofs.Frame Model.Inv Proofs.Escrow.
From RecordUpdate Require Import RecordUpdate.
Import RecordSetNotations.

Theorem C06_step_conserves : forall cx s op, no_staking op = true ->
  sum_bal (fst (step cx s op)) - sum_bal s = supply (fst (step cx s op)) - supply s.
Proof. first [exact step_conserves | apply step_conserves]. Qed.
Print Assumptions C06_step_conserves.

Theorem C06_step_supply : forall cx s op, op <> OBeginBlock -> supply (fst (step cx s op)) = supply s.
Proof. first [exact step_supply | apply step_supply]. Qed.
Print Assumptions C06_step_supply.

Theorem C06_begin_block_supply : forall cx s, supply s <= supply (fst (step cx s OBeginBlock)).
Proof. first [exact begin_block_supply | apply begin_block_supply]. Qed.
Print Assumptions C06_begin_block_supply.

(* the order escrow covers every payment taken and not yet settled -- preserved by every operation under four inductive side conditions *)
Theorem C06_step_order_escrow_partial : forall cx s op,
  not_from_escrow op -> Inv_amounts s -> Inv_status s -> pay_not_escrow s -> no_escrow_pledge s ->
  Inv_order_escrow s -> Inv_order_escrow (fst (step cx s op)).
Proof. first [exact step_order_escrow_partial | apply step_order_escrow_partial]. Qed.
Print Assumptions C06_step_order_escrow_partial.

(* the side conditions are themselves preserved *)
Theorem C06_step_amounts : forall cx s op,
  not_from_escrow op -> Inv_amounts s -> Inv_status s -> pay_not_escrow s -> no_escrow_pledge s ->
  Inv_amounts (fst (step cx s op)) /\ Inv_status (fst (step cx s op)) /\ pay_not_escrow (fst (step cx s op)) /\
  no_escrow_pledge (fst (step cx s op)).
Proof. first [exact step_amounts | apply step_amounts]. Qed.
Print Assumptions C06_step_amounts.

Theorem C06_run_order_escrow_partial : forall tr s,
  trace_ok tr -> G s -> Inv_order_escrow s -> G (run tr s) /\ Inv_order_escrow (run tr s).
Proof. first [exact run_order_escrow_partial | apply run_order_escrow_partial]. Qed.
Print Assumptions C06_run_order_escrow_partial.

(* hence a refund of an unsettled order never fails for lack of escrowed funds *)
Theorem C06_refund_never_short : forall s oid o,
  Inv_amounts s -> Inv_order_escrow s -> orders s !! oid = Some o ->
  o_op o <> 3 -> (o_status o = OrderPending \/ o_status o = OrderDataReady) ->
  o_amount o <= balance s ESC /\
  refund_order oid s =
    match pay_addr s (Money.paydid_of o) with
    | None => Err "PayAddrNotSet" s
    | Some payer => if o_amount o <=? 0 then Err "invalid coins" s else Ok tt (move ESC payer (o_amount o) s)
    end.
Proof. first [exact refund_never_short | apply refund_never_short]. Qed.
Print Assumptions C06_refund_never_short.

Theorem C06_refund_never_short_err : forall s oid o e s',
  Inv_amounts s -> Inv_order_escrow s -> orders s !! oid = Some o ->
  o_op o <> 3 -> (o_status o = OrderPending \/ o_status o = OrderDataReady) ->
  refund_order oid s = Err e s' -> e <> "insufficient funds".
Proof. first [exact refund_never_short_err | apply refund_never_short_err]. Qed.
Print Assumptions C06_refund_never_short_err.

(* each hypothesis is needed *)
Theorem C06_step_order_escrow_refuted_sender : exists cx s op,
  G s /\ Inv_order_escrow s /\ ~ not_from_escrow op /\ ~ Inv_order_escrow (fst (step cx s op)).
Proof. first [exact step_order_escrow_refuted_sender | apply step_order_escrow_refuted_sender]. Qed.
Print Assumptions C06_step_order_escrow_refuted_sender.

Theorem C06_step_order_escrow_refuted_payer : exists cx s op,
  not_from_escrow op /\ Inv_amounts s /\ Inv_status s /\ no_escrow_pledge s /\ ~ pay_not_escrow s /\
  Inv_order_escrow s /\ ~ Inv_order_escrow (fst (step cx s op)).
Proof. first [exact step_order_escrow_refuted_payer | apply step_order_escrow_refuted_payer]. Qed.
Print Assumptions C06_step_order_escrow_refuted_payer.

Theorem C06_step_order_escrow_refuted_status : exists cx s op,
  not_from_escrow op /\ Inv_amounts s /\ ~ Inv_status s /\ pay_not_escrow s /\ no_escrow_pledge s /\
  Inv_order_escrow s /\ ~ Inv_order_escrow (fst (step cx s op)).
Proof. first [exact step_order_escrow_refuted_status | apply step_order_escrow_refuted_status]. Qed.
Print Assumptions C06_step_order_escrow_refuted_status.

Theorem C06_escrow_nonvacuous :
  G Money.ex_s1 /\ Inv_order_escrow Money.ex_s1 /\ slack Money.ex_s1 = 0 /\
  (exists o, orders Money.ex_s1 !! 1 = Some o /\ order_owes o = 3600 /\ o_status o = OrderDataReady) /\
  (exists sh, shards Money.ex_s1 !! 1 = Some sh) /\ (exists p, pledges Money.ex_s1 !! "S" = Some p) /\
  not_from_escrow (OStore Money.ex_msg) /\ not_from_escrow (OCancel "G" "G" 1) /\
  Inv_order_escrow Money.ex_s2.
Proof. first [exact escrow_nonvacuous | apply escrow_nonvacuous]. Qed.
Print Assumptions C06_escrow_nonvacuous.
