(* C09 -- Data-model authorization: only owner- or grantee-signed requests change a model.

   [signed_by] and [key_of] (Model/Spec.v) say, without reference to the handler code, that
   a request verifies over exactly its delivered bytes under a key of the DID it names: the
   key a did:key encodes, or a key of a document in that sid DID's OWN version history.
   Proved: signature verification is sound for that specification; a rejected transaction
   changes no model; operations other than Store / Complete / Cancel / Renew / Terminate /
   UpdatePermission / EndBlock change no model at all; an accepted Store, Terminate or
   UpdatePermission is signed by the DID it names and that DID is the owner (for content
   updates and termination: or a read-write grantee); each touches only the model it names;
   Complete and Cancel touch only the model of their order. For Renew the same holds under
   the link "a model's latest order names that model" (meta_order_link; the plain statement
   is refuted on an ill-formed hand-built state, see renew_authorized_refuted).
   The same clauses are evaluated as per-operation monitors on every accepted request of the
   implementation (authz.store, authz.renew, authz.terminate, authz.permission, frame.models). *)
From SaoVerif Require Import Base.Prelude Base.Ints Base.Dec Model.Did Model.Types Model.Monad Model.Bank Model.Select Model.Node Model.Storage Model.Sao Model.Hooks Model.App Model.Spec Proofs.Authz.
From RecordUpdate Require Import RecordUpdate.
Import RecordSetNotations.

Theorem C09_verify_sig_sound : forall s owner so d,
  sig_sane owner so -> verify_sig s owner so = Some d -> d = owner /\ signed_by s owner so.
Proof. first [exact verify_sig_sound | apply verify_sig_sound]. Qed.
Print Assumptions C09_verify_sig_sound.

Theorem C09_rejected_tx_unchanged : forall cx s op s' c d,
  is_tx op = true -> step cx s op = (s', OutTx c d) -> c <> COk -> model_view s' = model_view s.
Proof. first [exact rejected_tx_unchanged | apply rejected_tx_unchanged]. Qed.
Print Assumptions C09_rejected_tx_unchanged.

Theorem C09_model_frame : forall cx s op, touches_models op = false -> model_view (fst (step cx s op)) = model_view s.
Proof. first [exact model_frame | apply model_frame]. Qed.
Print Assumptions C09_model_frame.

Theorem C09_store_authorized : forall cx s m s' d,
  sig_sane (st_owner m) (st_sig m) -> step cx s (OStore m) = (s', OutTx COk d) ->
  signed_by s (st_owner m) (st_sig m) /\ (forall em, metas s !! st_data m = Some em -> may_write em (st_owner m)).
Proof. first [exact store_authorized | apply store_authorized]. Qed.
Print Assumptions C09_store_authorized.

Theorem C09_store_touches_only_its_model : forall cx s m s' d k,
  step cx s (OStore m) = (s', OutTx COk d) -> k <> st_data m -> metas s' !! k = metas s !! k.
Proof. first [exact store_touches_only_its_model | apply store_touches_only_its_model]. Qed.
Print Assumptions C09_store_touches_only_its_model.

Theorem C09_terminate_authorized : forall cx s c p owner data sg s' d,
  sig_sane owner sg -> step cx s (OTerminate c p owner data sg) = (s', OutTx COk d) ->
  signed_by s owner sg /\ exists em, metas s !! data = Some em /\ may_write em owner.
Proof. first [exact terminate_authorized | apply terminate_authorized]. Qed.
Print Assumptions C09_terminate_authorized.

Theorem C09_permission_authorized : forall cx s c p owner data ro rw sg v s' d,
  sig_sane owner sg -> step cx s (OUpdatePermission c p owner data ro rw sg v) = (s', OutTx COk d) ->
  signed_by s owner sg /\ exists em, metas s !! data = Some em /\ may_admin em owner /\
  (forall k, k <> data -> metas s' !! k = metas s !! k).
Proof. first [exact permission_authorized | apply permission_authorized]. Qed.
Print Assumptions C09_permission_authorized.

Theorem C09_renew_authorized_partial : forall cx s m s' d data em,
  sig_sane (rn_owner m) (rn_sig m) -> meta_order_link s ->
  step cx s (ORenew m) = (s', OutTx COk d) ->
  metas s !! data = Some em -> metas s' !! data <> Some em ->
  signed_by s (rn_owner m) (rn_sig m) /\ may_admin em (rn_owner m) /\ In data (rn_data m).
Proof. first [exact renew_authorized_partial | apply renew_authorized_partial]. Qed.
Print Assumptions C09_renew_authorized_partial.

Theorem C09_renew_authorized_refuted : exists cx s m s' d data em,
  sig_sane (rn_owner m) (rn_sig m) /\ step cx s (ORenew m) = (s', OutTx COk d) /\
  metas s !! data = Some em /\ metas s' !! data <> Some em /\
  ~ may_admin em (rn_owner m) /\ ~ In data (rn_data m).
Proof. first [exact renew_authorized_refuted | apply renew_authorized_refuted]. Qed.
Print Assumptions C09_renew_authorized_refuted.

Theorem C09_complete_touches_only_order_model : forall cx s c p oid cid sz ok s' d o k,
  step cx s (OComplete c p oid cid sz ok) = (s', OutTx COk d) ->
  orders s !! oid = Some o -> k <> o_data o -> metas s' !! k = metas s !! k.
Proof. first [exact complete_touches_only_order_model | apply complete_touches_only_order_model]. Qed.
Print Assumptions C09_complete_touches_only_order_model.

Theorem C09_cancel_touches_only_order_model : forall cx s c p oid s' d o k,
  step cx s (OCancel c p oid) = (s', OutTx COk d) ->
  orders s !! oid = Some o -> k <> o_data o -> metas s' !! k = metas s !! k.
Proof. first [exact cancel_touches_only_order_model | apply cancel_touches_only_order_model]. Qed.
Print Assumptions C09_cancel_touches_only_order_model.
