(* C07 -- Provider collateral safety: pledged funds return to the pledger, in full.

   Proved per operation: releasing a shard pays its recorded collateral, less only the debt
   recorded against that provider (and repaid by exactly that much), from the node escrow to
   the shard's provider and to nobody else, and lowers that provider's counters by the
   shard's collateral and size; RemoveVstorage is accepted only for capacity not backing
   stored shards and pays the signer only; AddVstorage takes exactly the coins it books.
   0 <= used <= total and used = sum of live shard sizes are preserved by every covered operation
   (step_capacity_partial, Proofs/Capacity.v; hypotheses and uncovered operations as in C14) and
   monitored on implementation states after every step (agg.used_is_sum, agg.used_bounds,
   agg.shpledged_is_sum). *)
From SaoVerif Require Import Base.Prelude Base.Ints Base.Dec Model.Did Model.Types Model.Monad Model.Bank Model.Select Model.Node Model.Storage Model.Sao Model.Hooks Model.App Model.Spec Proofs.Money Model.Inv Proofs.RefInt Proofs.Capacity Proofs.Collateral.
From RecordUpdate Require Import RecordUpdate.
Import RecordSetNotations.

Theorem C07_shard_release_pays_owner : forall sp sh s s' p, shard_release sp (Some sh) s = Ok tt s' -> sh_sp sh = sp ->
  pledges s !! sp = Some p -> sp <> macc NODE -> 0 <= sh_pledge sh ->
  (forall dbt, debts s !! sp = Some dbt -> 0 <= dbt) ->
  exists repaid p', 0 <= repaid /\ repaid <= sh_pledge sh /\ repaid <= default 0 (debts s !! sp) /\
    balance s' sp = balance s sp + (sh_pledge sh - repaid) /\
    balance s' (macc NODE) = balance s (macc NODE) - (sh_pledge sh - repaid) /\
    default 0 (debts s' !! sp) = default 0 (debts s !! sp) - repaid /\
    (forall a, a <> sp -> a <> macc NODE -> bal s' !! a = bal s !! a) /\
    pledges s' !! sp = Some p' /\ pl_shpledged p' = pl_shpledged p - sh_pledge sh /\
    pl_used p' = i64 (pl_used p - i64 (sh_size sh)) /\ pl_total p' = pl_total p /\ pl_spledged p' = pl_spledged p /\
    (forall k, k <> sp -> pledges s' !! k = pledges s !! k).
Proof. first [exact shard_release_pays_owner | apply shard_release_pays_owner]. Qed.
Print Assumptions C07_shard_release_pays_owner.

Theorem C07_remove_vstorage_guard : forall cx s c sz s' d, step cx s (ORemoveVstorage c sz) = (s', OutTx COk d) ->
  exists p p' amount, pledges s !! c = Some p /\ pledges s' !! c = Some p' /\ 0 < amount /\
    amount * 1000000 <= pl_total p - pl_used p /\            (* never capacity that backs stored shards *)
    pl_total p' = pl_total p - amount * 1000000 /\ pl_used p' = pl_used p /\ pl_spledged p' = pl_spledged p - amount /\
    (c <> macc NODE -> balance s' c = balance s c + amount /\ balance s' (macc NODE) = balance s (macc NODE) - amount) /\
    (forall a, a <> c -> a <> macc NODE -> bal s' !! a = bal s !! a).
Proof. first [exact remove_vstorage_guard | apply remove_vstorage_guard]. Qed.
Print Assumptions C07_remove_vstorage_guard.

Theorem C07_add_vstorage_takes : forall cx s c sz s' d, step cx s (OAddVstorage c sz) = (s', OutTx COk d) ->
  exists amount p', 0 < amount /\ pledges s' !! c = Some p' /\
    pl_total p' = match pledges s !! c with Some p => pl_total p | None => 0 end + amount * 1000000 /\
    pl_spledged p' = match pledges s !! c with Some p => pl_spledged p | None => 0 end + amount /\
    (c <> macc NODE -> balance s' c = balance s c - amount /\ balance s' (macc NODE) = balance s (macc NODE) + amount).
Proof. first [exact add_vstorage_takes | apply add_vstorage_takes]. Qed.
Print Assumptions C07_add_vstorage_takes.

(* what is taken for a shard is what is recorded for it - or the shortfall is recorded as debt *)
Theorem C07_shard_pledge_takes : forall id sh price s sh' s' p,
  shard_pledge id sh price s = Ok sh' s' -> pledges s !! sh_sp sh = Some p -> sh_sp sh <> macc NODE ->
  exists taken p',
    0 <= taken /\ taken <= sh_pledge sh' /\
    balance s' (sh_sp sh) = balance s (sh_sp sh) - taken /\
    balance s' (macc NODE) = balance s (macc NODE) + taken /\
    default 0 (debts s' !! sh_sp sh) = default 0 (debts s !! sh_sp sh) + (sh_pledge sh' - taken) /\
    (sh_renew sh = [] -> taken = sh_pledge sh') /\
    (forall a, a <> sh_sp sh -> a <> macc NODE -> bal s' !! a = bal s !! a) /\
    (forall k, k <> sh_sp sh -> debts s' !! k = debts s !! k) /\
    pledges s' !! sh_sp sh = Some p' /\ pl_shpledged p' = pl_shpledged p + sh_pledge sh' /\
    pl_total p' = pl_total p /\ pl_spledged p' = pl_spledged p /\
    (forall k, k <> sh_sp sh -> pledges s' !! k = pledges s !! k) /\
    shards s' !! id = Some sh' /\ sh' = sh <| sh_pledge := sh_pledge sh' |>.
Proof. first [exact shard_pledge_takes | apply shard_pledge_takes]. Qed.
Print Assumptions C07_shard_pledge_takes.

Theorem C07_collateral_nonvacuous :
  exists sh, shards W.s2 !! 1 = Some sh /\ 0 < sh_pledge sh /\
    balance W.s2 "T" = balance W.s1 "T" - sh_pledge sh /\
    balance W.s2 (macc NODE) = balance W.s1 (macc NODE) + sh_pledge sh.
Proof. first [exact collateral_nonvacuous | apply collateral_nonvacuous]. Qed.
Print Assumptions C07_collateral_nonvacuous.

(* 0 <= used <= total is kept by every covered operation *)
Theorem C07_step_capacity_partial : forall cx s op,
  covered op = true -> Hyp cx s op -> Inv_used s -> Inv_capacity s -> Live_pledged s ->
  Inv_capacity (fst (step cx s op)).
Proof. first [exact step_capacity_partial | apply step_capacity_partial]. Qed.
Print Assumptions C07_step_capacity_partial.
