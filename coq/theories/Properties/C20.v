(* C20 -- Super-node role held only while pledge and validator-stake requirements hold.

   Proved: a promotion by the node's own Reset or AddVstorage happens only when status,
   pledged capacity and delegation share all hold in the resulting state; RemoveVstorage below
   the threshold demotes; a promotion by the staking hooks of an SDK-shaped Delegate or Unbond
   that starts without residue holds the requirements in the FINAL state (the hook compensates
   for the validator's not-yet-reduced shares); after a Delegate every super delegator node of
   the validator satisfies them. Refuted with residue (finding D10): a node holding 9.9% is
   promoted. super.role_ok is evaluated on the implementation after every step. *)
From SaoVerif Require Import Base.Prelude Base.Ints Base.Dec Model.Did Model.Types Model.Monad Model.Bank Model.Select Model.Node Model.Storage Model.Sao Model.Hooks Model.App Model.Spec Proofs.HooksFacts Proofs.ValHook.
From RecordUpdate Require Import RecordUpdate.
Import RecordSetNotations.

Theorem C20_reset_promotion_sound : forall cx s m s' d n', step cx s (ONodeReset m) = (s', OutTx COk d) ->
  nodes s' !! rs_creator m = Some n' -> n_role n' = 1 -> super_ok s' (rs_creator m) n'.
Proof. first [exact reset_promotion_sound | apply reset_promotion_sound]. Qed.
Print Assumptions C20_reset_promotion_sound.

Theorem C20_add_vstorage_promotion_sound : forall cx s c sz s' d n n', step cx s (OAddVstorage c sz) = (s', OutTx COk d) ->
  nodes s !! c = Some n -> n_role n = 0 -> nodes s' !! c = Some n' -> n_role n' = 1 -> super_ok s' c n'.
Proof. first [exact add_vstorage_promotion_sound | apply add_vstorage_promotion_sound]. Qed.
Print Assumptions C20_add_vstorage_promotion_sound.

Theorem C20_remove_vstorage_demotes_partial : forall cx s c sz s' d n' p', step cx s (ORemoveVstorage c sz) = (s', OutTx COk d) ->
  nodes s' !! c = Some n' -> pledges s' !! c = Some p' -> pl_total p' < np_vthreshold (nparams s') -> n_role n' <> 1.
Proof. first [exact remove_vstorage_demotes_partial | apply remove_vstorage_demotes_partial]. Qed.
Print Assumptions C20_remove_vstorage_demotes_partial.

Theorem C20_remove_vstorage_demotes_wf : forall cx s c sz s' d n' p',
  (forall n, nodes s !! c = Some n -> n_role n = 0 \/ n_role n = 1) ->
  step cx s (ORemoveVstorage c sz) = (s', OutTx COk d) ->
  nodes s' !! c = Some n' -> pledges s' !! c = Some p' -> pl_total p' < np_vthreshold (nparams s') -> n_role n' = 0.
Proof. first [exact remove_vstorage_demotes_wf | apply remove_vstorage_demotes_wf]. Qed.
Print Assumptions C20_remove_vstorage_demotes_wf.

Theorem C20_delegate_promotion_sound_partial : forall cx s del val key existed amount v' d' s' d addr n n',
  pg s = 0 -> step cx s (OStaking (ev_delegate del val key existed amount v' d')) = (s', OutTx COk d) ->
  (existed = true <-> is_Some (del_shares s del val)) -> dl_del d' = del -> dl_val d' = val ->
  (* the key is the delegation's own key: no other record for (del,val) *)
  (forall k x, dels s !! k = Some x -> dl_del x = del -> dl_val x = val -> k = key) ->
  (* added: Delegate does not lower the delegator's shares *)
  (forall old, del_shares s del val = Some old -> old <= dl_shares d') ->
  nodes s !! addr = Some n -> n_role n = 0 -> nodes s' !! addr = Some n' -> n_role n' = 1 -> super_ok s' addr n'.
Proof. first [exact delegate_promotion_sound_partial | apply delegate_promotion_sound_partial]. Qed.
Print Assumptions C20_delegate_promotion_sound_partial.

Theorem C20_unbond_partial_promotion_sound : forall cx s del val key d' v' s' d v old new addr n n',
  step cx s (OStaking (ev_unbond_partial del val key d' v')) = (s', OutTx COk d) ->
  vals s !! val = Some v -> del_shares s del val = Some old ->
  dl_del d' = del -> dl_val d' = val -> dl_shares d' = new -> 0 <= new -> new < old ->
  v_shares v' = v_shares v - (old - new) ->
  (forall k x, dels s !! k = Some x -> dl_del x = del -> dl_val x = val -> k = key) ->
  nodes s !! addr = Some n -> n_role n = 0 -> nodes s' !! addr = Some n' -> n_role n' = 1 -> super_ok s' addr n'.
Proof. first [exact unbond_partial_promotion_sound | apply unbond_partial_promotion_sound]. Qed.
Print Assumptions C20_unbond_partial_promotion_sound.

Theorem C20_delegate_supers_sound : forall cx s del val key existed amount v' d' s' d k x n',
  pg s = 0 -> step cx s (OStaking (ev_delegate del val key existed amount v' d')) = (s', OutTx COk d) ->
  dl_del d' = del -> dl_val d' = val ->
  (forall k x, dels s !! k = Some x -> dl_del x = del -> dl_val x = val -> k = key) ->
  (forall old, del_shares s del val = Some old -> old <= dl_shares d') ->
  dels s' !! k = Some x -> dl_val x = val ->
  nodes s' !! dl_del x = Some n' -> n_val n' = val -> n_role n' = 1 -> super_ok s' (dl_del x) n'.
Proof. first [exact delegate_supers_sound | apply delegate_supers_sound]. Qed.
Print Assumptions C20_delegate_supers_sound.

Theorem C20_promotion_with_residue_refuted : exists cx s evs s' d addr n n',
  step cx s (OStaking evs) = (s', OutTx COk d) /\ nodes s !! addr = Some n /\ n_role n = 0 /\
  nodes s' !! addr = Some n' /\ n_role n' = 1 /\ ~ super_ok s' addr n'.
Proof. first [exact promotion_with_residue_refuted | apply promotion_with_residue_refuted]. Qed.
Print Assumptions C20_promotion_with_residue_refuted.

Theorem C20_delegate_promotion_sound_refuted : exists cx s del val key existed amount v' d' s' d addr n n',
  pg s = 0 /\ step cx s (OStaking (ev_delegate del val key existed amount v' d')) = (s', OutTx COk d) /\
  (existed = true <-> is_Some (del_shares s del val)) /\ dl_del d' = del /\ dl_val d' = val /\
  (forall k x, dels s !! k = Some x -> dl_del x = del -> dl_val x = val -> k = key) /\
  nodes s !! addr = Some n /\ n_role n = 0 /\ nodes s' !! addr = Some n' /\ n_role n' = 1 /\ ~ super_ok s' addr n'.
Proof. first [exact delegate_promotion_sound_refuted | apply delegate_promotion_sound_refuted]. Qed.
Print Assumptions C20_delegate_promotion_sound_refuted.

(* the validator-change clause - after the hook of a bonded / unbonding / removed validator every delegator node of it that still holds the role satisfies the requirements *)
Theorem C20_val_hook_supers_sound : forall val s s' k x n',
  st_event (EvValHook val) s = Ok tt s' ->
  dels s !! k = Some x -> dl_val x = val ->
  nodes s' !! dl_del x = Some n' -> n_val n' = val -> n_role n' = 1 -> super_ok s' (dl_del x) n'.
Proof. first [exact val_hook_supers_sound | apply val_hook_supers_sound]. Qed.
Print Assumptions C20_val_hook_supers_sound.

Theorem C20_val_hook_frame : forall val s s', st_event (EvValHook val) s = Ok tt s' ->
  pg s' = 0 /\ pledges s' = pledges s /\ nparams s' = nparams s /\ vals s' = vals s /\ dels s' = dels s.
Proof. first [exact val_hook_frame | apply val_hook_frame]. Qed.
Print Assumptions C20_val_hook_frame.
