(* C15 -- Replica placement: distinct, eligible providers with enough free capacity.

   [random_sp] (Model/Select.v) is the model of RandomSP / GetNextSuperNodes /
   SelectNodes / RandomIndex; it is compared with the real keeper functions on generated
   node populations, ignore lists, counts and seeds (profile "select") and through every
   Store / Ready / Migrate / timeout in the application histories. *)
From SaoVerif Require Import Base.Prelude Base.Ints Base.Dec Model.Did Model.Types Model.Monad Model.Select Model.Node
     Model.Storage Model.Sao Model.Hooks Model.App Model.Spec Proofs.SelectFacts Proofs.SelectApp Proofs.Placement Proofs.MigratePl Proofs.InRange.

(* Whatever the node population, ignore list, requested count and seed: the chosen
   providers are pairwise distinct, each is a registered node that is online, serves
   storage, accepts orders, has reputation above the floor and enough free capacity for
   the shard, none is on the ignore list, and no more than requested are chosen. *)
Theorem C15_placement : forall nodes pledges round0 seed count ignore size sps r, 0 <= seed ->
  random_sp nodes pledges round0 seed count ignore size = SelOk (sps, r) ->
  NoDup (map c_addr sps) /\
  (forall c, In c sps -> nodes !! c_addr c = Some (c_node c) /\ eligible pledges size c = true /\ in_list (c_addr c) ignore = false) /\
  Z.of_nat (length sps) <= Z.max 0 count.
Proof. exact random_sp_spec. Qed.
Print Assumptions C15_placement.

(* the index draw: distinct indices below the candidate count, exactly as many as asked *)
Theorem C15_random_index : forall seed total count idx, 0 <= seed -> random_index seed total count = SelOk idx ->
  NoDup idx /\ Forall (fun i => 0 <= i < total) idx /\ (0 < count < total -> Z.of_nat (length idx) = count) /\
  (~ (0 < count < total) -> idx = []).
Proof. exact random_index_spec. Qed.
Print Assumptions C15_random_index.

(* the heap selection only permutes: it returns a sub-multiset of its input *)
Theorem C15_select_nodes : forall k l, (exists rest, Permutation (select_nodes k l ++ rest) l) /\
  length (select_nodes k l) = Nat.min k (length l).
Proof. intros k l. split; [apply select_nodes_sub | apply select_nodes_length]. Qed.
Print Assumptions C15_select_nodes.

(* the round-robin super node is a super node, eligible, not ignored; the cursor stays a byte *)
Theorem C15_next_super : forall nodes pledges round0 ignore size c r,
  next_super nodes pledges round0 ignore size = SelOk (Some (c, r)) ->
  In c (super_cands nodes) /\ in_list (c_addr c) ignore = false /\ eligible pledges size c = true /\ 0 <= r < 256.
Proof. exact next_super_spec. Qed.
Print Assumptions C15_next_super.

(* a new order is rejected rather than under-replicated: an accepted selection has exactly
   [replica] distinct eligible providers *)
Theorem C15_never_under_replicated : forall cx o data s sps s', 0 <= cx_seed cx -> o_op o = 1 ->
  get_sps cx o data s = Ok sps s' ->
  Z.of_nat (length sps) = o_replica o /\ 0 < o_replica o /\ NoDup sps /\
  (forall a, In a sps -> exists n, nodes s !! a = Some n /\ eligible (pledges s) (i64 (o_size o)) (mkCand a n) = true).
Proof. exact get_sps_new_spec. Qed.
Print Assumptions C15_never_under_replicated.

(* termination of the selection (the part of C02 that lives here), for seeds of at most
   400 decimal digits (an application hash has 32 bytes) *)
Theorem C15_selection_terminates : forall nodes pledges round0 seed count ignore size, 0 <= seed -> seed < 10 ^ 400 ->
  random_sp nodes pledges round0 seed count ignore size <> SelHang.
Proof. exact random_sp_terminates. Qed.
Print Assumptions C15_selection_terminates.

(* non-vacuity *)
Example C15_nonvacuous : random_index 0 3 2 = SelOk [0; 1] /\ random_index 999 5 4 = SelOk [4; 0; 1; 2].
Proof. split; vm_compute; reflexivity. Qed.

(* the retry after a timeout, at the call site (HandleTimeoutOrder): every shard the check creates belongs to
   the order and waits for a provider that is eligible, neither holds nor has timed out on a shard of the
   order, and differs from the providers of the other new shards *)
Theorem C15_timeout_new_shards_fresh : forall cx oid s s' o,
  handle_timeout_order cx oid s = Ok tt s' -> orders s !! oid = Some o -> 0 <= cx_seed cx ->
  0 <= shard_count s -> shard_count s + Z.of_nat (length (o_shards o)) < two64 -> fresh_above s ->
  forall id sh', shards s' !! id = Some sh' -> shards s !! id = None ->
    sh_order sh' = oid /\ sh_status sh' = ShardWaiting /\
    (forall id0 sh0, In id0 (o_shards o) -> shards s !! id0 = Some sh0 -> sh_sp sh0 <> sh_sp sh') /\
    (exists n, nodes s !! sh_sp sh' = Some n /\ eligible (pledges s) (i64 (o_size o)) (mkCand (sh_sp sh') n) = true) /\
    (forall id2 sh2, id2 <> id -> shards s' !! id2 = Some sh2 -> shards s !! id2 = None -> sh_sp sh2 <> sh_sp sh').
Proof. exact timeout_new_shards_fresh. Qed.
Print Assumptions C15_timeout_new_shards_fresh.

(* the migration call site (Migrate): every shard the transaction creates is a Migrating shard handed over by the
   requesting provider, listed by its order, on a provider that is eligible for its size and differs from the
   provider of every other shard that order lists when the transaction ends (shards created earlier in the same
   transaction included) *)
Theorem C15_migrate_new_shards_fresh : forall cx creator provider data s s',
  sao_migrate cx creator provider data s = Ok tt s' -> 0 <= cx_seed cx ->
  fresh_above s -> 0 <= shard_count s -> shard_count s + Z.of_nat (budgets s data) < two64 ->
  (forall oid o id, orders s !! oid = Some o -> In id (o_shards o) -> id < shard_count s) ->
  forall id sh', shards s' !! id = Some sh' -> shards s !! id = None ->
    sh_status sh' = ShardMigrating /\ sh_from sh' = provider /\
    (exists o', orders s' !! sh_order sh' = Some o' /\ In id (o_shards o') /\
       forall id0 sh0, In id0 (o_shards o') -> id0 <> id -> shards s' !! id0 = Some sh0 -> sh_sp sh0 <> sh_sp sh') /\
    (exists n, nodes s !! sh_sp sh' = Some n /\ eligible (pledges s) (i64 (sh_size sh')) (mkCand (sh_sp sh') n) = true).
Proof. exact migrate_new_shards_fresh. Qed.
Print Assumptions C15_migrate_new_shards_fresh.

(* the re-assignment loop of HandleTimeoutOrder indexes timeoutShards[i] for every provider RandomSP returned (the model
   pairs the lists with combine): asked for as many providers as shards have stalled, RandomSP never returns more, so the
   index is in range and nothing is cut off *)
Theorem C15_reassignment_index_in_range : forall {A} cx (stalled : list A) ignore size s sps s',
  0 <= cx_seed cx -> random_sp_m cx (Z.of_nat (length stalled)) ignore size s = Ok sps s' ->
  (length sps <= length stalled)%nat /\ length (combine sps stalled) = length sps.
Proof. intros A. exact (@reassignment_index_in_range A). Qed.
Print Assumptions C15_reassignment_index_in_range.
