(* C04 -- Order payment conservation: charged once, paid out only as income or refund.

   Proved per operation: an accepted Store charges exactly one account exactly the quoted
   price (ceil of 10^-6 x size x replicas x duration) into the order escrow and nothing else
   moves; the first completion moves exactly that amount to the market escrow (for updates
   that are not force-pushes; a force-push also settles the replaced order in the same
   transaction -- first_complete_deposits_refuted shows the plain statement false there);
   a cancellation refunds exactly the amount charged; coins are created only by the block
   reward and all other operations conserve the sum of balances (C06/C08 files).
   NOT proved: the history-level equation income + refunds = charged for every way an order
   ends. It is evaluated as monitors on the implementation (cons.market_no_orphan,
   solv.market, solv.order) at every block boundary of every history. *)
From SaoVerif Require Import Base.Prelude Base.Ints Base.Dec Model.Did Model.Types Model.Monad Model.Bank Model.Select Model.Node Model.Storage Model.Sao Model.Hooks Model.App Model.Spec Proofs.Frame Proofs.Money.
From RecordUpdate Require Import RecordUpdate.
Import RecordSetNotations.

Theorem C04_store_charges_quote_core : forall cx s m s' d, step cx s (OStore m) = (s', OutTx COk d) ->
  exists payer oid o, (exists x, pay_addr s x = Some payer) /\ orders s' !! oid = Some o /\ oid = order_count s /\
    o_amount o = quote (if st_size m =? 0 then 1 else st_size m) (st_replica m) (st_duration m) /\ 0 < o_amount o /\
    o_amount o <= balance s payer /\
    (payer <> macc ORDER ->
     balance s' payer = balance s payer - o_amount o /\ balance s' (macc ORDER) = balance s (macc ORDER) + o_amount o) /\
    (payer = macc ORDER -> forall a, balance s' a = balance s a) /\
    (forall a, a <> payer -> a <> macc ORDER -> bal s' !! a = bal s !! a) /\
    (forall k, k <> oid -> orders s' !! k = orders s !! k).
Proof. first [exact store_charges_quote_core | apply store_charges_quote_core]. Qed.
Print Assumptions C04_store_charges_quote_core.

Theorem C04_store_charges_quote_partial : forall cx s m s' d, step cx s (OStore m) = (s', OutTx COk d) ->
  pay_not_escrow s -> orders s !! order_count s = None ->
  exists payer oid o, orders s !! oid = None /\ orders s' !! oid = Some o /\ oid = order_count s /\
    o_amount o = quote (if st_size m =? 0 then 1 else st_size m) (st_replica m) (st_duration m) /\ 0 < o_amount o /\
    payer <> macc ORDER /\
    balance s' payer = balance s payer - o_amount o /\ balance s' (macc ORDER) = balance s (macc ORDER) + o_amount o /\
    (forall a, a <> payer -> a <> macc ORDER -> bal s' !! a = bal s !! a).
Proof. first [exact store_charges_quote_partial | apply store_charges_quote_partial]. Qed.
Print Assumptions C04_store_charges_quote_partial.

Theorem C04_first_complete_deposits_partial : forall cx s c p oid cid sz ok s' d o, step cx s (OComplete c p oid cid sz ok) = (s', OutTx COk d) ->
  orders s !! oid = Some o -> o_status o <> OrderCompleted ->
  (forall sid sh, shard_by_sp s o p = Some (sid, sh) -> sh_status sh = ShardWaiting) ->
  o_op o <> 2 -> p <> macc ORDER -> p <> macc MARKET ->
  balance s' (macc ORDER) = balance s (macc ORDER) - o_amount o /\ balance s' (macc MARKET) = balance s (macc MARKET) + o_amount o.
Proof. first [exact first_complete_deposits_partial | apply first_complete_deposits_partial]. Qed.
Print Assumptions C04_first_complete_deposits_partial.

Theorem C04_first_complete_deposits_refuted :
  exists cx s c p oid cid sz ok s' d o, step cx s (OComplete c p oid cid sz ok) = (s', OutTx COk d) /\
    orders s !! oid = Some o /\ o_status o <> OrderCompleted /\
    (forall sid sh, shard_by_sp s o p = Some (sid, sh) -> sh_status sh = ShardWaiting) /\
    p <> macc ORDER /\ p <> macc MARKET /\
    ~ (balance s' (macc ORDER) = balance s (macc ORDER) - o_amount o /\ balance s' (macc MARKET) = balance s (macc MARKET) + o_amount o).
Proof. first [exact first_complete_deposits_refuted | apply first_complete_deposits_refuted]. Qed.
Print Assumptions C04_first_complete_deposits_refuted.

Theorem C04_cancel_order_post : forall cx oid s s' o payer, cancel_order cx oid s = Ok tt s' -> orders s !! oid = Some o ->
  pay_addr s (if String.eqb (o_paydid o) "" then o_owner o else o_paydid o) = Some payer -> payer <> macc ORDER ->
  balance s' payer = balance s payer + o_amount o /\ balance s' (macc ORDER) = balance s (macc ORDER) - o_amount o /\
  (forall a, a <> payer -> a <> macc ORDER -> bal s' !! a = bal s !! a) /\
  orders s' !! oid = None /\ (forall k, k <> oid -> orders s' !! k = orders s !! k) /\
  shards s' = shards s /\ pledges s' = pledges s /\ workers s' = workers s /\ debts s' = debts s /\ pool s' = pool s /\
  (forall k, k <> o_data o -> metas s' !! k = metas s !! k) /\
  match metas s !! o_data o with
  | None => metas s' = metas s /\ models s' = models s
  | Some em =>
      match last_opt (m_commits em) with
      | None => metas s' !! o_data o = None /\ models s' !! meta_key em = None   (* never committed: the model and its alias cease to exist *)
      | Some lastv => exists em', metas s' !! o_data o = Some em' /\ m_status em' = MetaComplete /\
                        m_commit em' = commit_of_version lastv /\ m_commits em' = m_commits em /\ m_orders em' = m_orders em /\
                        m_owner em' = m_owner em /\ m_rw em' = m_rw em /\ m_ro em' = m_ro em /\ m_cid em' = m_cid em /\
                        models s' = models s
      end
  end.
Proof. first [exact cancel_order_post | apply cancel_order_post]. Qed.
Print Assumptions C04_cancel_order_post.

Theorem C04_step_conserves : forall cx s op, no_staking op = true ->
  sum_bal (fst (step cx s op)) - sum_bal s = supply (fst (step cx s op)) - supply s.
Proof. first [exact step_conserves | apply step_conserves]. Qed.
Print Assumptions C04_step_conserves.

Theorem C04_step_supply : forall cx s op, op <> OBeginBlock -> supply (fst (step cx s op)) = supply s.
Proof. first [exact step_supply | apply step_supply]. Qed.
Print Assumptions C04_step_supply.
