(* C17 -- DID registry integrity: bindings are proven, unique and keep a payment address.

   The did sub-machine ([Model/Did.v], tied to x/did by the step-wise correspondence
   check) touches only the ten did tables; [did_run] is its run over any operation list. *)
From SaoVerif Require Import Base.Prelude Base.Ints Model.Did Model.DidSpec Proofs.DidInv.

(* Every reachable state satisfies the registry invariant: an account is bound to at most
   one DID and is in that DID's account list exactly while bound; AccountAuth/AccountId are
   defined exactly on the listed account DIDs; a sid DID's payment address is a currently
   bound account of this chain; Kid <-> PaymentAddress for key DIDs; version lists. *)
Theorem C17_registry_invariant : forall chain ops,
  Forall op_sane ops -> Inv_did chain (did_run chain ops did_empty).
Proof. intros chain ops H. apply did_run_inv; [apply did_empty_inv | exact H]. Qed.
Print Assumptions C17_registry_invariant.

Theorem C17_invariant_step : forall chain s op,
  Inv_did chain s -> op_sane op -> Inv_did chain (did_step chain s op).
Proof. exact did_step_inv. Qed.
Print Assumptions C17_invariant_step.

(* An accepted Binding carries a proof signed by the key of the very account being bound,
   the account was unbound, the creator is bound to the DID once it exists, a new DID is
   the hash of its keys. *)
Theorem C17_binding_proven : forall chain now m s s',
  did_binding chain now m s = inr s' -> binding_authentic chain s m.
Proof. exact binding_accepted_authentic. Qed.
Print Assumptions C17_binding_proven.

(* Rotation handles exactly the stored accounts (no foreign account can be smuggled in or
   unbound), needs a bound creator, keeps the payment address and its account bound. *)
Theorem C17_update_exact : forall chain now m s s' accl,
  Inv_did chain s -> did_update chain now m s = inr s' -> d_acclist s !! u_did m = Some accl ->
  NoDup (u_remove m ++ map fst (u_update m)) /\ (forall a, In a (u_remove m ++ map fst (u_update m)) <-> In a accl).
Proof. exact update_lists_exact. Qed.
Print Assumptions C17_update_exact.

Theorem C17_update_bound_creator : forall chain now m s s',
  did_update chain now m s = inr s' -> d_did s !! cosmos_id chain (u_creator m) = Some (u_did m).
Proof. exact update_requires_bound_creator. Qed.
Print Assumptions C17_update_bound_creator.

Theorem C17_update_keeps_payment : forall chain now m s s',
  did_update chain now m s = inr s' -> d_pay s' = d_pay s.
Proof. exact update_keeps_payment. Qed.
Print Assumptions C17_update_keeps_payment.

(* key DIDs: set only by that address itself, never changes afterwards *)
Theorem C17_keydid_self_set : forall chain m s s' d, is_keydid d = true -> op_sane (OpUpdatePay m) ->
  did_update_pay chain m s = inr s' -> d_pay s !! d <> d_pay s' !! d ->
  d_pay s !! d = None /\ d_pay s' !! d = Some (p_creator m).
Proof. exact keydid_pay_self_set. Qed.
Print Assumptions C17_keydid_self_set.

Theorem C17_keydid_immutable : forall chain s op d p, Inv_did chain s -> op_sane op -> is_keydid d = true ->
  d_pay s !! d = Some p -> d_pay (did_step chain s op) !! d = Some p.
Proof. exact keydid_pay_immutable. Qed.
Print Assumptions C17_keydid_immutable.

(* The clause "the proof shows that the account accepts THAT DID" is refuted: a signature
   over a text that does not mention the DID binds the account (finding D17, confirmed on the
   real code by the scenario d17-unrelated-proof). *)
Definition d17_msg : BindingMsg :=
  {| b_creator := "sao1victim"; b_accid := "cosmos:sao-test:sao1victim"; b_root := "r1";
     b_keys := [("signing", "attackerkey")]; b_accdid := "did:key:acc1"; b_auth := ("s", "e");
     b_pdid := "did:sid:r1"; b_pts := 100; b_message := "Sign in to some other dapp, nonce 42";
     b_cosmos_signer := Some "sao1victim"; b_eth_signer := None; b_calc := Some "r1" |}.
Theorem C17_proof_names_did_refuted :
  exists s', did_binding "sao-test" 100 d17_msg did_empty = inr s' /\ proof_names_did d17_msg = false /\
             d_did s' !! "cosmos:sao-test:sao1victim" = Some "did:sid:r1" /\
             d_pay s' !! "did:sid:r1" = Some "sao1victim".
Proof. eexists. repeat split; vm_compute; reflexivity. Qed.
Print Assumptions C17_proof_names_did_refuted.

(* non-vacuity: the invariant theorem is exercised on a state with bindings, lists, payment
   addresses, a key DID and a rotated version list *)
Example C17_nonvacuous : Inv_did "sao" (did_run "sao" ex_ops2 did_empty) /\ Forall op_sane ex_ops2.
Proof. split; [exact ex_run_inv2 | exact ex_ops_sane]. Qed.
