(* C10 -- Actor authorization: providers, nodes, payers, creators act only for themselves.

   Proved: an accepted Complete comes from the provider the shard is assigned to or an
   address that provider registered, and completes a shard assigned to it; an accepted
   Cancel comes from the order's creator, or through the order's OWN gateway from an address
   it registered, for an order created by an address that gateway registered; node messages
   leave every other account's node, pledge and balance untouched; in an accepted Store the
   only account whose balance goes down is the owner DID's payment address (and then the
   submitter is bound to the owner or acts for the gateway the request names) or the
   sponsor's own address (and then the sponsor itself submitted it).
   Renewals: the payer used to be the payment address of the DID that placed the model's latest
   order (finding D20, repaired in /repo by the fix commit "a renewal order belongs to the
   model owner who signed it"); renew_payer_witness shows the repaired behaviour on the state
   that refuted the clause; the general clause is monitored (authz.renew_payer). *)
From SaoVerif Require Import Base.Prelude Base.Ints Base.Dec Model.Did Model.Types Model.Monad Model.Bank Model.Select Model.Node Model.Storage Model.Sao Model.Hooks Model.App Model.Spec Proofs.Authz.
From RecordUpdate Require Import RecordUpdate.
Import RecordSetNotations.

Theorem C10_complete_actor : forall cx s c p oid cid sz ok s' d,
  step cx s (OComplete c p oid cid sz ok) = (s', OutTx COk d) ->
  acts_for s c p = true /\ exists o sid sh, orders s !! oid = Some o /\ shard_by_sp s o p = Some (sid, sh) /\ sh_sp sh = p.
Proof. first [exact complete_actor | apply complete_actor]. Qed.
Print Assumptions C10_complete_actor.

Theorem C10_cancel_actor : forall cx s c p oid s' d,
  step cx s (OCancel c p oid) = (s', OutTx COk d) ->
  exists o, orders s !! oid = Some o /\ o_status o <> OrderCompleted /\ acts_for s c p = true /\
    (o_creator o = c \/ (p = o_provider o /\ exists n, nodes s !! o_provider o = Some n /\ In (o_creator o) (n_tx n))).
Proof. first [exact cancel_actor | apply cancel_actor]. Qed.
Print Assumptions C10_cancel_actor.

Theorem C10_node_msgs_frame : forall cx s op c k, node_op_signer op = Some c -> k <> c ->
  nodes (fst (step cx s op)) !! k = nodes s !! k /\ pledges (fst (step cx s op)) !! k = pledges s !! k /\
  (k <> macc NODE -> k <> macc MARKET -> bal (fst (step cx s op)) !! k = bal s !! k).
Proof. first [exact node_msgs_frame | apply node_msgs_frame]. Qed.
Print Assumptions C10_node_msgs_frame.

Theorem C10_store_payer : forall cx s m s' d a, step cx s (OStore m) = (s', OutTx COk d) -> balance s' a < balance s a ->
  (st_paydid m = "" /\ pay_addr s (st_owner m) = Some a /\
     (creator_bound_s cx s (st_creator m) (st_owner m) = true \/
      (st_pprovider m = st_creator m /\ st_provider m = st_creator m) \/
      (st_pprovider m = st_provider m /\ exists n, nodes s !! st_provider m = Some n /\ In (st_creator m) (n_tx n)))) \/
  (st_paydid m <> "" /\ pay_addr s (st_paydid m) = Some a /\ a = st_creator m).
Proof. first [exact store_payer | apply store_payer]. Qed.
Print Assumptions C10_store_payer.

Theorem C10_renew_payer_witness :
  let s := Witness.s1 in let m := Witness.rn1 in let s' := fst (step Witness.cx s (ORenew m)) in
  sig_sane (rn_owner m) (rn_sig m) /\ verify_sig s (rn_owner m) (rn_sig m) = Some (rn_owner m) /\
  snd (step Witness.cx s (ORenew m)) = OutTx COk "" /\
  pay_addr s (rn_owner m) = Some "ownerAddr" /\
  balance s "ownerAddr" = 100 /\ balance s' "ownerAddr" = 99 /\
  balance s "granteeAddr" = 100 /\ balance s' "granteeAddr" = 100 /\
  (exists em', metas s' !! "11111111-1111-1111-1111-111111111111" = Some em' /\ m_orders em' = [0; 1] /\ m_order em' = 1).
Proof. first [exact renew_payer_witness | apply renew_payer_witness]. Qed.
Print Assumptions C10_renew_payer_witness.
