(* C12 -- Timeout progress: every unfinished order is eventually completed or refunded.

   Step theorems about HandleTimeoutOrder / Ready (Model/Sao.v): a fully stored order is
   left alone; handing an order to providers schedules the first check; an unresolved check
   re-schedules itself, cancels the order or reduces its replicas -- unless the refund of the
   cancellation fails (cancel_stuck: the order then stays, without shards and without a
   scheduled check; needs an order whose payer has no payment address or an insolvent
   escrow). Bounded response is proved by a variant (Proofs/Progress.v): along any sequence of checks of
   one order that leave it unresolved -- with anything in between that keeps the order, its shards' providers
   and the pledged population -- the number of checks is at most 11 + the number of pledged providers not yet
   tried for the order (checks_bounded, checks_bounded_by_population); what the theorem does not cover is that
   the NEXT check is actually scheduled: the refutations below exhibit the two known ways it is not (finding D15).
   The variant of progress is proved at the call site (Proofs/Placement.v, timeout_new_shards_fresh): every
   shard a timeout check creates goes to an eligible provider that neither holds nor has timed out on a shard
   of the order, so each re-assignment uses up a provider; the clause is also the monitor
   sel.order_sps_distinct on implementation states. *)
From SaoVerif Require Import Base.Prelude Base.Ints Base.Dec Model.Did Model.Types Model.Monad Model.Bank Model.Select Model.Node Model.Storage Model.Sao Model.Hooks Model.App Model.Spec Proofs.Schedule Proofs.RefInt Proofs.Placement Proofs.Progress.
From RecordUpdate Require Import RecordUpdate.
Import RecordSetNotations.

Theorem C12_timeout_ignores_fully_stored : forall cx oid s o, orders s !! oid = Some o -> o_status o = OrderCompleted ->
  (forall id, In id (o_shards o) -> exists sh, shards s !! id = Some sh /\ sh_status sh = ShardCompleted) ->
  handle_timeout_order cx oid s = Ok tt s.
Proof. first [exact timeout_ignores_fully_stored | apply timeout_ignores_fully_stored]. Qed.
Print Assumptions C12_timeout_ignores_fully_stored.

Theorem C12_ready_schedules_timeout : forall cx s c p oid s' d, step cx s (OReady c p oid) = (s', OutTx COk d) ->
  exists o', orders s' !! oid = Some o' /\ In oid (default [] (timeouts s' !! u64 (cx_height cx + o_timeout o'))).
Proof. first [exact ready_schedules_timeout | apply ready_schedules_timeout]. Qed.
Print Assumptions C12_ready_schedules_timeout.

Theorem C12_timeout_progress_step_partial : forall cx oid s s' o, handle_timeout_order cx oid s = Ok tt s' -> orders s !! oid = Some o ->
  o_status o <> OrderPending -> u64 (cx_height cx + o_timeout o) < u64 (o_created o + o_duration o) ->
  (exists id sh, In id (o_shards o) /\ shards s !! id = Some sh /\ sh_status sh = ShardWaiting) ->
  Z.of_nat (length (o_shards o)) < two32 ->
  In oid (default [] (timeouts s' !! u64 (cx_height cx + o_timeout o))) \/
  orders s' !! oid = None \/
  (exists o', orders s' !! oid = Some o' /\ o_replica o' <> o_replica o) \/
  cancel_stuck oid o s s'.
Proof. first [exact timeout_progress_step_partial | apply timeout_progress_step_partial]. Qed.
Print Assumptions C12_timeout_progress_step_partial.

Theorem C12_timeout_progress_step_refuted : exists cx oid s s' o,
  handle_timeout_order cx oid s = Ok tt s' /\ orders s !! oid = Some o /\
  o_status o <> OrderPending /\ u64 (cx_height cx + o_timeout o) < u64 (o_created o + o_duration o) /\
  (exists id sh, In id (o_shards o) /\ shards s !! id = Some sh /\ sh_status sh = ShardWaiting) /\
  Z.of_nat (length (o_shards o)) < two32 /\
  ~ (In oid (default [] (timeouts s' !! u64 (cx_height cx + o_timeout o))) \/
     orders s' !! oid = None \/
     (exists o', orders s' !! oid = Some o' /\ o_replica o' <> o_replica o)) /\
  cancel_stuck oid o s s'.
Proof. first [exact timeout_progress_step_refuted | apply timeout_progress_step_refuted]. Qed.
Print Assumptions C12_timeout_progress_step_refuted.

Theorem C12_negative_timeout_refuted : u64 (-1) = two64 - 1 /\ forall h, 0 < h < two63 -> u64 (h + u64 (-1)) = h - 1.
Proof. first [exact negative_timeout_refuted | apply negative_timeout_refuted]. Qed.
Print Assumptions C12_negative_timeout_refuted.

Theorem C12_long_timeout_refuted : exists cx oid s o, orders s !! oid = Some o /\ o_status o = OrderDataReady /\
  (exists id sh, In id (o_shards o) /\ shards s !! id = Some sh /\ sh_status sh = ShardWaiting) /\
  handle_timeout_order cx oid s = Ok tt s /\ timeouts s = ∅.
Proof. first [exact long_timeout_refuted | apply long_timeout_refuted]. Qed.
Print Assumptions C12_long_timeout_refuted.

(* the variant of progress - every re-assignment uses up a fresh eligible provider *)
Theorem C12_timeout_new_shards_fresh : forall cx oid s s' o,
  handle_timeout_order cx oid s = Ok tt s' -> orders s !! oid = Some o -> 0 <= cx_seed cx ->
  0 <= shard_count s -> shard_count s + Z.of_nat (length (o_shards o)) < two64 -> fresh_above s ->
  forall id sh', shards s' !! id = Some sh' -> shards s !! id = None ->
    sh_order sh' = oid /\ sh_status sh' = ShardWaiting /\
    (forall id0 sh0, In id0 (o_shards o) -> shards s !! id0 = Some sh0 -> sh_sp sh0 <> sh_sp sh') /\
    (exists n, nodes s !! sh_sp sh' = Some n /\ eligible (pledges s) (i64 (o_size o)) (mkCand (sh_sp sh') n) = true) /\
    (forall id2 sh2, id2 <> id -> shards s' !! id2 = Some sh2 -> shards s !! id2 = None -> sh_sp sh2 <> sh_sp sh').
Proof. first [exact timeout_new_shards_fresh | apply timeout_new_shards_fresh]. Qed.
Print Assumptions C12_timeout_new_shards_fresh.

Theorem C12_timeout_reassign_nonvacuous :
  exists s' o, handle_timeout_order (W.cxh 105) 1 W.s1 = Ok tt s' /\ orders W.s1 !! 1 = Some o /\
    fresh_above W.s1 /\ shard_count W.s1 = 2 /\ shards W.s1 !! 2 = None /\
    (exists sh, shards W.s1 !! 1 = Some sh /\ sh_sp sh = "T") /\
    (exists sh', shards s' !! 2 = Some sh' /\ sh_sp sh' = "S" /\ sh_status sh' = ShardWaiting) /\
    (exists sh1, shards s' !! 1 = Some sh1 /\ sh_status sh1 = ShardTimeout).
Proof. first [exact timeout_reassign_nonvacuous | apply timeout_reassign_nonvacuous]. Qed.
Print Assumptions C12_timeout_reassign_nonvacuous.

(* every check resolves the order or finds it young or re-assigns to providers not yet tried *)
Theorem C12_timeout_check_cases : forall cx oid s s' o,
  handle_timeout_order cx oid s = Ok tt s' -> orders s !! oid = Some o ->
  o_status o <> OrderPending -> u64 (cx_height cx + o_timeout o) < u64 (o_created o + o_duration o) ->
  has_waiting s o -> side cx s o ->
  resolved oid s' \/ young cx oid o s s' \/ reassigned oid o s s'.
Proof. first [exact timeout_check_cases | apply timeout_check_cases]. Qed.
Print Assumptions C12_timeout_check_cases.

(* bounded response by a variant *)
Theorem C12_checks_bounded : forall oid tau c cxs h s o,
  chain oid tau h cxs s -> orders s !! oid = Some o -> o_created o = c -> 0 < tau < two31 -> 0 <= c <= h ->
  Z.of_nat (length cxs) <= Z.max 0 ((c + MAX_TRIES * tau - h) / tau) + Z.of_nat (untried s o) + 1.
Proof. first [exact checks_bounded | apply checks_bounded]. Qed.
Print Assumptions C12_checks_bounded.

Theorem C12_checks_bounded_by_population : forall oid tau cxs h s o,
  chain oid tau h cxs s -> orders s !! oid = Some o -> 0 < tau < two31 -> 0 <= o_created o <= h ->
  Z.of_nat (length cxs) <= 11 + Z.of_nat (size (pledges s)).
Proof. first [exact checks_bounded_by_population | apply checks_bounded_by_population]. Qed.
Print Assumptions C12_checks_bounded_by_population.

Theorem C12_chain_nonvacuous :
  chain 1 100 5 [W.cxh 105; W.cxh 205] W.s1 /\
  (exists o, orders W.s1 !! 1 = Some o /\ untried W.s1 o = 1%nat /\ o_created o = 5 /\ o_timeout o = 100) /\
  (exists o', orders p_s2' !! 1 = Some o' /\ untried p_s2' o' = 0%nat /\ length (o_shards o') = 2%nat).
Proof. first [exact chain_nonvacuous | apply chain_nonvacuous]. Qed.
Print Assumptions C12_chain_nonvacuous.
