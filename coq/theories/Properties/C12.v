(* C12 -- Timeout progress: every unfinished order is eventually completed or refunded.

   Step theorems about HandleTimeoutOrder / Ready (Model/Sao.v): a fully stored order is
   left alone; handing an order to providers schedules the first check; an unresolved check
   re-schedules itself, cancels the order or reduces its replicas -- unless the refund of the
   cancellation fails (cancel_stuck: the order then stays, without shards and without a
   scheduled check; needs an order whose payer has no payment address or an insolvent
   escrow). The bounded-response statement over whole histories is NOT proved; the
   refutations below exhibit the two known ways an order stays unresolved (finding D15). *)
From SaoVerif Require Import Base.Prelude Base.Ints Base.Dec Model.Did Model.Types Model.Monad Model.Bank Model.Select Model.Node Model.Storage Model.Sao Model.Hooks Model.App Model.Spec Proofs.Schedule.
From RecordUpdate Require Import RecordUpdate.
Import RecordSetNotations.

Theorem C12_timeout_ignores_fully_stored : forall cx oid s o, orders s !! oid = Some o -> o_status o = OrderCompleted ->
  (forall id, In id (o_shards o) -> exists sh, shards s !! id = Some sh /\ sh_status sh = ShardCompleted) ->
  handle_timeout_order cx oid s = Ok tt s.
Proof. first [exact timeout_ignores_fully_stored | apply timeout_ignores_fully_stored]. Qed.
Print Assumptions C12_timeout_ignores_fully_stored.

Theorem C12_ready_schedules_timeout : forall cx s c p oid s' d, step cx s (OReady c p oid) = (s', OutTx COk d) ->
  exists o', orders s' !! oid = Some o' /\ In oid (default [] (timeouts s' !! u64 (cx_height cx + o_timeout o'))).
Proof. first [exact ready_schedules_timeout | apply ready_schedules_timeout]. Qed.
Print Assumptions C12_ready_schedules_timeout.

Theorem C12_timeout_progress_step_partial : forall cx oid s s' o, handle_timeout_order cx oid s = Ok tt s' -> orders s !! oid = Some o ->
  o_status o <> OrderPending -> u64 (cx_height cx + o_timeout o) < u64 (o_created o + o_duration o) ->
  (exists id sh, In id (o_shards o) /\ shards s !! id = Some sh /\ sh_status sh = ShardWaiting) ->
  Z.of_nat (length (o_shards o)) < two32 ->
  In oid (default [] (timeouts s' !! u64 (cx_height cx + o_timeout o))) \/
  orders s' !! oid = None \/
  (exists o', orders s' !! oid = Some o' /\ o_replica o' <> o_replica o) \/
  cancel_stuck oid o s s'.
Proof. first [exact timeout_progress_step_partial | apply timeout_progress_step_partial]. Qed.
Print Assumptions C12_timeout_progress_step_partial.

Theorem C12_timeout_progress_step_refuted : exists cx oid s s' o,
  handle_timeout_order cx oid s = Ok tt s' /\ orders s !! oid = Some o /\
  o_status o <> OrderPending /\ u64 (cx_height cx + o_timeout o) < u64 (o_created o + o_duration o) /\
  (exists id sh, In id (o_shards o) /\ shards s !! id = Some sh /\ sh_status sh = ShardWaiting) /\
  Z.of_nat (length (o_shards o)) < two32 /\
  ~ (In oid (default [] (timeouts s' !! u64 (cx_height cx + o_timeout o))) \/
     orders s' !! oid = None \/
     (exists o', orders s' !! oid = Some o' /\ o_replica o' <> o_replica o)) /\
  cancel_stuck oid o s s'.
Proof. first [exact timeout_progress_step_refuted | apply timeout_progress_step_refuted]. Qed.
Print Assumptions C12_timeout_progress_step_refuted.

Theorem C12_negative_timeout_refuted : u64 (-1) = two64 - 1 /\ forall h, 0 < h < two63 -> u64 (h + u64 (-1)) = h - 1.
Proof. first [exact negative_timeout_refuted | apply negative_timeout_refuted]. Qed.
Print Assumptions C12_negative_timeout_refuted.

Theorem C12_long_timeout_refuted : exists cx oid s o, orders s !! oid = Some o /\ o_status o = OrderDataReady /\
  (exists id sh, In id (o_shards o) /\ shards s !! id = Some sh /\ sh_status sh = ShardWaiting) /\
  handle_timeout_order cx oid s = Ok tt s /\ timeouts s = ∅.
Proof. first [exact long_timeout_refuted | apply long_timeout_refuted]. Qed.
Print Assumptions C12_long_timeout_refuted.
