(* C08 -- Block-reward accounting: minted on schedule, shared pro rata, never over-claimed.

   With phi = sum over providers of (settled reward + pending reward) -- everything credited
   and not yet claimed -- the theorems say: BeginBlock mints m with 0 <= m <= BlockReward (and
   0 while nothing is pledged), moves the cumulative counter and the node escrow by exactly m;
   it raises phi by at most m (pro rata: each provider's credit grows by delta-acc x its
   capacity); a claim lowers phi by a whole number of coins of the claimer only; nothing else
   changes phi or the supply; hence over any history claimed + claimable <= initial + minted.
   Hypotheses: Settled (no pending reward on a zero-capacity pledge) and non-negative
   capacities at block starts, both preserved by every operation (step_settled); the
   refutations show they are needed for hand-built states. The sharper per-age bound
   m <= BlockReward >> age (subsidy_cap, Spec.v) is begin_block_mint_age, and the cap never grows
   again (begin_block_cap_decreases); the same bound is a monitor (mint.within_age_cap) on
   implementation states.
   The generated obligation single_mint_site says MintCoins is called at one place. *)
From SaoVerif Require Import Base.Prelude Base.Ints Base.Dec Model.Did Model.Types Model.Monad Model.Bank Model.Select Model.Node Model.Storage Model.Sao Model.Hooks Model.App Model.Spec Proofs.Accumulator Proofs.MintCap.
From RecordUpdate Require Import RecordUpdate.
Import RecordSetNotations.

Theorem C08_begin_block_mint : forall cx s s' d,
  0 <= np_reward (nparams s) ->
  step cx s OBeginBlock = (s', OutBlock BOk d) ->
  exists m, 0 <= m /\ supply s' = supply s + m /\ balance s' (macc NODE) = balance s (macc NODE) + m /\
    m <= np_reward (nparams s) /\
    (forall po, pool s = Some po -> po_pledged po = 0 -> m = 0) /\
    (forall po, pool s = Some po -> exists po', pool s' = Some po' /\ po_reward po' = po_reward po + m /\
        po_storage po' = po_storage po /\ po_pledged po' = po_pledged po) /\
    pledges s' = pledges s.
Proof. first [exact begin_block_mint | apply begin_block_mint]. Qed.
Print Assumptions C08_begin_block_mint.

Theorem C08_begin_block_phi : forall cx s s' d, Inv_pool s -> step cx s OBeginBlock = (s', OutBlock BOk d) ->
  (forall po, pool s = Some po -> 0 < po_storage po) ->
  phi s <= phi s' /\ phi s' - phi s <= dec_of_int (supply s' - supply s) /\
  (forall k p po po', pool s = Some po -> pool s' = Some po' -> pledges s !! k = Some p ->
      claimable (po_accreward po') p - claimable (po_accreward po) p = (po_accreward po' - po_accreward po) * pl_total p).
Proof. first [exact begin_block_phi | apply begin_block_phi]. Qed.
Print Assumptions C08_begin_block_phi.

Theorem C08_claim_phi : forall cx s s' d c, Settled s ->
  step cx s (OClaimReward c) = (s', OutTx COk d) -> (exists po, pool s = Some po) ->
  exists coins, 0 <= coins /\ phi s' = phi s - dec_of_int coins /\
    (forall k, k <> c -> pledges s' !! k = pledges s !! k) /\ pool s' = pool s.
Proof. first [exact claim_phi | apply claim_phi]. Qed.
Print Assumptions C08_claim_phi.

Theorem C08_other_phi : forall cx s op, Settled s -> op <> OBeginBlock -> (forall c, op <> OClaimReward c) ->
  phi (fst (step cx s op)) = phi s.
Proof. first [exact other_phi | apply other_phi]. Qed.
Print Assumptions C08_other_phi.

Theorem C08_other_supply : forall cx s op, op <> OBeginBlock -> supply (fst (step cx s op)) = supply s.
Proof. first [exact other_supply | apply other_supply]. Qed.
Print Assumptions C08_other_supply.

Theorem C08_step_settled : forall cx s op, Settled s -> (op = OBeginBlock -> Nonneg s) -> Settled (fst (step cx s op)).
Proof. first [exact step_settled | apply step_settled]. Qed.
Print Assumptions C08_step_settled.

Theorem C08_claim_pays : forall cx s s' d c, step cx s (OClaimReward c) = (s', OutTx COk d) ->
  exists p, pledges s !! c = Some p /\
    (forall a, a <> c -> a <> macc NODE -> a <> macc MARKET -> bal s' !! a = bal s !! a).
Proof. first [exact claim_pays | apply claim_pays]. Qed.
Print Assumptions C08_claim_pays.

Theorem C08_no_overclaim : forall tr s, Inv_pool s -> Settled s -> nonneg_at_blocks tr s ->
  phi (run tr s) + claimed_in tr s <= phi s + dec_of_int (minted_in tr s).
Proof. first [exact no_overclaim | apply no_overclaim]. Qed.
Print Assumptions C08_no_overclaim.

Theorem C08_other_phi_refuted : exists cx s op,
  op <> OBeginBlock /\ (forall c, op <> OClaimReward c) /\ phi (fst (step cx s op)) <> phi s.
Proof. first [exact other_phi_refuted | apply other_phi_refuted]. Qed.
Print Assumptions C08_other_phi_refuted.

Theorem C08_claim_phi_refuted : exists cx s s' d c,
  step cx s (OClaimReward c) = (s', OutTx COk d) /\ (exists po, pool s = Some po) /\
  forall coins, 0 <= coins -> phi s' <> phi s - dec_of_int coins.
Proof. first [exact claim_phi_refuted | apply claim_phi_refuted]. Qed.
Print Assumptions C08_claim_phi_refuted.

Theorem C08_begin_block_mint_refuted : exists cx s s' d,
  step cx s OBeginBlock = (s', OutBlock BOk d) /\
  ~ exists m, 0 <= m /\ supply s' = supply s + m /\ m <= np_reward (nparams s).
Proof. first [exact begin_block_mint_refuted | apply begin_block_mint_refuted]. Qed.
Print Assumptions C08_begin_block_mint_refuted.

(* sharper - a block mints at most the subsidy of the CURRENT halving age (BlockReward >> age) *)
Theorem C08_begin_block_mint_age : forall cx s s' d,
  0 <= np_reward (nparams s) ->
  (forall po, pool s = Some po -> po_reward po < TOTAL_REWARD) ->
  step cx s OBeginBlock = (s', OutBlock BOk d) ->
  0 <= supply s' - supply s <= subsidy_cap s.
Proof. first [exact begin_block_mint_age | apply begin_block_mint_age]. Qed.
Print Assumptions C08_begin_block_mint_age.

(* and that subsidy never grows again *)
Theorem C08_begin_block_cap_decreases : forall cx s s' d,
  0 <= np_reward (nparams s) ->
  (forall po, pool s = Some po -> po_reward po < TOTAL_REWARD) ->
  (forall po', pool s' = Some po' -> po_reward po' < TOTAL_REWARD) ->
  step cx s OBeginBlock = (s', OutBlock BOk d) ->
  subsidy_cap s' <= subsidy_cap s.
Proof. first [exact begin_block_cap_decreases | apply begin_block_cap_decreases]. Qed.
Print Assumptions C08_begin_block_cap_decreases.

Theorem C08_subsidy_cap_age1 :
  let po := mkPool 10 200000000000000 0 0 0 0 10 0 in
  halving_age po = 1 /\ Z.shiftr 1000 (halving_age po) = 500.
Proof. first [exact subsidy_cap_age1 | apply subsidy_cap_age1]. Qed.
Print Assumptions C08_subsidy_cap_age1.
