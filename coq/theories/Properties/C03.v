(* C03 -- Crash-restart equivalence: all consensus state lives in the committed store.

   [restart] resets the only process-level variable ([pg] = sharesBeforeModified; the
   generated obligation mutable_globals_registered says it is the only one). Proved: only
   staking transactions and simulations touch it; every successful SDK-shaped staking
   transaction leaves it zero; with it zero, a restart at any point changes nothing in any
   later run. The full statement is refuted (finding D10): a delegation that fails between
   the two hooks, or a gas simulation of it, leaves the delegator's shares behind, and a
   restart then changes the next promotion decision. *)
From SaoVerif Require Import Base.Prelude Base.Ints Base.Dec Model.Did Model.Types Model.Monad Model.Bank Model.Select Model.Node Model.Storage Model.Sao Model.Hooks Model.App Model.Spec Proofs.Frame Proofs.HooksFacts.
From RecordUpdate Require Import RecordUpdate.
Import RecordSetNotations.

Theorem C03_pg_only_staking : forall cx s op, (forall evs, op <> OStaking evs) -> (forall evs, op <> OSimulate evs) ->
  (forall evs, op = OEndBlock evs -> evs = []) -> pg (fst (step cx s op)) = pg s.
Proof. first [exact pg_only_staking | apply pg_only_staking]. Qed.
Print Assumptions C03_pg_only_staking.

Theorem C03_delegate_no_residue : forall cx s del val key existed amount v' d' s' d,
  step cx s (OStaking (ev_delegate del val key existed amount v' d')) = (s', OutTx COk d) -> pg s' = 0.
Proof. first [exact delegate_no_residue | apply delegate_no_residue]. Qed.
Print Assumptions C03_delegate_no_residue.

Theorem C03_unbond_partial_no_residue : forall cx s del val key d' v' s' d,
  step cx s (OStaking (ev_unbond_partial del val key d' v')) = (s', OutTx COk d) -> pg s' = 0.
Proof. first [exact unbond_partial_no_residue | apply unbond_partial_no_residue]. Qed.
Print Assumptions C03_unbond_partial_no_residue.

Theorem C03_unbond_full_no_residue : forall cx s del val key v' s' d,
  step cx s (OStaking (ev_unbond_full del val key v')) = (s', OutTx COk d) -> pg s' = 0.
Proof. first [exact unbond_full_no_residue | apply unbond_full_no_residue]. Qed.
Print Assumptions C03_unbond_full_no_residue.

Theorem C03_restart_id : forall s, pg s = 0 -> restart s = s.
Proof. first [exact restart_id | apply restart_id]. Qed.
Print Assumptions C03_restart_id.

Theorem C03_restart_equiv : forall tr s, pg s = 0 -> run tr (restart s) = run tr s.
Proof. first [exact restart_equiv | apply restart_equiv]. Qed.
Print Assumptions C03_restart_equiv.

Theorem C03_failed_delegate_residue : forall cx s del val sh, del_shares s del val = Some sh ->
  fst (step cx s (OStaking (ev_delegate_fails del val))) = s <| pg := sh |>.
Proof. first [exact failed_delegate_residue | apply failed_delegate_residue]. Qed.
Print Assumptions C03_failed_delegate_residue.

Theorem C03_simulate_residue : forall cx s del val sh, del_shares s del val = Some sh ->
  fst (step cx s (OSimulate (ev_delegate_fails del val))) = s <| pg := sh |>.
Proof. first [exact simulate_residue | apply simulate_residue]. Qed.
Print Assumptions C03_simulate_residue.

Theorem C03_restart_equiv_refuted : exists cx s op, pg s <> 0 /\ nodes (fst (step cx (restart s) op)) <> nodes (fst (step cx s op)).
Proof. first [exact restart_equiv_refuted | apply restart_equiv_refuted]. Qed.
Print Assumptions C03_restart_equiv_refuted.

Theorem C03_d10_crash_restart_divergence :
  let tr1 := [(d10_cx, OStaking (ev_delegate_fails "OP" "V"))] in
  let tr2 := [(d10_cx, OStaking d10_evs)] in
  pg (d10_state 0) = 0 /\
  n_role <$> nodes (run tr2 (run tr1 (d10_state 0))) !! "N" = Some 1 /\
  n_role <$> nodes (run tr2 (restart (run tr1 (d10_state 0)))) !! "N" = Some 0.
Proof. first [exact d10_crash_restart_divergence | apply d10_crash_restart_divergence]. Qed.
Print Assumptions C03_d10_crash_restart_divergence.

Theorem C03_step_keeps_staking : forall cx s op, no_staking op = true ->
  vals (fst (step cx s op)) = vals s /\ dels (fst (step cx s op)) = dels s /\ pg (fst (step cx s op)) = pg s.
Proof. first [exact step_keeps_staking | apply step_keeps_staking]. Qed.
Print Assumptions C03_step_keeps_staking.
