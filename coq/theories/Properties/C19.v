(* C19 -- Fault reports: only fishmen, only live shards, never touching others' funds.

   Proved: ReportFaults and RecoverFaults change nothing but the two fault tables and the
   fishing-reward table (all other eighteen state components are untouched), nothing else
   changes those tables, a report is accepted only from a registered node listed as fishman,
   a recovery only from the accused provider itself (serving storage) or a fishman.
   Proved (Proofs/Faults.v): after an accepted ReportFaults every fault record is an unchanged old one or
   was built from a VALID entry of the message -- an existing data model, an order of that model that
   lists the named shard, the shard exists, is held by the accused provider named in the message and
   its paid period has not ended -- filed under the reporter's address with status 1, penalty 0
   (valid_report is stated independently of the handler); an accepted RecoverFaults changes or deletes
   only records indexed under the provider the message names (for every history: fault records stay
   keyed by their own identifier, run_fault_keyed).
   The model's penalty arithmetic is the code's for Penalty = 0, which is the only reachable
   value (the penalty tick cannot decode its own index entries; see Model/Node.v do_penalty);
   a non-zero penalty is outside the declared domain. *)
From SaoVerif Require Import Base.Prelude Base.Ints Base.Dec Model.Did Model.Types Model.Monad Model.Bank Model.Select Model.Node Model.Storage Model.Sao Model.Hooks Model.App Model.Spec Proofs.Frame Proofs.Faults.
From RecordUpdate Require Import RecordUpdate.
Import RecordSetNotations.

Theorem C19_report_faults_frame : forall cx s c p fl, fault_frame s (fst (step cx s (OReportFaults c p fl))).
Proof. first [exact report_faults_frame | apply report_faults_frame]. Qed.
Print Assumptions C19_report_faults_frame.

Theorem C19_recover_faults_frame : forall cx s c p fl, fault_frame s (fst (step cx s (ORecoverFaults c p fl))).
Proof. first [exact recover_faults_frame | apply recover_faults_frame]. Qed.
Print Assumptions C19_recover_faults_frame.

Theorem C19_faults_only_by_reports : forall cx s op,
  (forall c p fl, op <> OReportFaults c p fl) -> (forall c p fl, op <> ORecoverFaults c p fl) ->
  faults (fst (step cx s op)) = faults s /\ fault_idx (fst (step cx s op)) = fault_idx s /\ fishing (fst (step cx s op)) = fishing s.
Proof. first [exact faults_only_by_reports | apply faults_only_by_reports]. Qed.
Print Assumptions C19_faults_only_by_reports.

Theorem C19_report_faults_requires_fishman : forall cx s c p fl s' d,
  step cx s (OReportFaults c p fl) = (s', OutTx COk d) ->
  is_Some (nodes s !! c) /\ is_fishman s c = true.
Proof. first [exact report_faults_requires_fishman | apply report_faults_requires_fishman]. Qed.
Print Assumptions C19_report_faults_requires_fishman.

Theorem C19_recover_faults_requires : forall cx s c p fl s' d,
  step cx s (ORecoverFaults c p fl) = (s', OutTx COk d) ->
  exists n, nodes s !! c = Some n /\
            ((c = p /\ Z.land (n_status n) STATUS_SERVE_STORAGE <> 0) \/ (c <> p /\ is_fishman s c = true)).
Proof. first [exact recover_faults_requires | apply recover_faults_requires]. Qed.
Print Assumptions C19_recover_faults_requires.

(* what a report may record (valid_report is stated independently of the handler) *)
Theorem C19_report_records_only_valid : forall cx s c p fl s' d fid f,
  step cx s (OReportFaults c p fl) = (s', OutTx COk d) -> faults s' !! fid = Some f ->
  faults s !! fid = Some f \/
  (fid = f_id f /\ f_reporter f = c /\ f_status f = 1 /\ f_penalty f = 0 /\
   exists fi, In fi (map fst fl) /\ valid_report cx s p fi /\ f_id f = fi_newid fi /\ f_order f = fi_order fi /\
              f_data f = fi_data fi /\ f_shard f = fi_shard fi /\ f_provider f = p).
Proof. first [exact report_records_only_valid | apply report_records_only_valid]. Qed.
Print Assumptions C19_report_records_only_valid.

Theorem C19_report_unknown_order_ignored : forall cx s c p f raw s' d,
  step cx s (OReportFaults c p [(f, raw)]) = (s', OutTx COk d) -> orders s !! fi_order f = None -> faults s' = faults s.
Proof. first [exact report_unknown_order_ignored | apply report_unknown_order_ignored]. Qed.
Print Assumptions C19_report_unknown_order_ignored.

(* what a recovery may touch *)
Theorem C19_recover_touches_only_accused : forall cx s c p fl s' d fid,
  step cx s (ORecoverFaults c p fl) = (s', OutTx COk d) -> fault_keyed s ->
  faults s' !! fid <> faults s !! fid -> exists raw sh, fault_idx s !! raw = Some (p, sh, fid).
Proof. first [exact recover_touches_only_accused | apply recover_touches_only_accused]. Qed.
Print Assumptions C19_recover_touches_only_accused.

Theorem C19_step_fault_keyed : forall cx s op, fault_keyed s -> fault_keyed (fst (step cx s op)).
Proof. first [exact step_fault_keyed | apply step_fault_keyed]. Qed.
Print Assumptions C19_step_fault_keyed.

(* fault records stay keyed by their own identifier in every history *)
Theorem C19_run_fault_keyed : forall tr s, fault_keyed s -> fault_keyed (run tr s).
Proof. first [exact run_fault_keyed | apply run_fault_keyed]. Qed.
Print Assumptions C19_run_fault_keyed.
