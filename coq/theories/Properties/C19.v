(* C19 -- Fault reports: only fishmen, only live shards, never touching others' funds.

   Proved: ReportFaults and RecoverFaults change nothing but the two fault tables and the
   fishing-reward table (all other eighteen state components are untouched), nothing else
   changes those tables, a report is accepted only from a registered node listed as fishman,
   a recovery only from the accused provider itself (serving storage) or a fishman.
   The model's penalty arithmetic is the code's for Penalty = 0, which is the only reachable
   value (the penalty tick cannot decode its own index entries; see Model/Node.v do_penalty);
   a non-zero penalty is outside the declared domain. *)
From SaoVerif Require Import Base.Prelude Base.Ints Base.Dec Model.Did Model.Types Model.Monad Model.Bank Model.Select Model.Node Model.Storage Model.Sao Model.Hooks Model.App Model.Spec Proofs.Frame.
From RecordUpdate Require Import RecordUpdate.
Import RecordSetNotations.

Theorem C19_report_faults_frame : forall cx s c p fl, fault_frame s (fst (step cx s (OReportFaults c p fl))).
Proof. first [exact report_faults_frame | apply report_faults_frame]. Qed.
Print Assumptions C19_report_faults_frame.

Theorem C19_recover_faults_frame : forall cx s c p fl, fault_frame s (fst (step cx s (ORecoverFaults c p fl))).
Proof. first [exact recover_faults_frame | apply recover_faults_frame]. Qed.
Print Assumptions C19_recover_faults_frame.

Theorem C19_faults_only_by_reports : forall cx s op,
  (forall c p fl, op <> OReportFaults c p fl) -> (forall c p fl, op <> ORecoverFaults c p fl) ->
  faults (fst (step cx s op)) = faults s /\ fault_idx (fst (step cx s op)) = fault_idx s /\ fishing (fst (step cx s op)) = fishing s.
Proof. first [exact faults_only_by_reports | apply faults_only_by_reports]. Qed.
Print Assumptions C19_faults_only_by_reports.

Theorem C19_report_faults_requires_fishman : forall cx s c p fl s' d,
  step cx s (OReportFaults c p fl) = (s', OutTx COk d) ->
  is_Some (nodes s !! c) /\ is_fishman s c = true.
Proof. first [exact report_faults_requires_fishman | apply report_faults_requires_fishman]. Qed.
Print Assumptions C19_report_faults_requires_fishman.

Theorem C19_recover_faults_requires : forall cx s c p fl s' d,
  step cx s (ORecoverFaults c p fl) = (s', OutTx COk d) ->
  exists n, nodes s !! c = Some n /\
            ((c = p /\ Z.land (n_status n) STATUS_SERVE_STORAGE <> 0) \/ (c <> p /\ is_fishman s c = true)).
Proof. first [exact recover_faults_requires | apply recover_faults_requires]. Qed.
Print Assumptions C19_recover_faults_requires.
