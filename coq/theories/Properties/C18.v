(* C18 -- Genesis export/import round trip preserves storage-module state.

   [export_import] (Model/Genesis.v) is the model of ExportGenesis followed by
   InitGenesis of the six storage modules; it is compared with the real application
   (ExportAppStateAndValidators, Validate, InitChain of a fresh app) at random block
   boundaries of the "genesis" histories, which then continue on the re-imported
   application. Which store prefixes have no genesis field is re-derived from the Go
   source on every run (Obligations/ObGenesis.v). *)
From SaoVerif Require Import Base.Prelude Base.Ints Base.Dec Model.Did Model.Types Model.Monad Model.Bank Model.Select
     Model.Node Model.Storage Model.Sao Model.Hooks Model.App Model.Spec Model.Genesis.
From RecordUpdate Require Import RecordUpdate.
Import RecordSetNotations.

(* the round trip is exact on everything the genesis files carry ... *)
Theorem C18_roundtrip_when_exported : forall s, unexported_empty s -> export_import s = s.
Proof.
  intros s (H1 & H2 & H3 & H4). destruct s. unfold export_import. cbn in *. subst. reflexivity.
Qed.
Print Assumptions C18_roundtrip_when_exported.

(* ... exporting again changes nothing more ... *)
Theorem C18_idempotent : forall s, export_import (export_import s) = export_import s.
Proof. intros s. destruct s. reflexivity. Qed.
Print Assumptions C18_idempotent.

(* ... and the re-initialised chain then behaves exactly as the original on every later
   sequence of blocks and transactions *)
Theorem C18_continuation : forall s tr, unexported_empty s -> run tr (export_import s) = run tr s.
Proof. intros s tr H. rewrite C18_roundtrip_when_exported by exact H. reflexivity. Qed.
Print Assumptions C18_continuation.

(* every table other than the four without a genesis field survives in any state *)
Theorem C18_exported_tables : forall s,
  let s' := export_import s in
  did s' = did s /\ nodes s' = nodes s /\ pledges s' = pledges s /\ debts s' = debts s /\ pool s' = pool s /\
  nparams s' = nparams s /\ orders s' = orders s /\ order_count s' = order_count s /\ shards s' = shards s /\
  shard_count s' = shard_count s /\ metas s' = metas s /\ models s' = models s /\ expdata s' = expdata s /\
  timeouts s' = timeouts s /\ expshards s' = expshards s /\ workers s' = workers s /\ bal s' = bal s /\ supply s' = supply s.
Proof. intros s. destruct s. cbn. repeat split. Qed.
Print Assumptions C18_exported_tables.

(* The full statement is refuted (finding D18): faults, fishing rewards and the super-node
   cursor are lost, and the cursor reset changes the next placement. *)
Definition d18_node (st role : Z) : Node := mkNode "" 10000 st 0 [] role "".
Definition d18_state : State :=
  mkState did_empty
    (list_to_map [("s1", d18_node 13 1); ("s2", d18_node 13 1)])
    (list_to_map [("s1", mkPledge 0 0 0 0 1000 0); ("s2", mkPledge 0 0 0 0 1000 0)])
    ∅ (Some (mkPool 0 0 0 0 0 0 2000 0)) (Some 1) ∅ ∅ ∅
    (mkNParams 1000 1000000000 500000000000000000 32000000 2000 100000000000000000 "" 1 10000 5000000 1800)
    ∅ 1 ∅ 0 ∅ ∅ ∅ ∅ ∅ ∅ ∅ 0 ∅ ∅ 0.
Definition d18_cx : Ctx := {| cx_height := 5; cx_chain := "c"; cx_time := 0; cx_seed := 7 |}.

Theorem C18_roundtrip_refuted : export_import d18_state <> d18_state.
Proof. intros H. apply (f_equal round) in H. vm_compute in H. discriminate. Qed.
Print Assumptions C18_roundtrip_refuted.

Theorem C18_continuation_refuted :
  exists sps1 sps2 s1 s2, random_sp_m d18_cx 1 [] 10 d18_state = Ok sps1 s1 /\
                          random_sp_m d18_cx 1 [] 10 (export_import d18_state) = Ok sps2 s2 /\ sps1 <> sps2.
Proof. do 4 eexists. split; [vm_compute; reflexivity|]. split; [vm_compute; reflexivity|]. discriminate. Qed.
Print Assumptions C18_continuation_refuted.
