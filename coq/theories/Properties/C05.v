(* C05 -- Full refund and clean rollback when storage never started.

   Proved: the postcondition of CancelOrder (used by the Cancel message and by the timeout
   end-blocker): the payer gets back exactly the amount charged from the order escrow, the
   order disappears, no pledge, worker or debt changes, and the data model returns to its
   last committed version (status, commit, order lists, owner, grants, cid unchanged) or
   ceases to exist together with its alias when it had none; for the Cancel message also
   that every shard of the order disappears and no other shard changes; a pending order that
   times out is cancelled the same way (or nothing changes if the refund fails).
   History level (Proofs/MetaSched.v): after a rollback, as in every reachable state, the model is listed for
   removal exactly where its (restored) lifetime ends (run_meta_scheduled). *)
From SaoVerif Require Import Base.Prelude Base.Ints Base.Dec Model.Did Model.Types Model.Monad Model.Bank Model.Select Model.Node Model.Storage Model.Sao Model.Hooks Model.App Model.Spec Proofs.Money Proofs.MetaSched Proofs.DataSched.
From RecordUpdate Require Import RecordUpdate.
Import RecordSetNotations.

Theorem C05_cancel_order_post : forall cx oid s s' o payer, cancel_order cx oid s = Ok tt s' -> orders s !! oid = Some o ->
  pay_addr s (if String.eqb (o_paydid o) "" then o_owner o else o_paydid o) = Some payer -> payer <> macc ORDER ->
  balance s' payer = balance s payer + o_amount o /\ balance s' (macc ORDER) = balance s (macc ORDER) - o_amount o /\
  (forall a, a <> payer -> a <> macc ORDER -> bal s' !! a = bal s !! a) /\
  orders s' !! oid = None /\ (forall k, k <> oid -> orders s' !! k = orders s !! k) /\
  shards s' = shards s /\ pledges s' = pledges s /\ workers s' = workers s /\ debts s' = debts s /\ pool s' = pool s /\
  (forall k, k <> o_data o -> metas s' !! k = metas s !! k) /\
  match metas s !! o_data o with
  | None => metas s' = metas s /\ models s' = models s
  | Some em =>
      match last_opt (m_commits em) with
      | None => metas s' !! o_data o = None /\ models s' !! meta_key em = None   (* never committed: the model and its alias cease to exist *)
      | Some lastv => exists em', metas s' !! o_data o = Some em' /\ m_status em' = MetaComplete /\
                        m_commit em' = commit_of_version lastv /\ m_commits em' = m_commits em /\ m_orders em' = m_orders em /\
                        m_owner em' = m_owner em /\ m_rw em' = m_rw em /\ m_ro em' = m_ro em /\ m_cid em' = m_cid em /\
                        models s' = models s
      end
  end.
Proof. first [exact cancel_order_post | apply cancel_order_post]. Qed.
Print Assumptions C05_cancel_order_post.

Theorem C05_cancel_msg_post : forall cx s c p oid s' d o, step cx s (OCancel c p oid) = (s', OutTx COk d) -> orders s !! oid = Some o ->
  (forall id sh, In id (o_shards o) -> shards s !! id = Some sh -> sh_status sh <> ShardCompleted) ->
  orders s' !! oid = None /\ (forall id, In id (o_shards o) -> shards s' !! id = None) /\
  (forall id, ~ In id (o_shards o) -> shards s' !! id = shards s !! id) /\
  pledges s' = pledges s /\ workers s' = workers s /\ debts s' = debts s /\
  exists payer, pay_addr s (if String.eqb (o_paydid o) "" then o_owner o else o_paydid o) = Some payer /\
    (payer <> macc ORDER -> balance s' payer = balance s payer + o_amount o).
Proof. first [exact cancel_msg_post | apply cancel_msg_post]. Qed.
Print Assumptions C05_cancel_msg_post.

Theorem C05_timeout_pending_cancels_exact : forall cx oid s s' o, handle_timeout_order cx oid s = Ok tt s' -> orders s !! oid = Some o ->
  o_status o = OrderPending -> cancel_order cx oid s = Ok tt s' \/ (cancel_order cx oid s = Err "RefundOrder" s /\ s' = s).
Proof. first [exact timeout_pending_cancels_exact | apply timeout_pending_cancels_exact]. Qed.
Print Assumptions C05_timeout_pending_cancels_exact.

(* in every reachable state every data model is listed for removal exactly where its lifetime ends *)
Theorem C05_run_meta_scheduled : forall tr s,
  Forall (fun co : Ctx * Op => height_ok co.1) tr -> Inv_msched s -> Inv_msched (run tr s).
Proof. first [exact run_meta_scheduled | apply run_meta_scheduled]. Qed.
Print Assumptions C05_run_meta_scheduled.

(* ... exactly once and the schedule lists nothing else - a rollback or removal leaves no stale entry behind *)
Theorem C05_run_data_schedule : forall tr s,
  Forall (fun co : Ctx * Op => height_ok co.1) tr -> Inv_ds s -> Inv_ds (run tr s).
Proof. first [exact run_data_schedule | apply run_data_schedule]. Qed.
Print Assumptions C05_run_data_schedule.

Theorem C05_scheduled_entry_is_live : forall tr s h l d,
  Forall (fun co : Ctx * Op => height_ok co.1) tr -> Inv_ds s ->
  expdata (run tr s) !! h = Some l -> In d l -> exists m, metas (run tr s) !! d = Some m /\ expiry m = h.
Proof. first [exact scheduled_entry_is_live | apply scheduled_entry_is_live]. Qed.
Print Assumptions C05_scheduled_entry_is_live.
