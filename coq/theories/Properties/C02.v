(* C02 -- Chain liveness: block processing always completes, never halts the chain.

   Proved: no transaction and no block phase of the model ever fails to return (the only loops
   that are not structural are the seed-consuming index draw and the super-node scan; both are
   repaired in the code -- D1, D3 -- and proved terminating), for every state, operation and
   seed of at most 400 decimal digits. The selection kernels terminate (C15 file).
   NOT proved as a theorem: absence of panics in BeginBlock / EndBlock for every reachable
   state. It depends on global invariants (collateral counters, duplicate-free schedules,
   bounded reward counter) that are evaluated as monitors on implementation states, and it is
   false for validated parameter sets: finding D19 (BlockReward above half the total reward
   panics at the third minted block), exhibited on the model below (begin_block_mint_refuted
   shows the reward bound needs a non-negative parameter; the D19 scenario halts both the
   model and the real chain). Every halt or hang of the implementation in any generated
   history is reported as a violation with that history as replay.

   BeginBlock (Proofs/BeginLive.v): with a block reward of at most half the total reward, a halving period of at
   least 2 and a non-negative APY, BeginBlock never panics in any state reachable from a state in which the pool totals
   are the sums over providers, every provider's capacity is 10^6 bytes per pledged coin and the reward counter is below
   the total -- three invariants proved preserved by EVERY operation (step_live), so no BeginBlock of any run halts the
   chain (run_begin_block_never_halts). A block reward above half the total is finding D19 (begin_block_mint_refuted).
   Panic-freedom of EndBlock is not proved; it is tested (halt detection on every generated history). *)
From SaoVerif Require Import Base.Prelude Base.Ints Base.Dec Model.Did Model.Types Model.Monad Model.Bank Model.Select Model.Node Model.Storage Model.Sao Model.Hooks Model.App Model.Spec Proofs.SelectFacts Proofs.Frame Proofs.Accumulator Model.Monitors Proofs.RefInt Proofs.BeginLive Proofs.MetaSched Proofs.DataSched Proofs.ReleaseLive.
From RecordUpdate Require Import RecordUpdate.
Import RecordSetNotations.

Theorem C02_step_never_hangs : forall cx s op s' o, seed_ok cx -> step cx s op = (s', o) ->
  o <> OutTx CHang "" /\ (forall d, o <> OutBlock BHung d) /\ (forall d, o <> OutTx CHang d).
Proof. first [exact step_never_hangs | apply step_never_hangs]. Qed.
Print Assumptions C02_step_never_hangs.

Theorem C02_random_index_terminates : forall seed total count,
  0 <= seed -> seed < 10 ^ 400 ->
  random_index seed total count <> SelHang /\ random_index seed total count <> SelPanic.
Proof. first [exact random_index_terminates | apply random_index_terminates]. Qed.
Print Assumptions C02_random_index_terminates.

Theorem C02_next_super_terminates : forall nodes pledges round0 ignore size,
  next_super nodes pledges round0 ignore size <> SelHang.
Proof. first [exact next_super_terminates | apply next_super_terminates]. Qed.
Print Assumptions C02_next_super_terminates.

Theorem C02_random_sp_terminates : forall nodes pledges round0 seed count ignore size,
  0 <= seed -> seed < 10 ^ 400 ->
  random_sp nodes pledges round0 seed count ignore size <> SelHang.
Proof. first [exact random_sp_terminates | apply random_sp_terminates]. Qed.
Print Assumptions C02_random_sp_terminates.

(* BeginBlock never panics in a state that satisfies the three invariants - with a block reward of at most half the total (the complement is finding D19) *)
Theorem C02_begin_block_never_panics : forall cx s e,
  Inv_pool s -> Inv_k s -> Inv_rem s -> params_ok s -> begin_block cx s <> Panic e.
Proof. first [exact begin_block_never_panics | apply begin_block_never_panics]. Qed.
Print Assumptions C02_begin_block_never_panics.

(* the invariants are preserved by every operation *)
Theorem C02_step_live : forall cx s op, Live s -> Live (fst (step cx s op)).
Proof. first [exact step_live | apply step_live]. Qed.
Print Assumptions C02_step_live.

(* hence no BeginBlock of any run halts the chain *)
Theorem C02_run_begin_block_never_halts : forall tr s cx e,
  Live s -> begin_block cx (run tr s) <> Panic e.
Proof. first [exact run_begin_block_never_halts | apply run_begin_block_never_halts]. Qed.
Print Assumptions C02_run_begin_block_never_halts.

Theorem C02_live_nonvacuous :
  Live ex_genesis /\ Live (run ex_trace ex_genesis) /\
  (exists po, pool (run ex_trace ex_genesis) = Some po /\ po_reward po = 3000 /\ 0 < po_pledged po) /\
  forall e, begin_block (ex_cx 5) (run ex_trace ex_genesis) <> Panic e.
Proof. first [exact live_nonvacuous | apply live_nonvacuous]. Qed.
Print Assumptions C02_live_nonvacuous.

(* the re-slicing loop of removeDataExpireBlock (it runs out of bounds on a duplicate) never panics in a reachable state *)
Theorem C02_remove_data_expire_never_panics : forall tr s data h e,
  Forall (fun co : Ctx * Op => height_ok co.1) tr -> Inv_ds s -> remove_data_expire data h (run tr s) <> Panic e.
Proof. first [exact remove_data_expire_never_panics | apply remove_data_expire_never_panics]. Qed.
Print Assumptions C02_remove_data_expire_never_panics.

(* the release of a shard never panics when its collateral is covered by the recorded total *)
Theorem C02_release_covered_never_panics sp sh s p :
  pledges s !! sp = Some p -> sh_pledge sh <= pl_shpledged p ->
  match shard_release sp (Some sh) s with Panic _ | Hang => False | _ => True end.
Proof. first [exact release_covered_never_panics | apply release_covered_never_panics]. Qed.
Print Assumptions C02_release_covered_never_panics.

(* and it does panic when it is not - the shape finding D23 produces *)
Theorem C02_release_uncovered_panics sp sh s p po :
  pledges s !! sp = Some p -> pool s = Some po -> sh_sp sh = sp -> debts s !! sp = None ->
  0 < sh_pledge sh <= balance s (macc NODE) -> pl_shpledged p < sh_pledge sh ->
  shard_release sp (Some sh) s = Panic "negative coin amount".
Proof. first [exact release_uncovered_panics | apply release_uncovered_panics]. Qed.
Print Assumptions C02_release_uncovered_panics.

(* the clause live.release_covered decides it for every completed shard of a state *)
Theorem C02_release_covered_sound s :
  mon_release_covered s = true ->
  (forall id sh, shards s !! id = Some sh -> 0 <= sh_pledge sh) ->
  forall id sh p, shards s !! id = Some sh -> sh_status sh = ShardCompleted -> pledges s !! sh_sp sh = Some p ->
    match shard_release (sh_sp sh) (Some sh) s with Panic _ | Hang => False | _ => True end.
Proof. first [exact release_covered_sound | apply release_covered_sound]. Qed.
Print Assumptions C02_release_covered_sound.

Theorem C02_release_covered_nonvacuous :
  mon_release_covered W.s2 = true /\
  (exists sh p, shards W.s2 !! 1 = Some sh /\ sh_status sh = ShardCompleted /\ sh_sp sh = "T" /\ pledges W.s2 !! "T" = Some p /\
     0 < sh_pledge sh /\ sh_pledge sh <= pl_shpledged p /\
     shard_release "T" (Some sh) (W.s2 <| pledges ::= <["T" := p <| pl_shpledged := 0 |>]> |>) = Panic "negative coin amount").
Proof. first [exact release_covered_nonvacuous | apply release_covered_nonvacuous]. Qed.
Print Assumptions C02_release_covered_nonvacuous.

Theorem C02_begin_block_mint_refuted : exists cx s s' d,
  step cx s OBeginBlock = (s', OutBlock BOk d) /\
  ~ exists m, 0 <= m /\ supply s' = supply s + m /\ m <= np_reward (nparams s).
Proof. first [exact begin_block_mint_refuted | apply begin_block_mint_refuted]. Qed.
Print Assumptions C02_begin_block_mint_refuted.
