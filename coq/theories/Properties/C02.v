(* C02 -- Chain liveness: block processing always completes, never halts the chain.

   Proved: no transaction and no block phase of the model ever fails to return (the only loops
   that are not structural are the seed-consuming index draw and the super-node scan; both are
   repaired in the code -- D1, D3 -- and proved terminating), for every state, operation and
   seed of at most 400 decimal digits. The selection kernels terminate (C15 file).
   NOT proved as a theorem: absence of panics in BeginBlock / EndBlock for every reachable
   state. It depends on global invariants (collateral counters, duplicate-free schedules,
   bounded reward counter) that are evaluated as monitors on implementation states, and it is
   false for validated parameter sets: finding D19 (BlockReward above half the total reward
   panics at the third minted block), exhibited on the model below (begin_block_mint_refuted
   shows the reward bound needs a non-negative parameter; the D19 scenario halts both the
   model and the real chain). Every halt or hang of the implementation in any generated
   history is reported as a violation with that history as replay. *)
From SaoVerif Require Import Base.Prelude Base.Ints Base.Dec Model.Did Model.Types Model.Monad Model.Bank Model.Select Model.Node Model.Storage Model.Sao Model.Hooks Model.App Model.Spec Proofs.SelectFacts Proofs.Frame Proofs.Accumulator.
From RecordUpdate Require Import RecordUpdate.
Import RecordSetNotations.

Theorem C02_step_never_hangs : forall cx s op s' o, seed_ok cx -> step cx s op = (s', o) ->
  o <> OutTx CHang "" /\ (forall d, o <> OutBlock BHung d) /\ (forall d, o <> OutTx CHang d).
Proof. first [exact step_never_hangs | apply step_never_hangs]. Qed.
Print Assumptions C02_step_never_hangs.

Theorem C02_random_index_terminates : forall seed total count,
  0 <= seed -> seed < 10 ^ 400 ->
  random_index seed total count <> SelHang /\ random_index seed total count <> SelPanic.
Proof. first [exact random_index_terminates | apply random_index_terminates]. Qed.
Print Assumptions C02_random_index_terminates.

Theorem C02_next_super_terminates : forall nodes pledges round0 ignore size,
  next_super nodes pledges round0 ignore size <> SelHang.
Proof. first [exact next_super_terminates | apply next_super_terminates]. Qed.
Print Assumptions C02_next_super_terminates.

Theorem C02_random_sp_terminates : forall nodes pledges round0 seed count ignore size,
  0 <= seed -> seed < 10 ^ 400 ->
  random_sp nodes pledges round0 seed count ignore size <> SelHang.
Proof. first [exact random_sp_terminates | apply random_sp_terminates]. Qed.
Print Assumptions C02_random_sp_terminates.

Theorem C02_begin_block_mint_refuted : exists cx s s' d,
  step cx s OBeginBlock = (s', OutBlock BOk d) /\
  ~ exists m, 0 <= m /\ supply s' = supply s + m /\ m <= np_reward (nparams s).
Proof. first [exact begin_block_mint_refuted | apply begin_block_mint_refuted]. Qed.
Print Assumptions C02_begin_block_mint_refuted.
