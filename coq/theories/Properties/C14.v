(* C14 -- Capacity and aggregate accounting equals the sum of live shards and pledges.

   Proved as an invariant of every history: the network-wide totals of pledged capacity and pledged
   coins equal the sums over all providers (Inv_pool, Proofs/Accumulator.v).
   Proved per provider (Proofs/Capacity.v): Acc = Inv_used /\ Inv_capacity /\ Live_pledged -- used
   capacity and shard collateral are the sums over the provider's live shards, 0 <= used <= total,
   every completed shard is held by a provider with a pledge record -- is preserved by every
   operation except Terminate (and the force-push branch reached from Complete, and EndBlocks in
   which an order times out), under hypotheses on the pre-state only (Hyp: NoDup shard lists for
   Renew, identifier bounds for Store/Ready/Migrate, expiring shards completed and their release
   funded for EndBlock); lifted to runs (run_acc_partial). Both refutations are consequences of
   recorded findings: D23 (double release, step_used_refuted_D23) and D13 (a release that fails at
   expiry is swallowed and the shard removed anyway, step_used_refuted_D13). The uncovered
   operations and the market worker sums are monitored on implementation states after every step
   (agg.used_is_sum, agg.shpledged_is_sum, agg.used_bounds, agg.worker_is_sum, agg.pool_is_sum). *)
From SaoVerif Require Import Base.Prelude Base.Ints Base.Dec Model.Did Model.Types Model.Monad Model.Bank Model.Select Model.Node Model.Storage Model.Sao Model.Hooks Model.App Model.Spec Proofs.Accumulator Model.Inv Proofs.Capacity.
From RecordUpdate Require Import RecordUpdate.
Import RecordSetNotations.

Theorem C14_step_inv_pool : forall cx s op, Inv_pool s -> Inv_pool (fst (step cx s op)).
Proof. first [exact step_inv_pool | apply step_inv_pool]. Qed.
Print Assumptions C14_step_inv_pool.

Theorem C14_run_inv_pool : forall tr s, Inv_pool s -> Inv_pool (run tr s).
Proof. first [exact run_inv_pool | apply run_inv_pool]. Qed.
Print Assumptions C14_run_inv_pool.

(* per-provider accounting (used capacity and shard collateral are the sums over live shards and 0 <= used <= total) is preserved by every covered operation under the stated pre-state hypotheses *)
Theorem C14_step_acc_partial : forall cx s op,
  covered op = true -> Hyp cx s op -> Acc s -> Acc (fst (step cx s op)).
Proof. first [exact step_acc_partial | apply step_acc_partial]. Qed.
Print Assumptions C14_step_acc_partial.

Theorem C14_step_used_partial : forall cx s op,
  covered op = true -> Hyp cx s op -> Inv_used s -> Inv_capacity s -> Live_pledged s ->
  Inv_used (fst (step cx s op)).
Proof. first [exact step_used_partial | apply step_used_partial]. Qed.
Print Assumptions C14_step_used_partial.

Theorem C14_step_capacity_partial : forall cx s op,
  covered op = true -> Hyp cx s op -> Inv_used s -> Inv_capacity s -> Live_pledged s ->
  Inv_capacity (fst (step cx s op)).
Proof. first [exact step_capacity_partial | apply step_capacity_partial]. Qed.
Print Assumptions C14_step_capacity_partial.

Theorem C14_run_acc_partial : forall tr s, hyp_along tr s -> Acc s -> Acc (run tr s).
Proof. first [exact run_acc_partial | apply run_acc_partial]. Qed.
Print Assumptions C14_run_acc_partial.

Theorem C14_run_used_partial : forall tr s, hyp_along tr s -> Inv_used s -> Inv_capacity s -> Live_pledged s ->
  Inv_used (run tr s) /\ Inv_capacity (run tr s).
Proof. first [exact run_used_partial | apply run_used_partial]. Qed.
Print Assumptions C14_run_used_partial.

(* without NoDup shard lists (what D23 destroys) a double release drives used capacity negative *)
Theorem C14_step_used_refuted_D23 : exists cx s op,
  Inv_used s /\ Inv_capacity s /\ Live_pledged s /\ Dom s /\ Inv_ids s /\ Inv_shard_order s /\
  (forall oid o id, orders s !! oid = Some o -> In id (o_shards o) -> is_Some (shards s !! id)) /\
  ~ Inv_order_shards s /\
  ~ Inv_used (fst (step cx s op)) /\ ~ Inv_capacity (fst (step cx s op)).
Proof. first [exact step_used_refuted_D23 | apply step_used_refuted_D23]. Qed.
Print Assumptions C14_step_used_refuted_D23.

(* a swallowed release failure at expiry (consequence of D13) leaks capacity and collateral for ever *)
Theorem C14_step_used_refuted_D13 : exists cx s evs,
  Inv_used s /\ Inv_capacity s /\ Live_pledged s /\ Dom s /\ Inv_ids s /\ Inv_shard_order s /\ Inv_order_shards s /\
  timeouts s !! cx_height cx = None /\
  ~ Inv_used (fst (step cx s (OEndBlock evs))).
Proof. first [exact step_used_refuted_D13 | apply step_used_refuted_D13]. Qed.
Print Assumptions C14_step_used_refuted_D13.

Theorem C14_capacity_nonvacuous :
  let s := CapWitness.e_s 5 in
  Inv_used s /\ Inv_capacity s /\ Live_pledged s /\ Dom s /\ Inv_order_shards s /\
  (exists sh, shards s !! 2 = Some sh /\ sh_status sh = ShardCompleted /\ live_sum sh_size "A" s = 1) /\
  Hyp CapWitness.w_cx s (OEndBlock []) /\ Hyp CapWitness.w_cx s (OComplete "A" "A" 1 "cid" 1 true) /\
  Hyp CapWitness.w_cx s (ORenew {| rn_creator := "A"; rn_provider := "A"; rn_owner := "did:key:K1"; rn_duration := 3600;
                                   rn_timeout := 10; rn_data := ["d"]; rn_sig := CapWitness.w_sig |}) /\
  Acc (fst (step CapWitness.w_cx s (OEndBlock []))) /\
  pledges (fst (step CapWitness.w_cx s (OEndBlock []))) !! "A" = Some (mkPledge 0 0 0 0 10 0).
Proof. first [exact capacity_nonvacuous | apply capacity_nonvacuous]. Qed.
Print Assumptions C14_capacity_nonvacuous.
