(* C14 -- Capacity and aggregate accounting equals the sum of live shards and pledges.

   Proved as an invariant of every history: the network-wide totals of pledged capacity and
   pledged coins equal the sums over all providers (Inv_pool). The per-provider equalities
   (used capacity, worker bytes and income rate, shard collateral = sums over its live
   shards) are NOT proved; they are evaluated as monitors on the implementation state after
   every step (agg.used_is_sum, agg.worker_is_sum, agg.shpledged_is_sum, agg.pool_is_sum).
   Finding D23 violates them (KNOWN_FINDINGS.txt). *)
From SaoVerif Require Import Base.Prelude Base.Ints Base.Dec Model.Did Model.Types Model.Monad Model.Bank Model.Select Model.Node Model.Storage Model.Sao Model.Hooks Model.App Model.Spec Proofs.Accumulator.
From RecordUpdate Require Import RecordUpdate.
Import RecordSetNotations.

Theorem C14_step_inv_pool : forall cx s op, Inv_pool s -> Inv_pool (fst (step cx s op)).
Proof. exact step_inv_pool. Qed.
Print Assumptions C14_step_inv_pool.

Theorem C14_run_inv_pool : forall tr s, Inv_pool s -> Inv_pool (run tr s).
Proof. exact run_inv_pool. Qed.
Print Assumptions C14_run_inv_pool.
