(* C16 -- Version linearity and identifier uniqueness.

   IDENTIFIERS. Per operation (step_ids_partial): under the size bounds of one call and referential
   integrity of the shard being migrated, every operation keeps all order and shard ids below their
   counters, never lowers a counter, and gives every new record an id at or above the old counter.
   Over whole histories (Proofs/Ids.v, by induction over the operation list): the invariant and the
   monotone counters hold along every run that meets the side conditions at each step
   (run_ids_partial); an identifier that has existed and disappeared is never given to a new record
   (order_id_never_reused, shard_id_never_reused); a record created later has a larger identifier
   than every record that existed earlier (order_ids_increase, shard_ids_increase).
   The unconditional step statement is refuted: completing a migration whose old shard names a
   missing order stores a zero order under key 0 (step_ids_refuted; needs a dangling reference,
   which the monitor ref.shard_has_order excludes on implementation states).

   VERSION LINEARITY (Proofs/History.v). step_history: whatever the operation, a data model present
   afterwards either was present before with the same owner and a history related by the chain order
   hist_le (unchanged, one version appended, or only the latest version replaced), or it is new,
   created by a Store naming its data id, with the empty history. run_history: along any run during
   which the model exists its history is a single chain (committed_prefix_stable: everything but the
   then-latest entry stays a prefix for ever). store_update_linear: an update is accepted only if its
   base is a substring of the model's latest version and no other update is in flight (status
   MetaComplete). "The base IS the latest version" is false of the faithful model
   (store_base_equality_refuted, finding D16: strings.Contains) and is monitored per accepted Store
   (ver.base_is_latest / ver.base_not_proper_substring).

   "At most one unfinished storage order per data model" is monitored (ids.one_in_flight) and is
   FALSE of the faithful model (run_one_in_flight_refuted): the model end blocker deletes an
   expired model without looking at its latest order; if that order is still unfinished (possible
   only through finding D15: a timeout check that gave up) a new Store of the same data id opens
   a second one. Recorded as a consequence of D15 (scenario d15-two-in-flight). *)
From SaoVerif Require Import Base.Prelude Base.Ints Base.Dec Model.Did Model.Types Model.Monad Model.Bank Model.Select Model.Node Model.Storage Model.Sao Model.Hooks Model.App Model.Spec Proofs.Frame Model.Inv Proofs.Escrow Proofs.RefInt Proofs.Ids Proofs.History.
From RecordUpdate Require Import RecordUpdate.
Import RecordSetNotations.

Theorem C16_step_ids_partial : forall cx s op,
  Inv_ids s -> counts_small s -> sizes_small cx s op -> complete_refs_ok s op ->
  Inv_ids (fst (step cx s op)) /\ order_count s <= order_count (fst (step cx s op)) /\
  shard_count s <= shard_count (fst (step cx s op)) /\
  (forall id o, orders (fst (step cx s op)) !! id = Some o -> orders s !! id = None -> order_count s <= id) /\
  (forall id sh, shards (fst (step cx s op)) !! id = Some sh -> shards s !! id = None -> shard_count s <= id).
Proof. first [exact step_ids_partial | apply step_ids_partial]. Qed.
Print Assumptions C16_step_ids_partial.

Theorem C16_step_ids_refuted :
  exists cx s op, Inv_ids s /\ counts_small s /\ counts_small (fst (step cx s op)) /\ sizes_small cx s op /\
    ~ (Inv_ids (fst (step cx s op)) /\ order_count s <= order_count (fst (step cx s op)) /\
       shard_count s <= shard_count (fst (step cx s op)) /\
       (forall id o, orders (fst (step cx s op)) !! id = Some o -> orders s !! id = None -> order_count s <= id) /\
       (forall id sh, shards (fst (step cx s op)) !! id = Some sh -> shards s !! id = None -> shard_count s <= id)).
Proof. first [exact step_ids_refuted | apply step_ids_refuted]. Qed.
Print Assumptions C16_step_ids_refuted.

(* identifiers over whole histories *)
Theorem C16_run_ids_partial : forall tr s,
  Inv_ids s -> ids_ok_along tr s ->
  Inv_ids (run tr s) /\ order_count s <= order_count (run tr s) /\ shard_count s <= shard_count (run tr s).
Proof. first [exact run_ids_partial | apply run_ids_partial]. Qed.
Print Assumptions C16_run_ids_partial.

Theorem C16_order_id_never_reused : forall tr cx op s id,
  Inv_ids s -> ids_ok_along (tr ++ [(cx, op)]) s ->
  is_Some (orders s !! id) -> orders (run tr s) !! id = None ->
  orders (run (tr ++ [(cx, op)]) s) !! id = None.
Proof. first [exact order_id_never_reused | apply order_id_never_reused]. Qed.
Print Assumptions C16_order_id_never_reused.

Theorem C16_shard_id_never_reused : forall tr cx op s id,
  Inv_ids s -> ids_ok_along (tr ++ [(cx, op)]) s ->
  is_Some (shards s !! id) -> shards (run tr s) !! id = None ->
  shards (run (tr ++ [(cx, op)]) s) !! id = None.
Proof. first [exact shard_id_never_reused | apply shard_id_never_reused]. Qed.
Print Assumptions C16_shard_id_never_reused.

Theorem C16_order_ids_increase : forall tr cx op s id1 id2,
  Inv_ids s -> ids_ok_along (tr ++ [(cx, op)]) s ->
  is_Some (orders s !! id1) ->
  orders (run tr s) !! id2 = None -> is_Some (orders (run (tr ++ [(cx, op)]) s) !! id2) ->
  id1 < id2.
Proof. first [exact order_ids_increase | apply order_ids_increase]. Qed.
Print Assumptions C16_order_ids_increase.

Theorem C16_shard_ids_increase : forall tr cx op s id1 id2,
  Inv_ids s -> ids_ok_along (tr ++ [(cx, op)]) s ->
  is_Some (shards s !! id1) ->
  shards (run tr s) !! id2 = None -> is_Some (shards (run (tr ++ [(cx, op)]) s) !! id2) ->
  id1 < id2.
Proof. first [exact shard_ids_increase | apply shard_ids_increase]. Qed.
Print Assumptions C16_shard_ids_increase.

Theorem C16_ids_ok_along_nonvacuous :
  Inv_ids W.s0 /\ ids_ok_along ex_ids_run W.s0 /\
  order_count W.s0 = 1 /\ order_count (run ex_ids_run W.s0) = 3 /\
  orders W.s0 !! 1 = None /\ is_Some (orders (run ex_ids_run W.s0) !! 1) /\ is_Some (orders (run ex_ids_run W.s0) !! 2) /\
  is_Some (shards (run ex_ids_run W.s0) !! 1).
Proof. first [exact ids_ok_along_nonvacuous | apply ids_ok_along_nonvacuous]. Qed.
Print Assumptions C16_ids_ok_along_nonvacuous.

(* version linearity - one step *)
Theorem C16_step_history : forall cx s op k x, metas (fst (step cx s op)) !! k = Some x ->
  (exists a, metas s !! k = Some a /\ same_model a x) \/
  (exists m, op = OStore m /\ metas s !! k = None /\ k = st_data m /\ m_commits x = [] /\ m_owner x = st_owner m).
Proof. first [exact step_history | apply step_history]. Qed.
Print Assumptions C16_step_history.

(* version linearity - whole histories *)
Theorem C16_run_history : forall tr s d a x,
  metas s !! d = Some a -> alive_along d tr s -> metas (run tr s) !! d = Some x -> same_model a x.
Proof. first [exact run_history | apply run_history]. Qed.
Print Assumptions C16_run_history.

Theorem C16_committed_prefix_stable : forall tr s d a x v rest,
  metas s !! d = Some a -> alive_along d tr s -> metas (run tr s) !! d = Some x ->
  m_commits a = rest ++ [v] -> rest `prefix_of` m_commits x.
Proof. first [exact committed_prefix_stable | apply committed_prefix_stable]. Qed.
Print Assumptions C16_committed_prefix_stable.

(* an accepted update names a substring of the latest version and no other update is in flight *)
Theorem C16_store_update_linear : forall cx s m s' d,
  step cx s (OStore m) = (s', OutTx COk d) -> update_ok s m.
Proof. first [exact store_update_linear | apply store_update_linear]. Qed.
Print Assumptions C16_store_update_linear.

(* finding D16 *)
Theorem C16_store_base_equality_refuted : exists cx s m s' d em,
  step cx s (OStore m) = (s', OutTx COk d) /\ metas s !! st_data m = Some em /\
  fst (split_commit (st_commit m)) <> m_commit em.
Proof. first [exact store_base_equality_refuted | apply store_base_equality_refuted]. Qed.
Print Assumptions C16_store_base_equality_refuted.

Theorem C16_history_nonvacuous :
  (exists a, metas W.s2 !! W.data = Some a /\ map commit_of_version (m_commits a) = [W.data]) /\
  alive_along W.data hist_run W.s2 /\
  commits_of (run (firstn 2 hist_run) W.s2) = [W.data; "11111111-1111-1111-1111-111111111111"] /\
  commits_of (run hist_run W.s2) = [W.data; "22222222-2222-2222-2222-222222222222"].
Proof. first [exact history_nonvacuous | apply history_nonvacuous]. Qed.
Print Assumptions C16_history_nonvacuous.

(* at most one unfinished order per data model is FALSE of the model - the model end blocker deletes an expired model whose order is still unfinished (consequence of D15) and a new Store of the same data id opens a second one *)
Theorem C16_run_one_in_flight_refuted : exists tr s,
  trace_ok tr /\ G s /\ Inv_ids s /\ orders s = ∅ /\ Inv_one_in_flight s /\ ~ Inv_one_in_flight (run tr s).
Proof. first [exact run_one_in_flight_refuted | apply run_one_in_flight_refuted]. Qed.
Print Assumptions C16_run_one_in_flight_refuted.

Theorem C16_step_one_in_flight_refuted : exists cx s op,
  not_from_escrow op /\ G s /\ Inv_order_escrow s /\ Inv_one_in_flight s /\ ~ Inv_one_in_flight (fst (step cx s op)).
Proof. first [exact step_one_in_flight_refuted | apply step_one_in_flight_refuted]. Qed.
Print Assumptions C16_step_one_in_flight_refuted.
