(* C16 -- Version linearity and identifier uniqueness.

   Proved: under the size bounds of one call and referential integrity of the shard being
   migrated, every operation keeps all order and shard ids below their counters, never lowers
   a counter, and gives every new record an id at or above the old counter (never reused).
   The unconditional statement is refuted: completing a migration whose old shard names a
   missing order stores a zero order under key 0 (step_ids_refuted; needs a dangling
   reference, which the monitors ref.shard_has_order exclude on implementation states).
   "An update names the latest committed version" is monitored per accepted Store
   (ver.base_is_latest) and refuted by finding D16 (substring test). *)
From SaoVerif Require Import Base.Prelude Base.Ints Base.Dec Model.Did Model.Types Model.Monad Model.Bank Model.Select Model.Node Model.Storage Model.Sao Model.Hooks Model.App Model.Spec Proofs.Frame.
From RecordUpdate Require Import RecordUpdate.
Import RecordSetNotations.

Theorem C16_step_ids_partial : forall cx s op,
  Inv_ids s -> counts_small s -> sizes_small cx s op -> complete_refs_ok s op ->
  Inv_ids (fst (step cx s op)) /\ order_count s <= order_count (fst (step cx s op)) /\
  shard_count s <= shard_count (fst (step cx s op)) /\
  (forall id o, orders (fst (step cx s op)) !! id = Some o -> orders s !! id = None -> order_count s <= id) /\
  (forall id sh, shards (fst (step cx s op)) !! id = Some sh -> shards s !! id = None -> shard_count s <= id).
Proof. exact step_ids_partial. Qed.
Print Assumptions C16_step_ids_partial.

Theorem C16_step_ids_refuted :
  exists cx s op, Inv_ids s /\ counts_small s /\ counts_small (fst (step cx s op)) /\ sizes_small cx s op /\
    ~ (Inv_ids (fst (step cx s op)) /\ order_count s <= order_count (fst (step cx s op)) /\
       shard_count s <= shard_count (fst (step cx s op)) /\
       (forall id o, orders (fst (step cx s op)) !! id = Some o -> orders s !! id = None -> order_count s <= id) /\
       (forall id sh, shards (fst (step cx s op)) !! id = Some sh -> shards s !! id = None -> shard_count s <= id)).
Proof. exact step_ids_refuted. Qed.
Print Assumptions C16_step_ids_refuted.
