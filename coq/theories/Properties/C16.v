(* C16 -- Version linearity and identifier uniqueness.

   Proved: under the size bounds of one call and referential integrity of the shard being
   migrated, every operation keeps all order and shard ids below their counters, never lowers
   a counter, and gives every new record an id at or above the old counter (never reused).
   The unconditional statement is refuted: completing a migration whose old shard names a
   missing order stores a zero order under key 0 (step_ids_refuted; needs a dangling
   reference, which the monitors ref.shard_has_order exclude on implementation states).
   "An update names the latest committed version" is monitored per accepted Store
   (ver.base_is_latest) and refuted by finding D16 (substring test).

   "At most one unfinished storage order per data model" is monitored (ids.one_in_flight) and is
   FALSE of the faithful model (run_one_in_flight_refuted): the model end blocker deletes an
   expired model without looking at its latest order; if that order is still unfinished (possible
   only through finding D15: a timeout check that gave up) a new Store of the same data id opens
   a second one. Recorded as a consequence of D15 (scenario d15-two-in-flight). *)
From SaoVerif Require Import Base.Prelude Base.Ints Base.Dec Model.Did Model.Types Model.Monad Model.Bank Model.Select Model.Node Model.Storage Model.Sao Model.Hooks Model.App Model.Spec Proofs.Frame Model.Inv Proofs.Escrow.
From RecordUpdate Require Import RecordUpdate.
Import RecordSetNotations.

Theorem C16_step_ids_partial : forall cx s op,
  Inv_ids s -> counts_small s -> sizes_small cx s op -> complete_refs_ok s op ->
  Inv_ids (fst (step cx s op)) /\ order_count s <= order_count (fst (step cx s op)) /\
  shard_count s <= shard_count (fst (step cx s op)) /\
  (forall id o, orders (fst (step cx s op)) !! id = Some o -> orders s !! id = None -> order_count s <= id) /\
  (forall id sh, shards (fst (step cx s op)) !! id = Some sh -> shards s !! id = None -> shard_count s <= id).
Proof. first [exact step_ids_partial | apply step_ids_partial]. Qed.
Print Assumptions C16_step_ids_partial.

Theorem C16_step_ids_refuted :
  exists cx s op, Inv_ids s /\ counts_small s /\ counts_small (fst (step cx s op)) /\ sizes_small cx s op /\
    ~ (Inv_ids (fst (step cx s op)) /\ order_count s <= order_count (fst (step cx s op)) /\
       shard_count s <= shard_count (fst (step cx s op)) /\
       (forall id o, orders (fst (step cx s op)) !! id = Some o -> orders s !! id = None -> order_count s <= id) /\
       (forall id sh, shards (fst (step cx s op)) !! id = Some sh -> shards s !! id = None -> shard_count s <= id)).
Proof. first [exact step_ids_refuted | apply step_ids_refuted]. Qed.
Print Assumptions C16_step_ids_refuted.

(* at most one unfinished order per data model is FALSE of the model - the model end blocker deletes an expired model whose order is still unfinished (consequence of D15) and a new Store of the same data id opens a second one *)
Theorem C16_run_one_in_flight_refuted : exists tr s,
  trace_ok tr /\ G s /\ Inv_ids s /\ orders s = ∅ /\ Inv_one_in_flight s /\ ~ Inv_one_in_flight (run tr s).
Proof. first [exact run_one_in_flight_refuted | apply run_one_in_flight_refuted]. Qed.
Print Assumptions C16_run_one_in_flight_refuted.

Theorem C16_step_one_in_flight_refuted : exists cx s op,
  not_from_escrow op /\ G s /\ Inv_order_escrow s /\ Inv_one_in_flight s /\ ~ Inv_one_in_flight (fst (step cx s op)).
Proof. first [exact step_one_in_flight_refuted | apply step_one_in_flight_refuted]. Qed.
Print Assumptions C16_step_one_in_flight_refuted.
