(* C13 -- Referential integrity of orders, shards, data models and schedules.

   Invariants (Model/Inv.v): Inv_alias (one alias per model, one model per alias), Inv_order_shards
   (every listed shard exists, each once), Inv_shard_order (every shard is listed by the order it
   names), Inv_completed_scheduled (every completed shard is scheduled at the end of its paid
   period); Inv_ref is their conjunction.
   Proved (Proofs/RefInt.v): Inv_alias is preserved by EVERY operation and every run, with no
   hypothesis. The three order/shard clauses are preserved by the 13 operations that write none of
   orders/shards/schedules and by Renew (step_ref_partial for "covered" operations, lifted to runs by
   run_ref_partial together with Inv_ids). For Store, Ready, Complete, Cancel, Terminate, Migrate and
   EndBlock the order/shard clauses are NOT proved: they are evaluated as monitors on the
   implementation's state after every step of every history (the ref. clauses), and mon_ref_sound shows that a
   passing monitor implies the invariant for that state. The general statement is false of the
   faithful model (step_ref_refuted, d23_latent: finding D23 -- a renewal placed during a migration
   is latent at the Renew and breaks the references at the next completion). The links a Store
   creates are consistent (store_links). *)
From SaoVerif Require Import Base.Prelude Base.Ints Base.Dec Model.Did Model.Types Model.Monad Model.Bank Model.Select Model.Node Model.Storage Model.Sao Model.Hooks Model.App Model.Spec Proofs.Schedule Model.Inv Model.Monitors Proofs.Frame Proofs.RefInt.
From RecordUpdate Require Import RecordUpdate.
Import RecordSetNotations.

Theorem C13_store_links : forall cx s m s' d, step cx s (OStore m) = (s', OutTx COk d) ->
  Inv_ids s -> counts_small s -> st_replica m < two63 ->
  exists oid o, oid = order_count s /\ orders s' !! oid = Some o /\
    (forall id, In id (o_shards o) -> exists sh, shards s' !! id = Some sh /\ sh_order sh = oid /\ sh_status sh = ShardWaiting /\ shards s !! id = None) /\
    NoDup (o_shards o) /\
    exists em, metas s' !! st_data m = Some em /\ m_order em = oid.
Proof. first [exact store_links | apply store_links]. Qed.
Print Assumptions C13_store_links.

(* one alias per model and one model per alias -- preserved by EVERY operation *)
Theorem C13_step_alias : forall cx s op, Inv_alias s -> Inv_alias (fst (step cx s op)).
Proof. first [exact step_alias | apply step_alias]. Qed.
Print Assumptions C13_step_alias.

Theorem C13_run_alias : forall tr s, Inv_alias s -> Inv_alias (run tr s).
Proof. first [exact run_alias | apply run_alias]. Qed.
Print Assumptions C13_run_alias.

Theorem C13_step_osc_frame : forall cx s op, frame_op op = true -> Inv_osc s -> Inv_osc (fst (step cx s op)).
Proof. first [exact step_osc_frame | apply step_osc_frame]. Qed.
Print Assumptions C13_step_osc_frame.

(* a renewal keeps the order-shard clauses even when it copies a shard under migration (D23 strikes at the next completion) *)
Theorem C13_step_osc_renew : forall cx s m,
  Inv_osc s -> Inv_ids s -> counts_small s -> Z.of_nat (length (rn_data m)) < two31 ->
  Inv_osc (fst (step cx s (ORenew m))).
Proof. first [exact step_osc_renew | apply step_osc_renew]. Qed.
Print Assumptions C13_step_osc_renew.

(* the four clauses together for the covered operations *)
Theorem C13_step_ref_partial : forall cx s op,
  covered op = true -> Inv_ref s -> Inv_ids s -> ref_hyp cx s op -> Inv_ref (fst (step cx s op)).
Proof. first [exact step_ref_partial | apply step_ref_partial]. Qed.
Print Assumptions C13_step_ref_partial.

Theorem C13_run_ref_partial : forall tr s,
  Inv_ref s -> Inv_ids s -> ok_along tr s -> Inv_ref (run tr s) /\ Inv_ids (run tr s).
Proof. first [exact run_ref_partial | apply run_ref_partial]. Qed.
Print Assumptions C13_run_ref_partial.

(* D23: the general statement is false *)
Theorem C13_step_ref_refuted :
  exists cx s op, Inv_ref s /\ Inv_ids s /\ counts_small s /\ sizes_small cx s op /\ shard_refs_ok s /\
    ~ Inv_order_shards (fst (step cx s op)).
Proof. first [exact step_ref_refuted | apply step_ref_refuted]. Qed.
Print Assumptions C13_step_ref_refuted.

Theorem C13_d23_latent :
  Inv_ref W.d3 /\ Inv_ref W.d4 /\ ~ no_renewal_of_migrating W.d4 /\ ~ Inv_ref W.d5.
Proof. first [exact d23_latent | apply d23_latent]. Qed.
Print Assumptions C13_d23_latent.

Theorem C13_no_renewal_of_migrating_benign :
  Inv_ref W.b4 /\ ~ no_renewal_of_migrating W.b4 /\ migrating_private W.b4 /\ Inv_ref W.b5 /\ Inv_ref W.b6 /\
  ~ migrating_private W.d4.
Proof. first [exact no_renewal_of_migrating_benign | apply no_renewal_of_migrating_benign]. Qed.
Print Assumptions C13_no_renewal_of_migrating_benign.

Theorem C13_ref_nonvacuous :
  Inv_ref W.s2 /\ Inv_ids W.s2 /\ counts_small W.s2 /\
  (exists o sh m, orders W.s2 !! 1 = Some o /\ o_shards o = [1] /\ shards W.s2 !! 1 = Some sh /\
     sh_status sh = ShardCompleted /\ expshards W.s2 !! 3606 = Some [1] /\
     metas W.s2 !! W.data = Some m /\ models W.s2 !! meta_key m = Some W.data) /\
  Inv_ref W.b3 /\ (exists o, orders W.b3 !! 2 = Some o /\ o_op o = 3 /\ o_shards o = [1]).
Proof. first [exact ref_nonvacuous | apply ref_nonvacuous]. Qed.
Print Assumptions C13_ref_nonvacuous.

Theorem C13_ok_along_nonvacuous :
  ok_along ex_run W.s2 /\ Inv_ref (run ex_run W.s2) /\
  (exists o, orders (run ex_run W.s2) !! 2 = Some o /\ o_op o = 3) /\
  (exists m, metas (run ex_run W.s2) !! W.data = Some m /\ m_ro m = ["did:key:K2"]).
Proof. first [exact ok_along_nonvacuous | apply ok_along_nonvacuous]. Qed.
Print Assumptions C13_ok_along_nonvacuous.

(* the boolean monitors evaluated on implementation states imply the invariant *)
Theorem C13_mon_ref_sound s : mon_ref s = true -> Inv_ref s.
Proof. first [exact mon_ref_sound | apply mon_ref_sound]. Qed.
Print Assumptions C13_mon_ref_sound.
