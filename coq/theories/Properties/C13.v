(* C13 -- Referential integrity of orders, shards, data models and schedules.

   The links a Store creates are consistent (theorem below) and the end-blocker / expiry
   rotation keep the order <-> shard links (C11's expired_shard_post). The four relations of
   the statement -- every listed shard exists, every shard is listed by the order it names,
   every completed shard is scheduled, every model has exactly one alias entry -- are
   evaluated as monitors on the implementation's state after EVERY step of every history
   (Model/Monitors.v: ref.order_shards_exist, ref.shard_has_order, ref.completed_scheduled,
   ref.model_alias); they are not proved as global invariants of the model. *)
From SaoVerif Require Import Base.Prelude Base.Ints Base.Dec Model.Did Model.Types Model.Monad Model.Bank Model.Select Model.Node Model.Storage Model.Sao Model.Hooks Model.App Model.Spec Proofs.Schedule.
From RecordUpdate Require Import RecordUpdate.
Import RecordSetNotations.

Theorem C13_store_links : forall cx s m s' d, step cx s (OStore m) = (s', OutTx COk d) ->
  Inv_ids s -> counts_small s -> st_replica m < two63 ->
  exists oid o, oid = order_count s /\ orders s' !! oid = Some o /\
    (forall id, In id (o_shards o) -> exists sh, shards s' !! id = Some sh /\ sh_order sh = oid /\ sh_status sh = ShardWaiting /\ shards s !! id = None) /\
    NoDup (o_shards o) /\
    exists em, metas s' !! st_data m = Some em /\ m_order em = oid.
Proof. exact store_links. Qed.
Print Assumptions C13_store_links.
