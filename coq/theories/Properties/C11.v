(* C11 -- Retention and expiry: data stays for the paid term, released exactly once.

   Per-operation theorems about the model of Complete, the shard-expiry end-blocker and the
   timeout end-blocker (Model/Sao.v), tied to x/sao by the step-wise correspondence check on
   histories that cross every scheduled height. The history-level invariants (every
   completed shard is scheduled at the end of its period, every model is scheduled and its
   expiry covers its shards, nothing stale is scheduled, all scheduled heights are in the
   future at block boundaries) are evaluated as monitors on the implementation's state after
   every step (Model/Monitors.v: ref.completed_scheduled, sched.x clauses); they are not proved as
   global invariants of the model -- with one exception, proved in Proofs/MetaSched.v by induction over
   the operation list: in every state reachable at heights below 2^63 every data model is listed for
   removal at exactly the height its lifetime ends (run_meta_scheduled; step_meta_scheduled for one
   operation, error returns of block phases included), so the model end blocker finds every expiring
   model in its list (expiring_model_is_listed).
   Finding D22 (confirmed on the real code and repaired, see KNOWN_FINDINGS.txt): a force-push
   leaves the model with expiry height 0, so the model outlives all of its shards. *)
From SaoVerif Require Import Base.Prelude Base.Ints Base.Dec Model.Did Model.Types Model.Monad Model.Bank Model.Select Model.Node Model.Storage Model.Sao Model.Hooks Model.App Model.Spec Proofs.Schedule Proofs.RefInt Proofs.History Proofs.MetaSched Proofs.DataSched.
From RecordUpdate Require Import RecordUpdate.
Import RecordSetNotations.

Theorem C11_complete_schedules : forall cx s c p oid cid sz ok s' d, step cx s (OComplete c p oid cid sz ok) = (s', OutTx COk d) ->
  exists sid sh', shards s' !! sid = Some sh' /\ sh_sp sh' = p /\ sh_status sh' = ShardCompleted /\ sh_created sh' = cx_height cx /\
    In sid (default [] (expshards s' !! u64 (sh_created sh' + sh_duration sh'))) /\
    (forall o sh0, orders s !! oid = Some o -> shard_by_sp s o p = Some (sid, sh0) -> sh_status sh0 = ShardWaiting -> sh_duration sh' = o_duration o).
Proof. first [exact complete_schedules | apply complete_schedules]. Qed.
Print Assumptions C11_complete_schedules.

Theorem C11_end_block_releases_only_scheduled : forall cx s evs sid sh,
  shards s !! sid = Some sh -> sh_status sh = ShardCompleted -> shards (fst (step cx s (OEndBlock evs))) !! sid = None ->
  In sid (default [] (expshards s !! cx_height cx)) \/
  (exists oid, In oid (default [] (timeouts s !! cx_height cx))).
Proof. first [exact end_block_releases_only_scheduled | apply end_block_releases_only_scheduled]. Qed.
Print Assumptions C11_end_block_releases_only_scheduled.

Theorem C11_end_block_releases_only_scheduled_strong : forall cx s evs sid sh,
  (forall oid, In oid (default [] (timeouts s !! cx_height cx)) -> fully_stored s oid) ->
  shards s !! sid = Some sh -> shards (fst (step cx s (OEndBlock evs))) !! sid = None ->
  In sid (default [] (expshards s !! cx_height cx)).
Proof. first [exact end_block_releases_only_scheduled_strong | apply end_block_releases_only_scheduled_strong]. Qed.
Print Assumptions C11_end_block_releases_only_scheduled_strong.

Theorem C11_expired_shard_post : forall cx sid s s' sh o, handle_expired_shard cx sid s = Ok tt s' ->
  shards s !! sid = Some sh -> orders s !! sh_order sh = Some o ->
  match sh_renew sh with
  | [] => shards s' !! sid = None
  | ri :: rest => exists sh', shards s' !! sid = Some sh' /\ sh_order sh' = ri_order ri /\ sh_created sh' = cx_height cx /\
                    sh_duration sh' = ri_duration ri /\ sh_renew sh' = rest /\ sh_sp sh' = sh_sp sh /\ sh_pledge sh' = sh_pledge sh /\
                    In sid (default [] (expshards s' !! u64 (cx_height cx + ri_duration ri)))
  end /\
  (forall k, k <> sid -> shards s' !! k = shards s !! k) /\
  (* the order loses the shard; it disappears with its last shard *)
  match o_shards o with
  | [x] => if x =? sid then orders s' !! sh_order sh = None else orders s' !! sh_order sh = Some o
  | l => exists o', orders s' !! sh_order sh = Some o' /\ o_shards o' = remove_firstZ sid l
  end.
Proof. first [exact expired_shard_post | apply expired_shard_post]. Qed.
Print Assumptions C11_expired_shard_post.

(* every data model is listed for removal exactly where its lifetime ends - one operation *)
Theorem C11_step_meta_scheduled : forall cx s op, height_ok cx -> Inv_msched s -> Inv_msched (fst (step cx s op)).
Proof. first [exact step_meta_scheduled | apply step_meta_scheduled]. Qed.
Print Assumptions C11_step_meta_scheduled.

(* ... and every history *)
Theorem C11_run_meta_scheduled : forall tr s,
  Forall (fun co : Ctx * Op => height_ok co.1) tr -> Inv_msched s -> Inv_msched (run tr s).
Proof. first [exact run_meta_scheduled | apply run_meta_scheduled]. Qed.
Print Assumptions C11_run_meta_scheduled.

Theorem C11_expiring_model_is_listed : forall tr s cx d m,
  Forall (fun co : Ctx * Op => height_ok co.1) tr -> Inv_msched s ->
  metas (run tr s) !! d = Some m -> expiry m = cx_height cx ->
  exists l, expdata (run tr s) !! cx_height cx = Some l /\ In d l.
Proof. first [exact expiring_model_is_listed | apply expiring_model_is_listed]. Qed.
Print Assumptions C11_expiring_model_is_listed.

Theorem C11_meta_scheduled_nonvacuous :
  Inv_msched W.s2 /\ (exists m, metas W.s2 !! W.data = Some m /\ expiry m = 3606 /\ expdata W.s2 !! 3606 = Some [W.data]) /\
  Forall (fun co : Ctx * Op => height_ok co.1) History.hist_run /\
  match metas (run History.hist_run W.s2) !! W.data with Some m => expiry m | None => 0 end = 3610.
Proof. first [exact meta_scheduled_nonvacuous | apply meta_scheduled_nonvacuous]. Qed.
Print Assumptions C11_meta_scheduled_nonvacuous.

(* the full invariant of the data-expiry schedule - listed exactly once and nothing stale or duplicated - one operation *)
Theorem C11_step_data_schedule : forall cx s op, height_ok cx -> Inv_ds s -> Inv_ds (fst (step cx s op)).
Proof. first [exact step_data_schedule | apply step_data_schedule]. Qed.
Print Assumptions C11_step_data_schedule.

(* ... and every history *)
Theorem C11_run_data_schedule : forall tr s,
  Forall (fun co : Ctx * Op => height_ok co.1) tr -> Inv_ds s -> Inv_ds (run tr s).
Proof. first [exact run_data_schedule | apply run_data_schedule]. Qed.
Print Assumptions C11_run_data_schedule.

Theorem C11_scheduled_entry_is_live : forall tr s h l d,
  Forall (fun co : Ctx * Op => height_ok co.1) tr -> Inv_ds s ->
  expdata (run tr s) !! h = Some l -> In d l -> exists m, metas (run tr s) !! d = Some m /\ expiry m = h.
Proof. first [exact scheduled_entry_is_live | apply scheduled_entry_is_live]. Qed.
Print Assumptions C11_scheduled_entry_is_live.

Theorem C11_data_schedule_nonvacuous :
  Inv_ds W.s2 /\ expdata W.s2 !! 3606 = Some [W.data] /\
  Forall (fun co : Ctx * Op => height_ok co.1) History.hist_run /\
  map_to_list (expdata (run History.hist_run W.s2)) = [(3610, [W.data])].
Proof. first [exact data_schedule_nonvacuous | apply data_schedule_nonvacuous]. Qed.
Print Assumptions C11_data_schedule_nonvacuous.
