package main

// Storage lifecycle histories: owners (did:key and did:sid), gateways with declared
// transaction addresses, providers, a sponsor and an attacker. Orders are stored,
// made ready, completed (or left silent), updated, force-pushed, renewed, migrated,
// cancelled, terminated; time advances block by block across every scheduled height.
// About one operation in five is adversarial or malformed.

import (
	"fmt"
	"math/rand"

	didtypes "github.com/SaoNetwork/sao/x/did/types"
	ordertypes "github.com/SaoNetwork/sao/x/order/types"
	saotypes "github.com/SaoNetwork/sao/x/sao/types"
)

const goodCid = "QmYwAPJzv5CZsnA625s3Xf2nemtYgPpHdWEz79ojWnPbdG"
const goodCid2 = "QmPK1s3pNYLi9ERiq3BDxKa4XosgWwFRQUydHUtz4YgpqB"

type owner struct {
	did  string
	key  *SignKey
	kid  string
	acct *Account // payment account
	sid  bool
}

type saoWorld struct {
	rng       *rand.Rand
	r         *Recorder
	c         *Chain
	gateways  []*Account // registered nodes acting as gateways
	gwTx      map[string]*Account
	providers []*Account
	owners    []*owner
	sponsor   *owner
	attacker  *Account
	attOwner  *owner
	models    []string // data ids created
	nData     int
	nCommit   int
	longRun   bool
	exportEvery int
	grants      map[string]*owner // data id -> read-write grantee
	revoked     []revokedGrant    // grants the owner has withdrawn: the former grantee keeps trying
	readers     map[string]*owner // data id -> read-only grantee named when the model was created
	reported     []*saotypes.Fault // faults a fishman's report put on record
	scarce       bool             // only two providers accept orders: selections run out of candidates
	silent       *Account         // a provider that never completes anything (scarce worlds)
	spTx         map[string]*Account // provider address -> its declared transaction address
	poor         *Account         // a provider with (almost) no liquid coins: collateral it cannot pay becomes debt
	granteeWrote []string         // models whose latest accepted update was signed by their grantee
}

func (w *saoWorld) newDataId() string {
	w.nData++
	return fmt.Sprintf("%08x-data-4000-8000-%012x", w.rng.Uint32(), w.nData)
}
func (w *saoWorld) newCommit() string {
	w.nCommit++
	return fmt.Sprintf("%08x-comm-4000-8000-%012x", w.rng.Uint32(), w.nCommit)
}

type revokedGrant struct {
	dataId string
	who    *owner
}

// formerGrantee: the DID whose read-write access to dataId was withdrawn (nil if none)
func (w *saoWorld) formerGrantee(dataId string) *owner {
	for _, g := range w.revoked {
		if g.dataId == dataId && g.who != nil {
			if _, again := w.grants[dataId]; !again {
				return g.who
			}
		}
	}
	return nil
}

func (w *saoWorld) mkKeyOwner(a *Account, name string) *owner {
	k := PoolKey("owner-" + name)
	did := "did:key:" + k.MB
	o := &owner{did: did, key: k, kid: did + "#" + k.MB, acct: a}
	w.r.UpdatePaymentAddress(a, &didtypes.MsgUpdatePaymentAddress{Creator: a.Bech(), AccountId: accountIdOf(a), Did: did})
	return o
}

func (w *saoWorld) mkSidOwner(a *Account, name string) *owner {
	k := PoolKey("sidowner-" + name)
	ts := uint64(w.c.handlerNow())
	keys := k.PubKeys("signing")
	root := *oracleCalcDoc(keys, ts)
	did := "did:sid:" + root
	msg := &didtypes.MsgBinding{Creator: a.Bech(), AccountId: accountIdOf(a), RootDocId: root, Keys: keys,
		AccountAuth: &didtypes.AccountAuth{AccountDid: "did:key:acc-" + name, AccountEncryptedSeed: "s", SidEncryptedAccount: "e"},
		Proof:       &didtypes.BindingProof{Version: 1, Message: "bind " + did, Signature: CosmosProofSig(a, a.Bech(), "bind "+did), Account: accountIdOf(a), Did: did, Timestamp: ts}}
	w.r.Binding(a, msg)
	return &owner{did: did, key: k, kid: did + "?versionId=" + root + "#signing", acct: a, sid: true}
}

func (w *saoWorld) setup(accts []*Account) {
	r := w.r
	r.BeginBlock()
	// 0,1: gateways; 2: gateway tx address; 3..8 providers; 9..12 owners; 13 sponsor; 14 attacker; 15 attacker's did account
	w.gateways = accts[0:2]
	w.gwTx = map[string]*Account{accts[0].Bech(): accts[2]}
	w.providers = accts[3:9]
	for _, g := range w.gateways {
		r.NodeCreate(g)
	}
	r.NodeReset(accts[0], "/ip4/127.0.0.1/tcp/5153", 3, "", []string{accts[2].Bech()})
	r.NodeReset(accts[1], "", 3, "", nil)
	for _, p := range w.providers {
		r.NodeCreate(p)
	}
	r.EndBlock()
	r.BeginBlock()
	w.scarce = w.rng.Intn(4) == 0
	if w.scarce && w.rng.Intn(3) != 0 {
		w.silent = w.providers[1]
	}
	for i, p := range w.providers {
		if w.scarce && i >= 2 {
			continue
		}
		if i == 0 {
			// a provider that works through a separate transaction address (the gateway's worker account doubles as it)
			r.NodeReset(p, "", 13, "", []string{w.gwTx[w.gateways[0].Bech()].Bech()})
			w.spTx = map[string]*Account{p.Bech(): w.gwTx[w.gateways[0].Bech()]}
		} else {
			r.NodeReset(p, "", 13, "", nil)
		}
		size := uint64(50000000 + 10000000*i)
		if i == 5 {
			size = 2000000 // small provider: runs out of capacity
		}
		r.AddVstorage(p, size)
		if i == 4 && w.rng.Intn(2) == 0 {
			// a provider that keeps almost nothing liquid: renewals for a longer period put it into debt
			if bal := w.c.App.BankKeeper.GetBalance(w.c.deliverCtx(), p.Addr, Denom).Amount.Int64(); bal > 500 {
				r.Send(p, w.gateways[0], bal-int64(w.rng.Intn(400)))
				w.poor = p
			}
		}
	}
	for i := 0; i < 3; i++ {
		w.owners = append(w.owners, w.mkKeyOwner(accts[9+i], fmt.Sprintf("k%d", i)))
	}
	w.owners = append(w.owners, w.mkSidOwner(accts[12], "s0"))
	w.sponsor = w.mkKeyOwner(accts[13], "sponsor")
	w.attacker = accts[14]
	w.attOwner = w.mkSidOwner(accts[15], "att")
	r.NodeCreate(w.attacker)
	// the attacker declares the victim gateway's addresses as its own
	r.NodeReset(w.attacker, "", 13, "", []string{accts[2].Bech(), accts[0].Bech(), accts[1].Bech()})
	r.EndBlock()
}

type storeOpts struct {
	mut string
}

func (w *saoWorld) proposal(o *owner, gw *Account, dataId, commitId string, op uint32, size uint64, replica int32, duration uint64, timeout int32) saotypes.Proposal {
	return saotypes.Proposal{Owner: o.did, Provider: gw.Bech(), GroupId: "g1", Duration: duration, Replica: replica, Timeout: timeout,
		Alias: "alias-" + dataId[:8], DataId: dataId, CommitId: commitId, Tags: []string{"t"}, Cid: goodCid, Rule: "", ExtendInfo: "",
		Size_: size, Operation: op}
}

// storeNew stores a new model through a gateway.
func (w *saoWorld) storeNew(mut string) {
	rng := w.rng
	o := w.owners[rng.Intn(len(w.owners))]
	gw := w.gateways[rng.Intn(len(w.gateways))]
	signer := gw
	if tx, ok := w.gwTx[gw.Bech()]; ok && rng.Intn(2) == 0 {
		signer = tx
	}
	dataId := w.newDataId()
	sizes := []uint64{1000000, 500000, 1, 1234567, 3000000}
	durs := []uint64{3600, 3600, 3601, 7200, 4000}
	tmos := []int32{30, 100, 300, 2000, 5}
	p := w.proposal(o, gw, dataId, dataId, 1, sizes[rng.Intn(len(sizes))], int32(1+rng.Intn(3)), durs[rng.Intn(len(durs))], tmos[rng.Intn(len(tmos))])
	key, kid := o.key, o.kid
	msgProvider := gw.Bech()
	var reader *owner
	switch mut {
	case "sponsor":
		p.PaymentDid = w.sponsor.did
		signer = w.sponsor.acct
	case "no-alias":
		p.Alias = "" // valid: the model is then indexed under its data id
	case "with-readers":
		reader = w.owners[rng.Intn(len(w.owners))]
		p.ReadonlyDids = []string{reader.did} // a read-only grantee named at creation
	case "sponsor-as-provider":
		p.PaymentDid = w.sponsor.did // submitted by a stranger who names the sponsor's payment address as provider
		signer = w.attacker
		msgProvider = w.sponsor.acct.Bech()
	case "sponsor-foreign":
		p.PaymentDid = w.sponsor.did // submitted by someone who is not the sponsor
	case "owner-direct":
		signer = o.acct // an account bound to the owner (sid binding, or the key DID's payment address): the order stays pending until Ready
	case "neg-timeout":
		p.Timeout = -1
	case "zero-timeout":
		p.Timeout = 0
	case "replica0":
		p.Replica = 0
	case "replica-neg":
		p.Replica = -1
	case "replica-many":
		p.Replica = 9
	case "short":
		p.Duration = 3599
	case "bad-cid":
		p.Cid = "notacid"
	case "huge-size":
		p.Size_ = 1 << 63
	case "zero-size":
		p.Size_ = 0
	case "bad-dataid":
		p.DataId = "short"
		p.CommitId = "short"
	case "wrong-key":
		key = PoolKey("stranger")
	case "wrong-did":
		key, kid = w.attOwner.key, w.attOwner.kid
	case "foreign-version":
		if o.sid {
			// victim's DID in the kid, attacker's document version, attacker's key
			key = w.attOwner.key
			kid = o.did + "?versionId=" + w.attOwner.did[len("did:sid:"):] + "#signing"
		}
	case "stranger-gateway":
		signer = w.attacker
		msgProvider = w.attacker.Bech()
	case "claimed-provider":
		signer = w.attacker
	}
	jws := SignJWS(&p, key, kid)
	if mut == "tampered" {
		p.Size_ += 1000
	}
	if mut == "unknown-gateway" {
		p.Provider = w.owners[0].acct.Bech()
		jws = SignJWS(&p, key, kid)
	}
	msg := &saotypes.MsgStore{Creator: signer.Bech(), Proposal: p, JwsSignature: jws, Provider: msgProvider}
	res := w.r.Store(signer, msg)
	if res.Class == "ok" {
		w.models = append(w.models, p.DataId)
		if reader != nil && reader != o {
			if w.readers == nil {
				w.readers = map[string]*owner{}
			}
			w.readers[p.DataId] = reader
		}
	}
}

func (w *saoWorld) ctxOrders() []ordertypes.Order { return w.c.App.OrderKeeper.GetAllOrder(w.c.deliverCtx()) }
func (w *saoWorld) ctxShards() []ordertypes.Shard { return w.c.App.OrderKeeper.GetAllShard(w.c.deliverCtx()) }

func (w *saoWorld) acctByAddr(addr string) *Account {
	for _, a := range w.c.Accounts {
		if a.Bech() == addr {
			return a
		}
	}
	return nil
}

func (w *saoWorld) ownerByDid(did string) *owner {
	for _, o := range w.owners {
		if o.did == did {
			return o
		}
	}
	if w.attOwner.did == did {
		return w.attOwner
	}
	return nil
}

// completeSome lets providers complete waiting / migrating shards (each independently silent or not).
func (w *saoWorld) completeSome(mut string) {
	rng := w.rng
	shards := w.ctxShards()
	if len(shards) == 0 {
		return
	}
	rng.Shuffle(len(shards), func(i, j int) { shards[i], shards[j] = shards[j], shards[i] })
	n := 0
	for _, sh := range shards {
		if sh.Status != ordertypes.ShardWaiting && sh.Status != ordertypes.ShardMigrating {
			continue
		}
		if n >= 3 {
			break
		}
		if rng.Intn(4) == 0 && mut == "" {
			continue // silent
		}
		sp := w.acctByAddr(sh.Sp)
		if sp == nil || (sp == w.silent && mut == "") {
			continue
		}
		// the order that lists the shard (for a migrating shard: the order whose list it was appended to)
		var oid uint64 = sh.OrderId
		for _, o := range w.ctxOrders() {
			for _, id := range o.Shards {
				if id == sh.Id {
					oid = o.Id
				}
			}
		}
		signer, provider, cidv, size := sp, sp.Bech(), goodCid2, sh.Size_
		if tx, ok := w.spTx[sp.Bech()]; ok && mut == "" && rng.Intn(2) == 0 {
			signer = tx
		}
		switch mut {
		case "wrong-size":
			size++
		case "zero-size":
			size = 0
		case "bad-cid":
			cidv = "zzz"
		case "not-assigned":
			other := w.providers[rng.Intn(len(w.providers))]
			signer, provider = other, other.Bech()
		case "impersonate":
			signer = w.attacker // claims to act for the provider
		case "attacker-node":
			signer, provider = w.attacker, w.attacker.Bech()
		}
		w.r.Complete(signer, provider, oid, cidv, size)
		n++
	}
}

func (w *saoWorld) latestMeta(dataId string) (ownerDid string, commit string, orderId uint64, ok bool) {
	m, found := w.c.App.ModelKeeper.GetMetadata(w.c.deliverCtx(), dataId)
	if !found {
		return "", "", 0, false
	}
	return m.Owner, m.Commit, m.OrderId, true
}

func (w *saoWorld) update(mut string) {
	rng := w.rng
	if len(w.models) == 0 {
		return
	}
	dataId := w.models[rng.Intn(len(w.models))]
	ownerDid, commit, _, ok := w.latestMeta(dataId)
	if !ok {
		return
	}
	o := w.ownerByDid(ownerDid)
	if o == nil {
		return
	}
	gw := w.gateways[rng.Intn(len(w.gateways))]
	newCommit := w.newCommit()
	commitId := commit + "|" + newCommit
	op := uint32(1)
	if rng.Intn(4) == 0 {
		op = 2
	}
	signerOwner := o
	byGrantee := false
	if g, ok := w.grants[dataId]; ok && mut == "" && rng.Intn(2) == 0 {
		signerOwner = g // a read-write grantee may update the content
		byGrantee = true
	} else if g := w.formerGrantee(dataId); g != nil && mut == "" && rng.Intn(2) == 0 {
		signerOwner = g // access withdrawn: must be refused
	}
	switch mut {
	case "stale-base":
		commitId = w.newCommit() + "|" + newCommit
	case "prefix-base":
		commitId = commit[:1] + "|" + newCommit
	case "empty-base":
		commitId = "|" + newCommit
	case "embed-dataid":
		commitId = "|" + dataId
	case "stranger":
		signerOwner = w.attOwner
	case "grantee":
		signerOwner = w.owners[(rng.Intn(len(w.owners)))]
	case "readonly":
		signerOwner = w.sponsor // the sponsor DID only ever gets read-only access
		if rd, ok := w.readers[dataId]; ok {
			signerOwner = rd
		}
	}
	p := w.proposal(signerOwner, gw, dataId, commitId, op, uint64(500000+rng.Intn(3)*500000), int32(1+rng.Intn(2)), []uint64{3600, 7200}[rng.Intn(2)], 50)
	if rng.Intn(2) == 0 {
		p.Cid = goodCid2 // new content
	}
	jws := SignJWS(&p, signerOwner.key, signerOwner.kid)
	res := w.r.Store(gw, &saotypes.MsgStore{Creator: gw.Bech(), Proposal: p, JwsSignature: jws, Provider: gw.Bech()})
	if byGrantee && res.Class == "ok" {
		w.granteeWrote = append(w.granteeWrote, dataId)
	}
}

func (w *saoWorld) renew(mut string) {
	rng := w.rng
	if len(w.models) == 0 {
		return
	}
	dataId := w.models[rng.Intn(len(w.models))]
	if mut == "grantee" && len(w.granteeWrote) > 0 && rng.Intn(3) != 0 {
		// the interesting case: the model's latest order was placed by the grantee
		dataId = w.granteeWrote[rng.Intn(len(w.granteeWrote))]
	}
	ownerDid, _, _, ok := w.latestMeta(dataId)
	if !ok {
		return
	}
	o := w.ownerByDid(ownerDid)
	if o == nil {
		return
	}
	if mut == "stranger" {
		o = w.attOwner
	}
	if mut == "grantee" {
		if g, ok := w.grants[dataId]; ok {
			o = g // renewals are owner-only: a grantee's must be refused
		} else {
			o = w.owners[rng.Intn(len(w.owners))]
		}
	}
	gw := w.gateways[rng.Intn(len(w.gateways))]
	data := []string{dataId}
	if rng.Intn(3) == 0 && len(w.models) > 1 {
		data = append(data, w.models[rng.Intn(len(w.models))])
	}
	dur := []uint64{3600, 7200, 3600, 5000}[rng.Intn(4)]
	if w.poor != nil && rng.Intn(2) == 0 {
		dur = []uint64{14400, 36000}[rng.Intn(2)]
	}
	if mut == "short" {
		dur = 3599
	}
	if mut == "too-long" {
		dur = 63072001
	}
	p := saotypes.RenewProposal{Owner: o.did, Duration: dur, Timeout: 10, Data: data}
	jws := SignJWS(&p, o.key, o.kid)
	if mut == "forged-owner" {
		jws = SignJWS(&p, w.sponsor.key, w.sponsor.kid)
	}
	signer, provider := gw, gw.Bech()
	if tx, ok := w.gwTx[gw.Bech()]; ok && rng.Intn(3) == 0 {
		signer = tx
	}
	if mut == "attacker-relay" {
		signer, provider = w.attacker, w.attacker.Bech()
	}
	w.r.Renew(signer, &saotypes.MsgRenew{Creator: signer.Bech(), Proposal: p, JwsSignature: jws, Provider: provider})
}

func (w *saoWorld) terminate(mut string) {
	rng := w.rng
	if len(w.models) == 0 {
		return
	}
	dataId := w.models[rng.Intn(len(w.models))]
	ownerDid, _, _, ok := w.latestMeta(dataId)
	if !ok {
		return
	}
	o := w.ownerByDid(ownerDid)
	if o == nil {
		return
	}
	if mut == "stranger" {
		o = w.attOwner
	}
	if g, ok := w.grants[dataId]; ok && (mut == "grantee" || (mut == "" && rng.Intn(4) == 0)) {
		o = g
	} else if g := w.formerGrantee(dataId); g != nil && mut == "" && rng.Intn(3) == 0 {
		o = g // access withdrawn: must be refused
	}
	if mut == "readonly" {
		o = w.sponsor
		if rd, ok := w.readers[dataId]; ok {
			o = rd
		}
	}
	gw := w.gateways[rng.Intn(len(w.gateways))]
	p := saotypes.TerminateProposal{Owner: o.did, DataId: dataId}
	jws := SignJWS(&p, o.key, o.kid)
	if mut == "forged-owner" {
		jws = SignJWS(&p, w.sponsor.key, w.sponsor.kid)
	}
	if mut == "tampered" {
		p.DataId = w.models[rng.Intn(len(w.models))]
	}
	tsigner := gw
	if tx, ok := w.gwTx[gw.Bech()]; ok && rng.Intn(3) == 0 {
		tsigner = tx
	}
	if mut == "unknown-relay" {
		tsigner = w.owners[0].acct // not a node and not declared by the named gateway
	}
	w.r.Terminate(tsigner, &saotypes.MsgTerminate{Creator: tsigner.Bech(), Proposal: p, JwsSignature: jws, Provider: gw.Bech()})
}

func (w *saoWorld) permission(mut string) {
	rng := w.rng
	if len(w.models) == 0 {
		return
	}
	dataId := w.models[rng.Intn(len(w.models))]
	ownerDid, _, _, ok := w.latestMeta(dataId)
	if !ok {
		return
	}
	o := w.ownerByDid(ownerDid)
	if o == nil {
		return
	}
	if mut == "stranger" {
		o = w.attOwner
	}
	gw := w.gateways[rng.Intn(len(w.gateways))]
	grantee := w.owners[rng.Intn(len(w.owners))]
	p := saotypes.PermissionProposal{Owner: o.did, DataId: dataId, ReadwriteDids: []string{grantee.did}, ReadonlyDids: []string{w.sponsor.did}}
	if mut == "bad-did" {
		p.ReadwriteDids = []string{"did:key:unknown"}
	}
	revoke := false
	if _, granted := w.grants[dataId]; granted && mut == "" && rng.Intn(2) == 0 {
		// revoke: empty lists (sometimes only one of them)
		revoke = true
		p.ReadwriteDids = nil
		if rng.Intn(2) == 0 {
			p.ReadonlyDids = nil
		}
	}
	jws := SignJWS(&p, o.key, o.kid)
	if g, ok := w.grants[dataId]; ok && mut == "grantee" {
		// a read-write grantee signs the permission update itself, naming the owner or itself as owner
		if rng.Intn(2) == 0 {
			p.Owner = g.did
		}
		p.ReadwriteDids = []string{g.did, w.attOwner.did}
		jws = SignJWS(&p, g.key, g.kid)
	}
	if mut == "forged-owner" {
		// the proposal names the real owner; header and signature are the sponsor's (an unrelated did:key), who grants himself access
		p.ReadwriteDids = []string{w.sponsor.did}
		jws = SignJWS(&p, w.sponsor.key, w.sponsor.kid)
	}
	res := w.r.UpdatePermission(gw, &saotypes.MsgUpdataPermission{Creator: gw.Bech(), Proposal: p, JwsSignature: jws, Provider: gw.Bech()})
	if res.Class == "ok" {
		if revoke {
			w.revoked = append(w.revoked, revokedGrant{dataId, w.grants[dataId]})
			delete(w.grants, dataId)
		} else {
			w.grants[dataId] = grantee
		}
	}
}

func (w *saoWorld) cancel(mut string) {
	rng := w.rng
	orders := w.ctxOrders()
	if len(orders) == 0 {
		return
	}
	o := orders[rng.Intn(len(orders))]
	// prefer an unfinished order
	for i := 0; i < 5 && o.Status == ordertypes.OrderCompleted; i++ {
		o = orders[rng.Intn(len(orders))]
	}
	signer := w.acctByAddr(o.Creator)
	provider := o.Provider
	if signer == nil {
		return
	}
	if signer.Bech() != provider && rng.Intn(3) != 0 {
		provider = signer.Bech() // a creator that is not the gateway acts for itself
	}
	switch mut {
	case "attacker-own-node":
		signer, provider = w.attacker, w.attacker.Bech()
	case "attacker-names-gateway":
		signer = w.attacker
	case "other-gateway":
		signer = w.gateways[1]
		provider = w.gateways[1].Bech()
	}
	w.r.Cancel(signer, provider, o.Id)
}

func (w *saoWorld) ready(mut string) {
	for _, o := range w.ctxOrders() {
		if o.Status == ordertypes.OrderPending {
			gw := w.acctByAddr(o.Provider)
			if gw == nil {
				continue
			}
			signer, provider := gw, gw.Bech()
			if mut == "attacker" {
				signer, provider = w.attacker, w.attacker.Bech()
			}
			w.r.Ready(signer, provider, o.Id)
			return
		}
	}
}

func (w *saoWorld) migrate(mut string) {
	rng := w.rng
	if len(w.models) == 0 {
		return
	}
	p := w.providers[rng.Intn(len(w.providers))]
	data := []string{w.models[rng.Intn(len(w.models))]}
	if rng.Intn(2) == 0 {
		data = append(data, w.models[rng.Intn(len(w.models))])
	}
	signer := p
	if mut == "impersonate" {
		signer = w.attacker
	}
	w.r.Migrate(signer, p.Bech(), data)
}

// faults: reports and recoveries about completed shards, by fishmen, ordinary nodes and non-nodes
func (w *saoWorld) faults(mut string) {
	rng := w.rng
	var cands []ordertypes.Shard
	for _, sh := range w.ctxShards() {
		if sh.Status == ordertypes.ShardCompleted || (mut == "not-held" && sh.Sp != "") {
			cands = append(cands, sh)
		}
	}
	if mut == "not-held" {
		// a report about a shard the accused was only assigned, has timed out on, or is still migrating to
		var nh []ordertypes.Shard
		for _, sh := range cands {
			if sh.Status != ordertypes.ShardCompleted {
				nh = append(nh, sh)
			}
		}
		if len(nh) > 0 {
			cands = nh
		}
	}
	if len(cands) == 0 {
		return
	}
	if mut == "recover-others" && len(w.reported) > 0 {
		// an ordinary provider declares, in its own name, the recovery of a fault recorded against ANOTHER provider
		rf := w.reported[rng.Intn(len(w.reported))]
		if ord, found := w.c.App.OrderKeeper.GetOrder(w.c.deliverCtx(), rf.OrderId); found {
			for _, k := range rng.Perm(len(w.providers)) {
				p := w.providers[k]
				if k == 0 || p.Bech() == rf.Provider {
					continue
				}
				f := *rf
				f.CommitId = ord.Commit
				f.Reporter = p.Bech()
				w.r.RecoverFaults(p, p.Bech(), []*saotypes.Fault{&f})
				return
			}
		}
		return
	}
	sh := cands[rng.Intn(len(cands))]
	ord, found := w.c.App.OrderKeeper.GetOrder(w.c.deliverCtx(), sh.OrderId)
	if !found {
		return
	}
	if mut == "not-held" && rng.Intn(2) == 0 {
		w.r.ReportFaults(w.providers[0], sh.Sp, []*saotypes.Fault{{DataId: ord.DataId, OrderId: ord.Id, ShardId: sh.Id, CommitId: "lost", Provider: sh.Sp, Reporter: w.providers[0].Bech()}})
		return
	}
	fishman := w.providers[0]
	if rng.Intn(2) == 0 {
		fishman = w.gateways[1]
	}
	reporter := fishman
	switch mut {
	case "ordinary-node":
		reporter = w.providers[3]
	case "non-node":
		reporter = w.owners[0].acct
	}
	f := &saotypes.Fault{DataId: ord.DataId, OrderId: ord.Id, ShardId: sh.Id, CommitId: "nocommit", Provider: sh.Sp, Reporter: reporter.Bech()}
	switch mut {
	case "wrong-order":
		f.OrderId = ord.Id + 1
	case "wrong-data":
		f.DataId = "nodata"
	case "wrong-shard":
		f.ShardId = sh.Id + 100
	case "wrong-provider":
		f.Provider = w.providers[(rng.Intn(len(w.providers)))].Bech()
	}
	provider := sh.Sp
	switch rng.Intn(4) {
	case 0, 1:
		if res := w.r.ReportFaults(reporter, provider, []*saotypes.Fault{f, f}); res.Class == "ok" && reporter == fishman && mut == "" {
			cp := *f
			w.reported = append(w.reported, &cp)
		}
	case 2:
		// the accused declares recovery (commit must match for recovery)
		f.CommitId = ord.Commit
		sp := w.acctByAddr(sh.Sp)
		if sp != nil && mut == "" {
			reporter = sp
		}
		w.r.RecoverFaults(reporter, provider, []*saotypes.Fault{f})
	default:
		f.CommitId = ord.Commit
		w.r.RecoverFaults(reporter, provider, []*saotypes.Fault{f})
	}
}

func (w *saoWorld) nextScheduled() int64 {
	ctx := w.c.deliverCtx()
	best := int64(-1)
	upd := func(h uint64) {
		hh := int64(h)
		if hh >= w.c.Height && (best < 0 || hh < best) {
			best = hh
		}
	}
	for _, t := range w.c.App.SaoKeeper.GetAllTimeoutOrder(ctx) {
		upd(t.Height)
	}
	for _, t := range w.c.App.SaoKeeper.GetAllExpiredShard(ctx) {
		upd(t.Height)
	}
	for _, t := range w.c.App.ModelKeeper.GetAllExpiredData(ctx) {
		upd(t.Height)
	}
	return best
}

// advance runs empty blocks; returns false when the chain halted.
func (w *saoWorld) advance(n int) bool {
	if w.c.Halted != "" {
		return false
	}
	w.r.Blocks(n)
	return w.c.Halted == ""
}

func weighted(rng *rand.Rand, muts []string, pMal int) string {
	if rng.Intn(100) < pMal {
		return muts[rng.Intn(len(muts))]
	}
	return ""
}

func runSaoHistory(r *Recorder, rng *rand.Rand, accts []*Account, nOps int, long bool, exportEvery int) {
	w := &saoWorld{rng: rng, r: r, c: r.c, longRun: long, exportEvery: exportEvery, grants: map[string]*owner{}}
	w.setup(accts)
	done := 0
	maxBlocks := 400
	if long {
		maxBlocks = 12000
	}
	startH := w.c.Height
	for done < nOps && w.c.Halted == "" && w.c.Height-startH < int64(maxBlocks) {
		r.BeginBlock()
		per := 1 + rng.Intn(4)
		for j := 0; j < per && done < nOps && w.c.Halted == ""; j++ {
			x := rng.Intn(100)
			switch {
			case x < 18 || len(w.models) == 0:
				w.storeNew(weighted(rng, []string{"sponsor", "sponsor-foreign", "sponsor-as-provider", "no-alias", "with-readers", "with-readers", "owner-direct", "owner-direct", "owner-direct", "owner-direct", "neg-timeout", "zero-timeout", "replica0", "replica-neg",
					"replica-many", "short", "bad-cid", "huge-size", "zero-size", "bad-dataid", "wrong-key", "wrong-did", "foreign-version", "stranger-gateway",
					"claimed-provider", "tampered", "unknown-gateway"}, 35))
			case x < 45:
				w.completeSome(weighted(rng, []string{"wrong-size", "zero-size", "bad-cid", "not-assigned", "impersonate", "attacker-node"}, 15))
			case x < 55:
				w.update(weighted(rng, []string{"stale-base", "prefix-base", "empty-base", "embed-dataid", "stranger", "grantee", "readonly"}, 30))
			case x < 63:
				w.renew(weighted(rng, []string{"stranger", "too-long", "short", "attacker-relay", "grantee", "grantee", "forged-owner"}, 30))
			case x < 68:
				w.terminate(weighted(rng, []string{"stranger", "tampered", "grantee", "readonly", "unknown-relay", "forged-owner"}, 30))
			case x < 75:
				w.permission(weighted(rng, []string{"stranger", "bad-did", "forged-owner", "forged-owner", "grantee", "grantee"}, 35))
			case x < 80:
				w.cancel(weighted(rng, []string{"attacker-own-node", "attacker-names-gateway", "other-gateway"}, 30))
			case x < 85:
				w.ready(weighted(rng, []string{"attacker"}, 20))
			case x < 90:
				w.migrate(weighted(rng, []string{"impersonate"}, 15))
			case x < 95:
				w.faults(weighted(rng, []string{"ordinary-node", "non-node", "wrong-order", "wrong-data", "wrong-shard", "wrong-provider", "recover-others", "recover-others", "not-held", "not-held"}, 50))
			case x < 97:
				// claims: prefer a provider with a recorded collateral debt (the claim then nets the debt out), and let it claim again in the next blocks
				p := w.providers[rng.Intn(len(w.providers))]
				if debts := w.c.App.NodeKeeper.GetAllPledgeDebt(w.c.deliverCtx()); len(debts) > 0 && rng.Intn(4) != 0 {
					if a := w.acctByAddr(debts[rng.Intn(len(debts))].Sp); a != nil {
						p = a
					}
				}
				r.ClaimReward(p)
				if rng.Intn(3) == 0 {
					r.ClaimReward(p)
				}
			default:
				p := w.providers[rng.Intn(len(w.providers))]
				if rng.Intn(2) == 0 {
					r.AddVstorage(p, uint64(1000000*(1+rng.Intn(5))))
				} else {
					r.RemoveVstorage(p, uint64(1000000*(1+rng.Intn(40)))-uint64(rng.Intn(3))*499999)
				}
			}
			done++
		}
		r.EndBlock()
		if w.exportEvery > 0 && rng.Intn(w.exportEvery) == 0 && w.c.Halted == "" {
			r.ExportImport()
		}
		// time
		switch y := rng.Intn(10); {
		case y < 5:
		case y < 8:
			w.advance(1 + rng.Intn(4))
		default:
			if h := w.nextScheduled(); h > 0 && (long || h-w.c.Height < 150) {
				// run up to one block past the next scheduled height
				w.advance(int(h-w.c.Height) + 2)
			}
		}
	}
	// long histories: drain every schedule
	if long {
		for k := 0; k < 12 && w.c.Halted == ""; k++ {
			h := w.nextScheduled()
			if h < 0 || h-startH > 14000 {
				break
			}
			r.BeginBlock()
			w.completeSome("")
			r.EndBlock()
			if h >= w.c.Height {
				w.advance(int(h-w.c.Height) + 2)
			}
		}
	}
}
