package main

// abs(state): the abstraction of the real application's state, read through the
// keepers' own getters, rendered canonically (records sorted by key).

import (
	"bufio"
	"math/big"

	sdk "github.com/cosmos/cosmos-sdk/types"
)

type Table struct {
	Name string
	Val  V
}

func (c *Chain) dumpDid(ctx sdk.Context) []Table {
	k := c.App.DidKeeper
	var auth, accid, acclist, did, bal, kid, seeds, pay, doc, ver []kv
	for _, e := range k.GetAllAccountAuth(ctx) {
		auth = append(auth, kv{e.AccountDid, L(S(e.AccountEncryptedSeed), S(e.SidEncryptedAccount))})
	}
	for _, e := range k.GetAllAccountId(ctx) {
		accid = append(accid, kv{e.AccountDid, S(e.AccountId)})
	}
	for _, e := range k.GetAllAccountList(ctx) {
		acclist = append(acclist, kv{e.Did, LS(e.AccountDids)})
	}
	for _, e := range k.GetAllDid(ctx) {
		did = append(did, kv{e.AccountId, S(e.Did)})
	}
	for _, e := range k.GetAllDidBalances(ctx) {
		bal = append(bal, kv{e.Did, ZB(e.Balance.Amount.BigInt())})
	}
	for _, e := range k.GetAllKid(ctx) {
		kid = append(kid, kv{e.Address, S(e.Kid)})
	}
	for _, e := range k.GetAllPastSeeds(ctx) {
		seeds = append(seeds, kv{e.Did, LS(e.Seeds)})
	}
	for _, e := range k.GetAllPaymentAddress(ctx) {
		pay = append(pay, kv{e.Did, S(e.Address)})
	}
	for _, e := range k.GetAllSidDocument(ctx) {
		keys := make(vl, 0)
		for _, pk := range e.Keys {
			keys = append(keys, L(S(pk.Name), S(pk.Value)))
		}
		doc = append(doc, kv{e.VersionId, keys})
	}
	for _, e := range k.GetAllSidDocumentVersion(ctx) {
		ver = append(ver, kv{e.DocId, LS(e.VersionList)})
	}
	return []Table{
		{"did.AccountAuth", SMap(auth)}, {"did.AccountId", SMap(accid)}, {"did.AccountList", SMap(acclist)},
		{"did.Did", SMap(did)}, {"did.DidBalances", SMap(bal)}, {"did.Kid", SMap(kid)},
		{"did.PastSeeds", SMap(seeds)}, {"did.PaymentAddress", SMap(pay)}, {"did.SidDocument", SMap(doc)},
		{"did.SidDocumentVersion", SMap(ver)},
	}
}

func (c *Chain) DumpState() V {
	ctx := c.deliverCtx()
	var tabs []Table
	tabs = append(tabs, c.dumpDid(ctx)...)
	tabs = append(tabs, c.dumpRest(ctx)...)
	out := make(vl, 0, len(tabs))
	for _, t := range tabs {
		out = append(out, L(S(t.Name), t.Val))
	}
	return out
}

// Recorder writes a history file: one genesis line, then one line per step.
type Recorder struct {
	Notes []string
	w     *bufio.Writer
	c     *Chain
	Steps int
	Ops   map[string]int
	Outs  map[string]int
}

func NewRecorder(w *bufio.Writer, c *Chain) *Recorder {
	r := &Recorder{w: w, c: c, Ops: map[string]int{}, Outs: map[string]int{}}
	WriteLine(w, L(S("genesis"), c.DumpState()))
	return r
}

func (c *Chain) CtxV() V {
	seed := new(big.Int).SetBytes(c.AppHash)
	return L(Z(c.Height), S(ChainID), Z(c.Time.Unix()), ZB(seed))
}

// Step records one implementation step. ctx must be captured before the op ran.
func (r *Recorder) Step(ctx V, opName string, op V, outcome string) {
	WriteLine(r.w, L(S("step"), ctx, op, S(outcome), r.c.DumpState()))
	r.Steps++
	r.Ops[opName]++
	r.Outs[opName+":"+outcome]++
}

func (r *Recorder) Note(s string) { r.Notes = append(r.Notes, s) }
