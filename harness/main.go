package main

import (
	sdk "github.com/cosmos/cosmos-sdk/types"
	"bufio"
	"encoding/json"
	"flag"
	"fmt"
	"math/rand"
	"os"
	"strings"
	"time"
)

type Summary struct {
	Profile string         `json:"profile"`
	Seed    int64          `json:"seed"`
	Steps   int            `json:"steps"`
	Ops     map[string]int `json:"ops"`
	Outs    map[string]int `json:"outcomes"`
	Halted  string         `json:"halted"`
	WallS   float64        `json:"wall_s"`
	Notes   []string       `json:"notes,omitempty"`
}

func stdAccounts(n int) ([]*Account, map[string]int64) {
	var accs []*Account
	bal := map[string]int64{}
	accs = append(accs, NewAccount("val0", "s"))
	bal["val0"] = 1000000000
	for i := 0; i < n; i++ {
		a := NewAccount(fmt.Sprintf("a%d", i), "s")
		accs = append(accs, a)
		bal[a.Name] = 1000000000000
	}
	return accs, bal
}

// startTime: a third of the generated worlds run with a chain clock decades ahead of the host's clock, the others a few
// years behind it (the host clock is whatever it is when the check runs): nothing the chain decides may depend on which
func startTime(seed int64) time.Time {
	if seed%3 == 1 {
		return time.Unix(4102444800, 0) // 2100-01-01
	}
	return time.Unix(1700000000, 0)
}

func main() {
	setupSdkConfig()
	if len(os.Args) < 2 {
		fmt.Fprintln(os.Stderr, "usage: saoh gen|... [flags]")
		os.Exit(2)
	}
	switch os.Args[1] {
	case "gen":
		fs := flag.NewFlagSet("gen", flag.ExitOnError)
		profile := fs.String("profile", "did", "history profile")
		seed := fs.Int64("seed", 1, "PRNG seed")
		ops := fs.Int("ops", 60, "number of operations")
		out := fs.String("out", "", "output history file")
		streamPath := fs.String("stream", "", "also record the consensus input stream (twin test)")
		fs.Parse(os.Args[2:])
		t0 := time.Now()
		f, err := os.Create(*out)
		if err != nil {
			panic(err)
		}
		w := bufio.NewWriterSize(f, 1<<20)
		rng := rand.New(rand.NewSource(*seed))
		var sum Summary
		var streamW *bufio.Writer
		if *streamPath != "" {
			sf, err := os.Create(*streamPath)
			if err != nil {
				panic(err)
			}
			defer sf.Close()
			streamW = bufio.NewWriterSize(sf, 1<<20)
			defer streamW.Flush()
		}
		switch *profile {
		case "did":
			accs, bal := stdAccounts(24)
			c, err := NewChain(GenesisSpec{Accounts: accs, Balances: bal, NodeParams: DefaultNodeParams(), ValidatorIdx: []int{0}, ValSelfBond: 1000000, StreamW: streamW}, startTime(*seed))
			if err != nil {
				panic(err)
			}
			r := NewRecorder(w, c)
			runDidHistory(r, rng, accs[1:], *ops)
			sum = Summary{Steps: r.Steps, Ops: r.Ops, Outs: r.Outs, Halted: c.Halted}
			c.Close()
		case "node":
			accs, bal := stdAccounts(8)
			c, err := NewChain(GenesisSpec{Accounts: accs, Balances: bal, NodeParams: randomNodeParams(rng), ValidatorIdx: []int{0}, ValSelfBond: 1000000, StreamW: streamW}, startTime(*seed))
			if err != nil {
				panic(err)
			}
			r := NewRecorder(w, c)
			runNodeHistory(r, rng, accs[1:], *ops)
			sum = Summary{Steps: r.Steps, Ops: r.Ops, Outs: r.Outs, Halted: c.Halted}
			c.Close()
		case "sao", "saolong", "genesis":
			accs, bal := stdAccounts(16)
			np := DefaultNodeParams()
			np.FishmenInfo = accs[4].Bech() + "," + accs[2].Bech()
			if rng.Intn(3) == 0 {
				// a third of the worlds mint the full block reward (pledges are far below the default baseline otherwise,
				// and the APY-limited reward truncates to nothing): claims then pay block rewards, net of collateral debt
				np.Baseline = sdk.NewInt64Coin(Denom, 1)
				np.BlockReward = sdk.NewInt64Coin(Denom, []int64{1000, 1000000}[rng.Intn(2)])
			}
			c, err := NewChain(GenesisSpec{Accounts: accs, Balances: bal, NodeParams: np, ValidatorIdx: []int{0}, ValSelfBond: 1000000, StreamW: streamW}, startTime(*seed))
			if err != nil {
				panic(err)
			}
			r := NewRecorder(w, c)
			ee := 0
			if *profile == "genesis" {
				ee = 6
			}
			runSaoHistory(r, rng, accs[1:], *ops, *profile == "saolong", ee)
			sum = Summary{Steps: r.Steps, Ops: r.Ops, Outs: r.Outs, Halted: c.Halted}
			c.Close()
		case "staking":
			accs := []*Account{NewAccount("val0", "s"), NewAccount("val1", "s")}
			bal := map[string]int64{"val0": 1000000000, "val1": 1000000000}
			for i := 0; i < 8; i++ {
				a := NewAccount(fmt.Sprintf("a%d", i), "s")
				accs = append(accs, a)
				bal[a.Name] = 3000000
			}
			np := DefaultNodeParams()
			np.VstorageThreshold = 5000000
			c, err := NewChain(GenesisSpec{Accounts: accs, Balances: bal, NodeParams: np, ValidatorIdx: []int{0, 1}, ValBonds: []int64{1000000, 900000}, MaxVals: 1, StreamW: streamW}, startTime(*seed))
			if err != nil {
				panic(err)
			}
			r := NewRecorder(w, c)
			runStakingHistory(r, rng, accs[2:], *ops)
			sum = Summary{Steps: r.Steps, Ops: r.Ops, Outs: r.Outs, Halted: c.Halted}
			c.Close()
		case "select":
			accs, bal := stdAccounts(12)
			c, err := NewChain(GenesisSpec{Accounts: accs, Balances: bal, NodeParams: DefaultNodeParams(), ValidatorIdx: []int{0}, ValSelfBond: 1000000, StreamW: streamW}, startTime(*seed))
			if err != nil {
				panic(err)
			}
			r := NewRecorder(w, c)
			runSelectHistory(r, rng, accs[1:], *ops, 12)
			sum = Summary{Steps: r.Steps, Ops: r.Ops, Outs: r.Outs, Halted: c.Halted}
			c.Close()
		default:
			if strings.HasPrefix(*profile, "scenario:") {
				sc, ok := scenarios[strings.TrimPrefix(*profile, "scenario:")]
				if !ok {
					panic("unknown scenario " + *profile)
				}
				accs, bal := stdAccounts(12)
				spec := GenesisSpec{Accounts: accs, Balances: bal, NodeParams: DefaultNodeParams(), ValidatorIdx: []int{0}, ValSelfBond: 1000000, StreamW: streamW}
				if sc.genesis != nil {
					sc.genesis(&spec)
				}
				c, err := NewChain(spec, time.Unix(1700000000, 0))
				if err != nil {
					panic(err)
				}
				r := NewRecorder(w, c)
				sc.run(r, accs[1:])
				sum = Summary{Steps: r.Steps, Ops: r.Ops, Outs: r.Outs, Halted: c.Halted, Notes: r.Notes}
				c.Close()
				break
			}
			panic("unknown profile " + *profile)
		}
		w.Flush()
		f.Close()
		sum.Profile = *profile
		sum.Seed = *seed
		sum.WallS = time.Since(t0).Seconds()
		js, _ := json.Marshal(sum)
		fmt.Println(string(js))
	case "replay":
		fs := flag.NewFlagSet("replay", flag.ExitOnError)
		streamPath := fs.String("stream", "", "stream file recorded by gen --stream")
		seed := fs.Int64("seed", 1, "schedule seed")
		restartEvery := fs.Int("restart-every", 6, "restart with probability 1/N at each block boundary (1 = always)")
		fs.Parse(os.Args[2:])
		sum := replayStream(*streamPath, *seed, *restartEvery)
		js, _ := json.Marshal(sum)
		fmt.Println(string(js))
	default:
		fmt.Fprintln(os.Stderr, "unknown command")
		os.Exit(2)
	}
}
