package main

import (
	"strings"

	nodetypes "github.com/SaoNetwork/sao/x/node/types"
	sdk "github.com/cosmos/cosmos-sdk/types"
	banktypes "github.com/cosmos/cosmos-sdk/x/bank/types"
	"github.com/multiformats/go-multiaddr"
)

func (r *Recorder) NodeCreate(a *Account) TxResult {
	ctx := r.c.CtxV()
	res := r.c.Deliver(a, 2000000, &nodetypes.MsgCreate{Creator: a.Bech()})
	r.Step(ctx, "NodeCreate", L(S("NodeCreate"), S(a.Bech())), res.Class)
	return res
}

func peersValid(peer string) bool {
	for _, p := range strings.Split(peer, ",") {
		if _, err := multiaddr.NewMultiaddr(p); err != nil {
			return false
		}
	}
	return true
}

func (r *Recorder) NodeReset(a *Account, peer string, status uint32, validator string, tx []string) TxResult {
	ctx := r.c.CtxV()
	res := r.c.Deliver(a, 3000000, &nodetypes.MsgReset{Creator: a.Bech(), Peer: peer, Status: status, Validator: validator, TxAddresses: tx})
	r.Step(ctx, "NodeReset", L(S("NodeReset"), S(a.Bech()), S(peer), ZU(uint64(status)), S(validator), LS(tx), B(peersValid(peer))), res.Class)
	return res
}

func (r *Recorder) AddVstorage(a *Account, size uint64) TxResult {
	ctx := r.c.CtxV()
	res := r.c.Deliver(a, 3000000, &nodetypes.MsgAddVstorage{Creator: a.Bech(), Size_: size})
	r.Step(ctx, "AddVstorage", L(S("AddVstorage"), S(a.Bech()), ZU(size)), res.Class)
	return res
}

func (r *Recorder) RemoveVstorage(a *Account, size uint64) TxResult {
	ctx := r.c.CtxV()
	res := r.c.Deliver(a, 3000000, &nodetypes.MsgRemoveVstorage{Creator: a.Bech(), Size_: size})
	r.Step(ctx, "RemoveVstorage", L(S("RemoveVstorage"), S(a.Bech()), ZU(size)), res.Class)
	return res
}

func (r *Recorder) ClaimReward(a *Account) TxResult {
	ctx := r.c.CtxV()
	res := r.c.Deliver(a, 3000000, &nodetypes.MsgClaimReward{Creator: a.Bech()})
	r.Step(ctx, "ClaimReward", L(S("ClaimReward"), S(a.Bech())), res.Class)
	return res
}

func (r *Recorder) Send(from, to *Account, amt int64) TxResult {
	ctx := r.c.CtxV()
	res := r.c.Deliver(from, 2000000, banktypes.NewMsgSend(from.Addr, to.Addr, sdk.NewCoins(sdk.NewInt64Coin(Denom, amt))))
	r.Step(ctx, "Send", L(S("Send"), S(from.Bech()), S(to.Bech()), Z(amt)), res.Class)
	return res
}
