package main

// Storage-order operations: signed proposals (JWS over the protobuf bytes), the
// signature / parser / cid oracles, delivery and recording.

import (
	"encoding/base64"
	"encoding/binary"
	"encoding/json"
	"strconv"

	saodidparser "github.com/SaoNetwork/sao-did/parser"
	saotypes "github.com/SaoNetwork/sao/x/sao/types"
	"github.com/cosmos/cosmos-sdk/crypto/keys/secp256k1"
	"github.com/ipfs/go-cid"
	uuid "github.com/satori/go.uuid"
)

var b64u = base64.RawURLEncoding

// all signing keys the harness ever created: the candidates of the signature oracle
var keyPool []*SignKey

func PoolKey(seed string) *SignKey {
	k := NewSignKey(seed)
	for _, e := range keyPool {
		if e.MB == k.MB {
			return e
		}
	}
	keyPool = append(keyPool, k)
	return k
}

type marshaler interface{ Marshal() ([]byte, error) }

// SignJWS signs the proposal bytes with key under the given kid.
func SignJWS(p marshaler, key *SignKey, kid string) saotypes.JwsSignature {
	pb, err := p.Marshal()
	if err != nil {
		panic(err)
	}
	hdr, _ := json.Marshal(map[string]string{"alg": "ES256K", "kid": kid})
	protected := b64u.EncodeToString(hdr)
	sig, err := key.Priv.Sign([]byte(protected + "." + b64u.EncodeToString(pb)))
	if err != nil {
		panic(err)
	}
	return saotypes.JwsSignature{Protected: protected, Signature: b64u.EncodeToString(sig)}
}

// sigOracle: (Parse(owner), Parse(kid), keys of the pool under which the signature
// verifies over protected.payload of the proposal AS DELIVERED)
func sigOracle(owner string, p marshaler, jws saotypes.JwsSignature) V {
	ownerV := L()
	if d, err := saodidparser.Parse(owner); err == nil && d != nil {
		ownerV = L(S(d.Method), S(d.ID))
	}
	kidV := L()
	if hb, err := b64u.DecodeString(jws.Protected); err == nil {
		var h map[string]interface{}
		if json.Unmarshal(hb, &h) == nil {
			if kid, ok := h["kid"].(string); ok {
				if d, err := saodidparser.Parse(kid); err == nil && d != nil {
					kidV = L(S(d.Method), S(d.ID), S(d.Query))
				}
			}
		}
	}
	keys := make(vl, 0)
	pb, err := p.Marshal()
	if err == nil {
		data := []byte(jws.Protected + "." + b64u.EncodeToString(pb))
		if raw, err := b64u.DecodeString(jws.Signature); err == nil {
			for _, k := range keyPool {
				pub := secp256k1.PubKey{Key: k.Priv.PubKey().Bytes()}
				if pub.VerifySignature(data, raw) {
					keys = append(keys, S(k.MB))
				}
			}
		}
	}
	return L(ownerV, kidV, keys)
}

func cidOK(c string) bool {
	_, err := cid.Decode(c)
	return err == nil
}

func (r *Recorder) Store(signer *Account, msg *saotypes.MsgStore) TxResult {
	ctx := r.c.CtxV()
	p := msg.Proposal
	sg := sigOracle(p.Owner, &p, msg.JwsSignature)
	res := r.c.Deliver(signer, 20000000, msg)
	op := L(S("Store"), S(msg.Creator), S(msg.Provider), S(p.Owner), S(p.Provider), S(p.GroupId), ZU(p.Duration), Z(int64(p.Replica)),
		Z(int64(p.Timeout)), S(p.Alias), S(p.DataId), S(p.CommitId), LS(p.Tags), S(p.Cid), S(p.Rule), S(p.ExtendInfo), ZU(p.Size_),
		ZU(uint64(p.Operation)), LS(p.ReadonlyDids), S(p.PaymentDid), sg, B(cidOK(p.Cid)))
	r.Step(ctx, "Store", op, res.Class)
	return res
}

func (r *Recorder) Ready(signer *Account, provider string, orderId uint64) TxResult {
	ctx := r.c.CtxV()
	res := r.c.Deliver(signer, 20000000, &saotypes.MsgReady{Creator: signer.Bech(), OrderId: orderId, Provider: provider})
	r.Step(ctx, "Ready", L(S("Ready"), S(signer.Bech()), S(provider), ZU(orderId)), res.Class)
	return res
}

func (r *Recorder) Complete(signer *Account, provider string, orderId uint64, c string, size uint64) TxResult {
	ctx := r.c.CtxV()
	res := r.c.Deliver(signer, 20000000, &saotypes.MsgComplete{Creator: signer.Bech(), OrderId: orderId, Cid: c, Size_: size, Provider: provider})
	r.Step(ctx, "Complete", L(S("Complete"), S(signer.Bech()), S(provider), ZU(orderId), S(c), ZU(size), B(cidOK(c))), res.Class)
	return res
}

func (r *Recorder) Cancel(signer *Account, provider string, orderId uint64) TxResult {
	ctx := r.c.CtxV()
	res := r.c.Deliver(signer, 20000000, &saotypes.MsgCancel{Creator: signer.Bech(), OrderId: orderId, Provider: provider})
	r.Step(ctx, "Cancel", L(S("Cancel"), S(signer.Bech()), S(provider), ZU(orderId)), res.Class)
	return res
}

func (r *Recorder) Renew(signer *Account, msg *saotypes.MsgRenew) TxResult {
	ctx := r.c.CtxV()
	p := msg.Proposal
	sg := sigOracle(p.Owner, &p, msg.JwsSignature)
	res := r.c.Deliver(signer, 50000000, msg)
	r.Step(ctx, "Renew", L(S("Renew"), S(msg.Creator), S(msg.Provider), S(p.Owner), ZU(p.Duration), Z(int64(p.Timeout)), LS(p.Data), sg), res.Class)
	return res
}

func (r *Recorder) Terminate(signer *Account, msg *saotypes.MsgTerminate) TxResult {
	ctx := r.c.CtxV()
	p := msg.Proposal
	sg := sigOracle(p.Owner, &p, msg.JwsSignature)
	res := r.c.Deliver(signer, 50000000, msg)
	r.Step(ctx, "Terminate", L(S("Terminate"), S(msg.Creator), S(msg.Provider), S(p.Owner), S(p.DataId), sg), res.Class)
	return res
}

func (r *Recorder) Migrate(signer *Account, provider string, data []string) TxResult {
	ctx := r.c.CtxV()
	res := r.c.Deliver(signer, 50000000, &saotypes.MsgMigrate{Creator: signer.Bech(), Data: data, Provider: provider})
	r.Step(ctx, "Migrate", L(S("Migrate"), S(signer.Bech()), S(provider), LS(data)), res.Class)
	return res
}

func (r *Recorder) UpdatePermission(signer *Account, msg *saotypes.MsgUpdataPermission) TxResult {
	c := r.c
	ctx := c.CtxV()
	p := msg.Proposal
	sg := sigOracle(p.Owner, &p, msg.JwsSignature)
	// oracle: ValidDid on the pre-state for every listed DID
	valid := true
	sctx := c.deliverCtx()
	for _, d := range append(append([]string{}, p.ReadonlyDids...), p.ReadwriteDids...) {
		if err := c.App.DidKeeper.ValidDid(sctx, d); err != nil {
			valid = false
		}
	}
	res := c.Deliver(signer, 20000000, msg)
	r.Step(ctx, "UpdatePermission", L(S("UpdatePermission"), S(msg.Creator), S(msg.Provider), S(p.Owner), S(p.DataId), LS(p.ReadonlyDids), LS(p.ReadwriteDids), sg, B(valid)), res.Class)
	return res
}

const nsURL = "6ba7b811-9dad-11d1-80b4-00c04fd430c8"

func faultsV(reporter string, faults []*saotypes.Fault) V {
	out := make(vl, 0)
	for _, f := range faults {
		seed := f.Provider + reporter + f.CommitId + strconv.FormatUint(f.ShardId, 10)
		id := uuid.NewV5(uuid.FromStringOrNil(nsURL), seed).String()
		raw := append([]byte(f.Provider), make([]byte, 8)...)
		binary.BigEndian.PutUint64(raw[len(f.Provider):], f.ShardId)
		raw = append(raw, '/')
		out = append(out, L(S(f.DataId), ZU(f.OrderId), ZU(f.ShardId), S(f.CommitId), S(f.Provider), S(id), S(string(raw))))
	}
	return out
}

func (r *Recorder) ReportFaults(signer *Account, provider string, faults []*saotypes.Fault) TxResult {
	ctx := r.c.CtxV()
	res := r.c.Deliver(signer, 50000000, &saotypes.MsgReportFaults{Creator: signer.Bech(), Provider: provider, Faults: faults})
	r.Step(ctx, "ReportFaults", L(S("ReportFaults"), S(signer.Bech()), S(provider), faultsV(signer.Bech(), faults)), res.Class)
	return res
}

func (r *Recorder) RecoverFaults(signer *Account, provider string, faults []*saotypes.Fault) TxResult {
	ctx := r.c.CtxV()
	res := r.c.Deliver(signer, 50000000, &saotypes.MsgRecoverFaults{Creator: signer.Bech(), Provider: provider, Faults: faults})
	r.Step(ctx, "RecoverFaults", L(S("RecoverFaults"), S(signer.Bech()), S(provider), faultsV(signer.Bech(), faults)), res.Class)
	return res
}
