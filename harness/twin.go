package main

// Twin-replica test (C01, C03): replica A's consensus inputs (genesis bytes, block headers,
// transaction bytes) are recorded with digests of its responses and commit hashes; replica B
// -- a separate process -- replays them under a different schedule: extra non-consensus
// calls (Simulate, CheckTx, queries) between the consensus calls, in-process restarts (a
// new App over the same database plus a reset of the process-level variables, which is
// what a process restart does), small delays. Any difference in a DeliverTx response,
// an EndBlock response or a commit hash is a divergence.

import (
	"bufio"
	"crypto/sha256"
	"encoding/base64"
	"encoding/hex"
	"encoding/json"
	"fmt"
	"math/rand"
	"os"
	"time"

	nodekeeper "github.com/SaoNetwork/sao/x/node/keeper"
	abci "github.com/tendermint/tendermint/abci/types"
	tmproto "github.com/tendermint/tendermint/proto/tendermint/types"
	dbm "github.com/tendermint/tm-db"
)

type StreamEv struct {
	K       string `json:"k"`
	H       int64  `json:"h,omitempty"`
	T       int64  `json:"t,omitempty"`
	AppHash string `json:"apphash,omitempty"`
	Bz      string `json:"bz,omitempty"`
	Digest  string `json:"digest,omitempty"`
	Genesis string `json:"genesis,omitempty"`
	// replica A (the recording run) held a non-zero process-level variable at this point: left by a failed staking
	// transaction or by one of ITS gas simulations, which are not consensus input and so are not in the stream
	Res bool `json:"res,omitempty"`
}

func digestTx(r abci.ResponseDeliverTx) string {
	// the fields every replica must agree on: code, data, gas, events (the log is free text:
	// a recovered panic puts a stack trace with addresses there)
	d := abci.ResponseDeliverTx{Code: r.Code, Data: r.Data, GasWanted: r.GasWanted, GasUsed: r.GasUsed, Events: r.Events, Codespace: r.Codespace}
	bz, _ := d.Marshal()
	h := sha256.Sum256(bz)
	return fmt.Sprintf("%d/%d/%s", r.Code, r.GasUsed, hex.EncodeToString(h[:8]))
}
func digestEnd(r abci.ResponseEndBlock, commit []byte) string {
	bz, _ := r.Marshal()
	h := sha256.Sum256(bz)
	return hex.EncodeToString(h[:8]) + "/" + hex.EncodeToString(commit)
}

func (c *Chain) stream(ev StreamEv) {
	if c.StreamW == nil {
		return
	}
	bz, _ := json.Marshal(ev)
	c.StreamW.Write(bz)
	c.StreamW.WriteByte('\n')
}

type Divergence struct {
	At     string `json:"at"`
	Height int64  `json:"height"`
	Want   string `json:"want"`
	Got    string `json:"got"`
	// what replica B did since the last agreement that replica A did not
	Since []string `json:"since"`
}

type ReplaySummary struct {
	Blocks      int          `json:"blocks"`
	Txs         int          `json:"txs"`
	Simulations int          `json:"simulations"`
	CheckTxs    int          `json:"checktxs"`
	Queries     int          `json:"queries"`
	Restarts    int          `json:"restarts"`
	ResidueSeen int          `json:"residue_seen"` // times the process variable was non-zero at a block boundary or after a simulation
	Divergences []Divergence `json:"divergences"`
}

func replayStream(path string, seed int64, restartEvery int) ReplaySummary {
	rng := rand.New(rand.NewSource(seed))
	f, err := os.Open(path)
	if err != nil {
		panic(err)
	}
	defer f.Close()
	sc := bufio.NewScanner(f)
	sc.Buffer(make([]byte, 1<<20), 1<<28)
	var sum ReplaySummary
	home, _ := os.MkdirTemp("", "saoh")
	defer os.RemoveAll(home)
	db := dbm.NewMemDB()
	a, _ := newApp(db, home)
	var since []string
	var seenTxs [][]byte
	var lastHeader tmproto.Header
	diverged := false
	for sc.Scan() {
		var ev StreamEv
		if err := json.Unmarshal(sc.Bytes(), &ev); err != nil {
			panic(err)
		}
		if ev.Res {
			sum.ResidueSeen++
		}
		switch ev.K {
		case "genesis":
			gb, _ := base64.StdEncoding.DecodeString(ev.Genesis)
			a.InitChain(abci.RequestInitChain{ChainId: ChainID, Validators: []abci.ValidatorUpdate{}, ConsensusParams: simDefaultConsensus(), AppStateBytes: gb, Time: time.Unix(ev.T, 0)})
			a.Commit()
		case "begin":
			// between blocks: restart and non-consensus calls on the committed state
			if !nodekeeper.VerifSharesBeforeModified().IsZero() {
				sum.ResidueSeen++
			}
			if rng.Intn(restartEvery) == 0 {
				a, _ = newApp(db, home)
				nodekeeper.VerifResetProcessGlobals()
				sum.Restarts++
				since = append(since, fmt.Sprintf("restart@%d", ev.H))
			}
			if len(seenTxs) > 0 && rng.Intn(3) == 0 {
				tx := seenTxs[rng.Intn(len(seenTxs))]
				guard(WatchdogLimit, func() { a.BaseApp.Simulate(tx) })
				sum.Simulations++
				since = append(since, fmt.Sprintf("simulate@%d", ev.H))
				if !nodekeeper.VerifSharesBeforeModified().IsZero() {
					sum.ResidueSeen++
					since = append(since, "residue-after-simulate")
				}
			}
			if rng.Intn(3) == 0 {
				a.Query(abci.RequestQuery{Path: "/cosmos.bank.v1beta1.Query/TotalSupply"})
				a.Query(abci.RequestQuery{Path: "/saonetwork.sao.node.Query/NodeAll"})
				sum.Queries++
			}
			if rng.Intn(4) == 0 {
				time.Sleep(time.Duration(rng.Intn(3)) * time.Millisecond)
			}
			if !nodekeeper.VerifSharesBeforeModified().IsZero() {
				sum.ResidueSeen++
			}
			ah, _ := hex.DecodeString(ev.AppHash)
			lastHeader = tmproto.Header{ChainID: ChainID, Height: ev.H, Time: time.Unix(ev.T, 0).UTC(), AppHash: ah}
			if r := guard(WatchdogLimit, func() { a.BeginBlock(abci.RequestBeginBlock{Header: lastHeader}) }); r != "" {
				sum.Divergences = append(sum.Divergences, Divergence{At: "begin", Height: ev.H, Want: "ok", Got: r, Since: since})
				return sum
			}
		case "tx":
			bz, _ := base64.StdEncoding.DecodeString(ev.Bz)
			switch rng.Intn(4) {
			case 0:
				a.CheckTx(abci.RequestCheckTx{Tx: bz, Type: abci.CheckTxType_New})
				sum.CheckTxs++
			case 1:
				// a client estimates gas against this node for the very transaction that is about to be delivered
				guard(WatchdogLimit, func() { a.BaseApp.Simulate(bz) })
				sum.Simulations++
				since = append(since, fmt.Sprintf("simulate-next@%d", lastHeader.Height))
				if !nodekeeper.VerifSharesBeforeModified().IsZero() {
					sum.ResidueSeen++
					since = append(since, "residue-after-simulate")
				}
			}
			var resp abci.ResponseDeliverTx
			r := guard(WatchdogLimit, func() { resp = a.DeliverTx(abci.RequestDeliverTx{Tx: bz}) })
			got := digestTx(resp)
			if r != "" {
				got = r
			}
			sum.Txs++
			if got != ev.Digest && !diverged {
				sum.Divergences = append(sum.Divergences, Divergence{At: "tx", Height: lastHeader.Height, Want: ev.Digest, Got: got, Since: since})
				diverged = true
			}
			seenTxs = append(seenTxs, bz)
			if len(seenTxs) > 64 {
				seenTxs = seenTxs[1:]
			}
		case "end":
			var resp abci.ResponseEndBlock
			var commit abci.ResponseCommit
			r := guard(WatchdogLimit, func() {
				resp = a.EndBlock(abci.RequestEndBlock{Height: ev.H})
				commit = a.Commit()
			})
			got := digestEnd(resp, commit.Data)
			if r != "" {
				got = r
			}
			sum.Blocks++
			if got != ev.Digest {
				if !diverged {
					sum.Divergences = append(sum.Divergences, Divergence{At: "end", Height: ev.H, Want: ev.Digest, Got: got, Since: since})
				}
				return sum // the states differ from here on
			}
			if !diverged {
				since = nil
			}
		}
	}
	return sum
}
