package main

// Super-node / staking histories: nodes with capacity above the threshold declare the
// full service status and delegate to one of two validators; third parties delegate,
// undelegate and redelegate; some delegations fail after the first staking hook; gas
// simulations are served in between; the lower-staked validator leaves the active set.

import (
	"math/rand"

	sdk "github.com/cosmos/cosmos-sdk/types"
)

func runStakingHistory(r *Recorder, rng *rand.Rand, accts []*Account, nOps int) {
	c := r.c
	nodes := accts[0:4]
	others := accts[4:8]
	r.BeginBlock()
	for _, n := range nodes {
		r.NodeCreate(n)
		r.AddVstorage(n, uint64(3000000+1000000*rng.Intn(4)))
	}
	r.EndBlockStaking()
	done := 0
	for done < nOps && c.Halted == "" {
		r.BeginBlock()
		per := 1 + rng.Intn(4)
		for j := 0; j < per && done < nOps; j++ {
			val := c.ValAddrs[rng.Intn(len(c.ValAddrs))]
			var who *Account
			if rng.Intn(3) > 0 {
				who = nodes[rng.Intn(len(nodes))]
			} else {
				who = others[rng.Intn(len(others))]
			}
			amts := []int64{1000, 50000, 111112, 120000, 250000, 10, 999999}
			amt := amts[rng.Intn(len(amts))]
			x := rng.Intn(100)
			switch {
			case x < 30:
				r.Delegate(who, val, amt)
			case x < 38:
				// fails at the bank transfer, after the first hook when a delegation exists
				bal := c.App.BankKeeper.GetBalance(c.deliverCtx(), who.Addr, Denom).Amount.Int64()
				r.Delegate(who, val, bal+1+int64(rng.Intn(1000)))
			case x < 52:
				r.Undelegate(who, val, amt)
			case x < 58:
				// full undelegation
				if d, ok := c.App.StakingKeeper.GetDelegation(c.deliverCtx(), who.Addr, val); ok {
					v, _ := c.App.StakingKeeper.GetValidator(c.deliverCtx(), val)
					r.Undelegate(who, val, v.TokensFromShares(d.Shares).TruncateInt().Int64())
				}
			case x < 64:
				if len(c.ValAddrs) > 1 {
					dst := c.ValAddrs[rng.Intn(len(c.ValAddrs))]
					if !dst.Equals(val) {
						r.Redelegate(who, val, dst, amt)
					}
				}
			case x < 66:
				// a node that holds the super role re-declares itself on ANOTHER validator, with or without
				// a status (a reset without status keeps the stored one)
				for _, n := range nodes {
					nd, found := c.App.NodeKeeper.GetNode(c.deliverCtx(), n.Bech())
					if !found || nd.Role != 1 {
						continue
					}
					for _, ov := range c.ValAddrs {
						if ov.String() != nd.Validator {
							st := []uint32{0, 0, 15}[rng.Intn(3)]
							r.NodeReset(n, "", st, ov.String(), nil)
							break
						}
					}
					break
				}
			case x < 86:
				n := nodes[rng.Intn(len(nodes))]
				statuses := []uint32{15, 15, 13, 0, 47}
				v := ""
				if rng.Intn(2) == 0 {
					v = val.String()
				}
				r.NodeReset(n, "", statuses[rng.Intn(len(statuses))], v, nil)
			case x < 93:
				r.AddVstorage(nodes[rng.Intn(len(nodes))], uint64(1000000*(1+rng.Intn(3))))
			default:
				r.RemoveVstorage(nodes[rng.Intn(len(nodes))], uint64(1000000*(1+rng.Intn(3))))
			}
			done++
		}
		r.EndBlockStaking()
		// non-consensus calls served between blocks: gas simulations of delegations (they run on
		// the check state, which equals the committed state here)
		if rng.Intn(3) == 0 {
			who := accts[rng.Intn(8)]
			val := c.ValAddrs[rng.Intn(len(c.ValAddrs))]
			bal := c.App.BankKeeper.GetBalance(c.deliverCtx(), who.Addr, Denom).Amount.Int64()
			if rng.Intn(2) == 0 {
				r.SimulateDelegate(who, val, bal+5) // a failing simulation
			} else {
				r.SimulateDelegate(who, val, 10)
			}
		}
	}
	_ = sdk.ZeroInt
}
