package main

// DID operations: message construction, the crypto oracles the model takes as inputs
// (computed here with the same libraries the chain uses), delivery and recording.

import (
	"crypto/ecdsa"
	"crypto/sha256"
	"encoding/base64"
	"encoding/hex"
	"fmt"
	"strings"

	saodidparser "github.com/SaoNetwork/sao-did/parser"
	didkeeper "github.com/SaoNetwork/sao/x/did/keeper"
	didtypes "github.com/SaoNetwork/sao/x/did/types"
	"github.com/cosmos/cosmos-sdk/crypto/keys/secp256k1"
	sdk "github.com/cosmos/cosmos-sdk/types"
	ethcrypto "github.com/ethereum/go-ethereum/crypto"
	"github.com/multiformats/go-multibase"
)

// MultibaseKey renders a secp256k1 public key the way sid documents and did:key ids do.
func MultibaseKey(pub []byte) string {
	raw := append([]byte{0xe7, 0x01}, pub...)
	s, err := multibase.Encode(multibase.Base58BTC, raw)
	if err != nil {
		panic(err)
	}
	return s
}

type SignKey struct {
	Priv *secp256k1.PrivKey
	MB   string // multibase rendering of the public key
}

func NewSignKey(seed string) *SignKey {
	p := secp256k1.GenPrivKeyFromSecret([]byte("verif-signkey-" + seed))
	return &SignKey{Priv: p, MB: MultibaseKey(p.PubKey().Bytes())}
}

func (k *SignKey) PubKeys(name string) []*didtypes.PubKey {
	return []*didtypes.PubKey{{Name: name, Value: k.MB}}
}

// CosmosProofSig builds the "tendermint/PubKeySecp256k1.<pk>.<sig>" string over
// GetSignData(addressInSignData, message) signed by acct.
func CosmosProofSig(acct *Account, addressInSignData, message string) string {
	sig, err := acct.Priv.Sign(didkeeper.GetSignData(addressInSignData, message))
	if err != nil {
		panic(err)
	}
	return "tendermint/PubKeySecp256k1." + base64.StdEncoding.EncodeToString(acct.Priv.PubKey().Bytes()) + "." + base64.StdEncoding.EncodeToString(sig)
}

type EthKey struct {
	Priv *ecdsa.PrivateKey
	Addr string // lower-case 0x hex
}

func NewEthKey(seed string) *EthKey {
	h := sha256.Sum256([]byte("verif-eth-" + seed))
	p, err := ethcrypto.ToECDSA(h[:])
	if err != nil {
		panic(err)
	}
	return &EthKey{Priv: p, Addr: strings.ToLower(ethcrypto.PubkeyToAddress(p.PublicKey).Hex())}
}

func ethHash(message string) []byte {
	h := ethcrypto.HashData(ethcrypto.NewKeccakState(), []byte("\u0019Ethereum Signed Message:\n"+fmt.Sprint(len(message))+message))
	return h[:]
}

func EthProofSig(k *EthKey, message string) string {
	sig, err := ethcrypto.Sign(ethHash(message), k.Priv)
	if err != nil {
		panic(err)
	}
	sig[len(sig)-1] += 27
	return "0x" + hex.EncodeToString(sig)
}

// ---- oracles ----

func splitAddr(accId string) string {
	parts := strings.Split(accId, ":")
	if len(parts) >= 3 {
		return parts[2]
	}
	return ""
}

// oracleCosmosSigner: the bech32 address of the public key embedded in the proof's
// signature string, provided the string parses and the signature verifies over
// GetSignData(address part of accId, message); nil otherwise.
func oracleCosmosSigner(accId string, proof *didtypes.BindingProof) (res *string) {
	defer func() {
		if r := recover(); r != nil {
			res = nil
		}
	}()
	parts := strings.Split(proof.Signature, ".")
	if len(parts) < 3 || parts[0] != "tendermint/PubKeySecp256k1" {
		return nil
	}
	pk, err := base64.StdEncoding.DecodeString(parts[1])
	if err != nil {
		return nil
	}
	sig, err := base64.StdEncoding.DecodeString(parts[2])
	if err != nil {
		return nil
	}
	pub := secp256k1.PubKey{Key: pk}
	addr, err := sdk.Bech32ifyAddressBytes("sao", pub.Address())
	if err != nil {
		return nil
	}
	if !pub.VerifySignature(didkeeper.GetSignData(splitAddr(accId), proof.Message), sig) {
		return nil
	}
	return &addr
}

func oracleEthSigner(proof *didtypes.BindingProof) (res *string) {
	defer func() {
		if r := recover(); r != nil {
			res = nil
		}
	}()
	sig, err := hex.DecodeString(proof.Signature[2:])
	if err != nil {
		return nil
	}
	sig[len(sig)-1] -= 27
	pub, err := ethcrypto.SigToPub(ethHash(proof.Message), sig)
	if err != nil {
		return nil
	}
	a := strings.ToLower(ethcrypto.PubkeyToAddress(*pub).Hex())
	return &a
}

func oracleCalcDoc(keys []*didtypes.PubKey, ts uint64) *string {
	s, err := didkeeper.CalculateDocId(keys, ts)
	if err != nil {
		return nil
	}
	return &s
}

func oracleParse(did string) V {
	d, err := saodidparser.Parse(did)
	if err != nil || d == nil {
		return L()
	}
	return L(S(d.Method), S(d.ID))
}

func keysV(keys []*didtypes.PubKey) V {
	out := make(vl, 0)
	for _, k := range keys {
		out = append(out, L(S(k.Name), S(k.Value)))
	}
	return out
}

// handlerNow is the time the did handlers compare timestamps with: the block time
// when the D6 repair is in the tree, the wall clock otherwise (see probeClock).
func (c *Chain) handlerNow() int64 {
	return c.Time.Unix()
}

func (r *Recorder) Binding(signer *Account, msg *didtypes.MsgBinding) TxResult {
	c := r.c
	ctx := c.CtxV()
	now := c.handlerNow()
	res := c.Deliver(signer, 2000000, msg)
	auth := msg.AccountAuth
	op := L(S("Binding"), Z(now), S(msg.Creator), S(msg.AccountId), S(msg.RootDocId), keysV(msg.Keys),
		S(auth.AccountDid), S(auth.AccountEncryptedSeed), S(auth.SidEncryptedAccount),
		S(msg.Proof.Did), ZU(msg.Proof.Timestamp), S(msg.Proof.Message),
		OptS(oracleCosmosSigner(msg.AccountId, msg.Proof)), OptS(oracleEthSigner(msg.Proof)),
		OptS(oracleCalcDoc(msg.Keys, msg.Proof.Timestamp)))
	r.Step(ctx, "Binding", op, res.Class)
	return res
}

func (r *Recorder) Update(signer *Account, msg *didtypes.MsgUpdate) TxResult {
	c := r.c
	ctx := c.CtxV()
	now := c.handlerNow()
	res := c.Deliver(signer, 2000000, msg)
	upd := make(vl, 0)
	for _, a := range msg.UpdateAccountAuth {
		upd = append(upd, L(S(a.AccountDid), S(a.AccountEncryptedSeed), S(a.SidEncryptedAccount)))
	}
	op := L(S("Update"), Z(now), S(msg.Creator), S(msg.Did), S(msg.NewDocId), keysV(msg.Keys), ZU(msg.Timestamp),
		upd, LS(msg.RemoveAccountDid), S(msg.PastSeed), oracleParse(msg.Did), OptS(oracleCalcDoc(msg.Keys, msg.Timestamp)))
	r.Step(ctx, "Update", op, res.Class)
	return res
}

func (r *Recorder) UpdatePaymentAddress(signer *Account, msg *didtypes.MsgUpdatePaymentAddress) TxResult {
	c := r.c
	ctx := c.CtxV()
	res := c.Deliver(signer, 2000000, msg)
	op := L(S("UpdatePaymentAddress"), S(msg.Creator), S(msg.AccountId), S(msg.Did), oracleParse(msg.Did))
	r.Step(ctx, "UpdatePaymentAddress", op, res.Class)
	return res
}
