package main

// Generator of DID histories: mostly-valid binding / rotation / payment-address
// sequences by several accounts, plus a malformed stream (wrong signer, replayed or
// unrelated proof messages, stale timestamps, foreign account DIDs, attempts to drop
// the payment account, ...). Every random choice comes from the one PRNG.

import (
	ethcommon "github.com/ethereum/go-ethereum/common"
	"fmt"
	"math/rand"
	"sort"
	"strings"

	didtypes "github.com/SaoNetwork/sao/x/did/types"
)

type sidIdent struct {
	root     string
	did      string
	key      *SignKey
	ts       uint64
	versions []string
	accDids  []string          // account dids currently believed bound
	accOf    map[string]string // accountDid -> account name ("eth:<i>" for eth keys)
	rot      int
}

type didWorld struct {
	rng   *rand.Rand
	r     *Recorder
	c     *Chain
	accts []*Account
	eths  []*EthKey
	sids  []*sidIdent
	keyDids map[string]string // account name -> did:key
	bound   map[string]bool   // account name / eth addr -> bound
	nAuth int
}

func accountIdOf(a *Account) string { return "cosmos:" + ChainID + ":" + a.Bech() }

func (w *didWorld) pickAcct() *Account { return w.accts[w.rng.Intn(len(w.accts))] }

// pickUnbound prefers an account not yet bound to a DID (85%).
func (w *didWorld) pickUnbound() *Account {
	if w.rng.Intn(100) < 85 {
		for tries := 0; tries < 20; tries++ {
			a := w.pickAcct()
			if !w.bound[a.Name] {
				return a
			}
		}
	}
	return w.pickAcct()
}

func (w *didWorld) freshTs() uint64 {
	// within the freshness window, away from its edge
	return uint64(w.c.handlerNow() - int64(w.rng.Intn(600)))
}
func (w *didWorld) staleTs() uint64 {
	return uint64(w.c.handlerNow() - 960 - int64(w.rng.Intn(5000)))
}

func (w *didWorld) newAccDid() string {
	w.nAuth++
	return fmt.Sprintf("did:key:acc%04d", w.nAuth)
}

// newSid creates (or tries to create) a new sid through Binding by acct.
func (w *didWorld) newSid(acct *Account, mut string) {
	key := NewSignKey(fmt.Sprintf("sid-%d-%d", len(w.sids), w.rng.Int63()))
	ts := w.freshTs()
	if mut == "stale" {
		ts = w.staleTs()
	}
	keys := key.PubKeys("signing")
	root := *oracleCalcDoc(keys, ts)
	did := "did:sid:" + root
	accId := accountIdOf(acct)
	message := "bind " + did
	signerAcct := acct
	signAddr := acct.Bech()
	switch mut {
	case "wrong-signer":
		signerAcct = w.pickAcct()
		for signerAcct == acct {
			signerAcct = w.pickAcct()
		}
	case "wrong-signdata":
		signAddr = w.pickAcct().Bech() + "x"
	case "bad-root":
		root = root[:len(root)-1] + "0"
		did = "did:sid:" + root
	case "did-mismatch":
		did = did + "0"
	case "bad-accid":
		accId = "cosmos:" + ChainID + ":" + acct.Bech() + ":x"
	case "other-chain":
		accId = "cosmos:otherchain:" + acct.Bech()
	}
	sig := CosmosProofSig(signerAcct, signAddr, message)
	if mut == "garbage-sig" {
		sig = "tendermint/PubKeySecp256k1.AAAA"
	}
	if mut == "unrelated-message" {
		// a signature the account once produced over some unrelated text
		message = "Sign in to some other dapp, nonce 42"
		sig = CosmosProofSig(acct, acct.Bech(), message)
	}
	accDid := w.newAccDid()
	msg := &didtypes.MsgBinding{
		Creator: acct.Bech(), AccountId: accId, RootDocId: root, Keys: keys,
		AccountAuth: &didtypes.AccountAuth{AccountDid: accDid, AccountEncryptedSeed: "seed-" + accDid, SidEncryptedAccount: "enc-" + accDid},
		Proof:       &didtypes.BindingProof{Version: 1, Message: message, Signature: sig, Account: accId, Did: did, Timestamp: ts},
	}
	if mut == "keys-changed" {
		msg.Keys = NewSignKey("other").PubKeys("signing")
	}
	res := w.r.Binding(acct, msg)
	if res.Class == "ok" {
		w.bound[acct.Name] = true
		w.sids = append(w.sids, &sidIdent{root: root, did: did, key: key, ts: ts, versions: []string{root},
			accDids: []string{accDid}, accOf: map[string]string{accDid: acct.Name}})
	}
}

// bindMore binds another account (cosmos or eth) to an existing sid.
func (w *didWorld) bindMore(sid *sidIdent, mut string) {
	creatorName := sid.accOf[sid.accDids[0]]
	creator := w.c.Accounts[creatorName]
	if creator == nil || mut == "unbound-creator" {
		creator = w.pickAcct()
	}
	ts := w.freshTs()
	if mut == "stale" {
		ts = w.staleTs()
	}
	accDid := w.newAccDid()
	if mut == "dup-accdid" && len(sid.accDids) > 0 {
		accDid = sid.accDids[w.rng.Intn(len(sid.accDids))]
	}
	var accId, sig, message, who string
	message = "bind " + sid.did
	if (w.rng.Intn(3) == 0 || mut == "eth-case") && len(w.eths) > 0 {
		ek := w.eths[w.rng.Intn(len(w.eths))]
		accId = "eip155:1:" + ek.Addr
		if mut == "eth-case" {
			// the same Ethereum account spelled with its EIP-55 checksum capitals: not the canonical account id
			accId = "eip155:1:" + ethcommon.HexToAddress(ek.Addr).Hex()
		}
		sig = EthProofSig(ek, message)
		if mut == "wrong-signer" {
			sig = EthProofSig(w.eths[(w.rng.Intn(len(w.eths)-1)+1+indexOfEth(w.eths, ek))%len(w.eths)], message)
		}
		if mut == "garbage-sig" {
			sig = "0x12"
		}
		who = "eth:" + ek.Addr
	} else {
		target := w.pickUnbound()
		if mut == "self-join" {
			creator = target // an unbound account submits the binding of itself, with its own valid proof
		}
		accId = accountIdOf(target)
		signer := target
		if mut == "wrong-signer" {
			signer = creator
			if signer == target {
				signer = w.accts[(indexOfAcct(w.accts, target)+1)%len(w.accts)]
			}
		}
		sig = CosmosProofSig(signer, target.Bech(), message)
		if mut == "garbage-sig" {
			sig = "nodots"
		}
		who = target.Name
	}
	msg := &didtypes.MsgBinding{
		Creator: creator.Bech(), AccountId: accId, RootDocId: sid.root, Keys: sid.key.PubKeys("signing"),
		AccountAuth: &didtypes.AccountAuth{AccountDid: accDid, AccountEncryptedSeed: "seed-" + accDid, SidEncryptedAccount: "enc-" + accDid},
		Proof:       &didtypes.BindingProof{Version: 1, Message: message, Signature: sig, Account: accId, Did: sid.did, Timestamp: ts},
	}
	res := w.r.Binding(creator, msg)
	if res.Class == "ok" {
		sid.accDids = append(sid.accDids, accDid)
		sid.accOf[accDid] = who
		w.bound[who] = true
	}
}

func indexOfEth(l []*EthKey, k *EthKey) int {
	for i, e := range l {
		if e == k {
			return i
		}
	}
	return 0
}
func indexOfAcct(l []*Account, k *Account) int {
	for i, e := range l {
		if e == k {
			return i
		}
	}
	return 0
}

// rotate sends an Update: removes a random subset of accounts, keeps the rest.
func (w *didWorld) rotate(sid *sidIdent, mut string) {
	creatorName := sid.accOf[sid.accDids[0]]
	creator := w.c.Accounts[creatorName]
	if creator == nil || mut == "unbound-creator" {
		creator = w.pickAcct()
	}
	sid.rot++
	newKey := NewSignKey(fmt.Sprintf("rot-%s-%d", sid.root[:8], sid.rot))
	ts := w.freshTs()
	if mut == "stale" {
		ts = w.staleTs()
	}
	keys := newKey.PubKeys("signing")
	newDoc := *oracleCalcDoc(keys, ts)
	var remove []string
	var update []*didtypes.AccountAuth
	for i, ad := range sid.accDids {
		drop := i > 0 && w.rng.Intn(2) == 0
		if mut == "drop-payment" && i == 0 {
			drop = true
		}
		if drop {
			remove = append(remove, ad)
		} else {
			update = append(update, &didtypes.AccountAuth{AccountDid: ad, AccountEncryptedSeed: fmt.Sprintf("seed-%s-r%d", ad, sid.rot), SidEncryptedAccount: "enc2-" + ad})
		}
	}
	if len(remove) == 0 && len(update) > 1 && mut != "drop-payment" {
		last := update[len(update)-1]
		update = update[:len(update)-1]
		remove = append(remove, last.AccountDid)
	}
	switch mut {
	case "none-removed":
		remove = nil
	case "unhandled":
		if len(update) > 0 {
			update = update[1:]
			update = append(update, &didtypes.AccountAuth{AccountDid: "did:key:foreign", AccountEncryptedSeed: "x", SidEncryptedAccount: "y"})
		}
	case "foreign-update":
		update = append(update, &didtypes.AccountAuth{AccountDid: "did:key:smuggled", AccountEncryptedSeed: "x", SidEncryptedAccount: "y"})
	case "bad-doc":
		newDoc = newDoc[:len(newDoc)-1] + "0"
	case "old-doc":
		newDoc = sid.versions[w.rng.Intn(len(sid.versions))]
	}
	seed := fmt.Sprintf("pastseed-%s-%d", sid.root[:8], sid.rot)
	if mut == "dup-seed" && sid.rot > 1 {
		seed = fmt.Sprintf("pastseed-%s-%d", sid.root[:8], 1)
	}
	msg := &didtypes.MsgUpdate{Creator: creator.Bech(), Did: sid.did, NewDocId: newDoc, Keys: keys, Timestamp: ts,
		UpdateAccountAuth: update, RemoveAccountDid: remove, PastSeed: seed}
	res := w.r.Update(creator, msg)
	if res.Class == "ok" {
		sid.versions = append(sid.versions, newDoc)
		sid.key = newKey
		var keep []string
		for _, ad := range sid.accDids {
			rm := false
			for _, x := range remove {
				if x == ad {
					rm = true
				}
			}
			if !rm {
				keep = append(keep, ad)
			} else {
				delete(w.bound, sid.accOf[ad])
				delete(sid.accOf, ad)
			}
		}
		sid.accDids = keep
	}
}

// sortedKeyDids: the registered key DIDs in account-name order (map iteration order must not reach the history)
func (w *didWorld) sortedKeyDids() []string {
	names := make([]string, 0, len(w.keyDids))
	for n := range w.keyDids {
		names = append(names, n)
	}
	sort.Strings(names)
	out := make([]string, 0, len(names))
	for _, n := range names {
		out = append(out, w.keyDids[n])
	}
	return out
}

func (w *didWorld) payAddr(mut string) {
	if len(w.sids) > 0 && w.rng.Intn(2) == 0 {
		sid := w.sids[w.rng.Intn(len(w.sids))]
		creator := w.c.Accounts[sid.accOf[sid.accDids[0]]]
		if creator == nil || mut == "unbound-creator" {
			creator = w.pickAcct()
		}
		target := w.pickAcct()
		// prefer an account bound to this sid
		for _, ad := range sid.accDids {
			if a, ok := w.c.Accounts[sid.accOf[ad]]; ok && w.rng.Intn(2) == 0 {
				target = a
			}
		}
		accId := accountIdOf(target)
		if mut == "other-chain" {
			accId = "cosmos:elsewhere:" + target.Bech()
		}
		// an account of another network that is bound to this sid
		for _, ad := range sid.accDids {
			if who := sid.accOf[ad]; strings.HasPrefix(who, "eth:") && w.rng.Intn(3) == 0 {
				accId = "eip155:1:" + who[4:]
			}
		}
		w.r.UpdatePaymentAddress(creator, &didtypes.MsgUpdatePaymentAddress{Creator: creator.Bech(), AccountId: accId, Did: sid.did})
		return
	}
	// key did
	a := w.pickAcct()
	kd, ok := w.keyDids[a.Name]
	if !ok || mut == "second-kid" {
		kd = "did:key:" + NewSignKey(fmt.Sprintf("kd-%s-%d", a.Name, w.rng.Intn(3))).MB
	}
	creator := a
	if mut == "unbound-creator" {
		creator = w.pickAcct()
	}
	did := kd
	if mut == "bad-did" {
		did = "notadid"
	}
	if mut == "did-url" {
		// somebody else's key DID, written as the DID URL found in every JWS header (did#key), by an account without one
		for _, other := range w.sortedKeyDids() {
			if other != kd {
				did = other + "#" + other[len("did:key:"):]
				break
			}
		}
	}
	res := w.r.UpdatePaymentAddress(creator, &didtypes.MsgUpdatePaymentAddress{Creator: creator.Bech(), AccountId: accountIdOf(a), Did: did})
	if res.Class == "ok" {
		w.keyDids[a.Name] = did
	}
}

var didBindMuts = []string{"wrong-signer", "wrong-signdata", "bad-root", "did-mismatch", "bad-accid", "other-chain", "garbage-sig", "unrelated-message", "keys-changed", "stale"}
var didMoreMuts = []string{"wrong-signer", "garbage-sig", "stale", "dup-accdid", "unbound-creator", "eth-case", "eth-case", "self-join", "self-join"}
var didRotMuts = []string{"unbound-creator", "stale", "drop-payment", "none-removed", "unhandled", "foreign-update", "bad-doc", "old-doc", "dup-seed"}
var didPayMuts = []string{"unbound-creator", "other-chain", "second-kid", "bad-did", "did-url", "did-url"}

func pick(rng *rand.Rand, l []string) string { return l[rng.Intn(len(l))] }

// runDidHistory drives nOps DID operations, a few per block.
func runDidHistory(r *Recorder, rng *rand.Rand, accts []*Account, nOps int) {
	w := &didWorld{rng: rng, r: r, c: r.c, accts: accts, keyDids: map[string]string{}, bound: map[string]bool{}}
	for i := 0; i < 12; i++ {
		w.eths = append(w.eths, NewEthKey(fmt.Sprintf("e%d", i)))
	}
	done := 0
	for done < nOps {
		r.BeginBlock()
		perBlock := 1 + rng.Intn(4)
		for j := 0; j < perBlock && done < nOps; j++ {
			malformed := rng.Intn(100) < 25
			x := rng.Intn(100)
			switch {
			case x < 25 || len(w.sids) == 0:
				m := ""
				if malformed {
					m = pick(rng, didBindMuts)
				}
				w.newSid(w.pickUnbound(), m)
			case x < 55:
				m := ""
				if malformed {
					m = pick(rng, didMoreMuts)
				}
				w.bindMore(w.sids[rng.Intn(len(w.sids))], m)
			case x < 80:
				m := ""
				if malformed {
					m = pick(rng, didRotMuts)
				}
				sid := w.sids[rng.Intn(len(w.sids))]
				for tries := 0; tries < 5 && len(sid.accDids) < 2; tries++ {
					sid = w.sids[rng.Intn(len(w.sids))]
				}
				if len(sid.accDids) < 2 && !malformed {
					w.bindMore(sid, "")
				} else {
					w.rotate(sid, m)
				}
			default:
				m := ""
				if malformed {
					m = pick(rng, didPayMuts)
				}
				w.payAddr(m)
			}
			done++
		}
		r.EndBlock()
	}
}
