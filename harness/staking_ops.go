package main

// Staking transactions run on the real staking module. The model does not contain the
// staking module: each transaction is handed to it as the sequence of store writes and
// hook calls the SDK performs (x/staking/keeper/delegation.go: Delegate, Unbond,
// RemoveDelegation), with the resulting share amounts read back from the real keeper.

import (
	nodekeeper "github.com/SaoNetwork/sao/x/node/keeper"
	sdk "github.com/cosmos/cosmos-sdk/types"
	stakingtypes "github.com/cosmos/cosmos-sdk/x/staking/types"
)

type stSnap struct {
	valFound bool
	val      stakingtypes.Validator
	delFound bool
	del      stakingtypes.Delegation
}

func (c *Chain) stSnap(del sdk.AccAddress, val sdk.ValAddress) stSnap {
	ctx := c.deliverCtx()
	var s stSnap
	s.val, s.valFound = c.App.StakingKeeper.GetValidator(ctx, val)
	s.del, s.delFound = c.App.StakingKeeper.GetDelegation(ctx, del, val)
	return s
}

func valV(v stakingtypes.Validator) V {
	return L(decV(v.DelegatorShares), intV(v.Tokens), Z(int64(v.Status)))
}
func delV(d stakingtypes.Delegation) V {
	return L(S(d.DelegatorAddress), S(d.ValidatorAddress), decV(d.Shares))
}

func evDelegate(a *Account, val sdk.ValAddress, amt int64, pre, post stSnap, ok bool, withBal bool) []V {
	var evs []V
	if pre.delFound {
		evs = append(evs, L(S("BeforeShares"), S(a.Bech()), S(val.String())))
	}
	if !ok {
		return append(evs, L(S("Fail")))
	}
	if withBal {
		evs = append(evs, L(S("Bal"), S(a.Bech()), Z(-amt)))
	}
	evs = append(evs, L(S("SetVal"), S(val.String()), valV(post.val)),
		L(S("SetDel"), S(delKey(a.Bech(), val.String())), delV(post.del)),
		L(S("AfterModified"), S(a.Bech()), S(val.String())))
	return evs
}

func evUnbond(a *Account, val sdk.ValAddress, pre, post stSnap) []V {
	evs := []V{L(S("BeforeShares"), S(a.Bech()), S(val.String()))}
	if !post.delFound {
		evs = append(evs, L(S("BeforeRemoved"), S(a.Bech()), S(val.String())), L(S("DelDel"), S(delKey(a.Bech(), val.String()))))
	} else {
		evs = append(evs, L(S("SetDel"), S(delKey(a.Bech(), val.String())), delV(post.del)), L(S("AfterModified"), S(a.Bech()), S(val.String())))
	}
	if post.valFound {
		evs = append(evs, L(S("SetVal"), S(val.String()), valV(post.val)))
	} else {
		evs = append(evs, L(S("DelVal"), S(val.String())), L(S("ValHook"), S(val.String())))
	}
	return evs
}

func (r *Recorder) Delegate(a *Account, val sdk.ValAddress, amt int64) TxResult {
	c := r.c
	ctx := c.CtxV()
	pre := c.stSnap(a.Addr, val)
	res := c.Deliver(a, 3000000, stakingtypes.NewMsgDelegate(a.Addr, val, sdk.NewInt64Coin(Denom, amt)))
	post := c.stSnap(a.Addr, val)
	evs := evDelegate(a, val, amt, pre, post, res.Class == "ok", true)
	r.Step(ctx, "Delegate", L(S("Staking"), vl(evs)), res.Class)
	return res
}

func (r *Recorder) Undelegate(a *Account, val sdk.ValAddress, amt int64) TxResult {
	c := r.c
	ctx := c.CtxV()
	pre := c.stSnap(a.Addr, val)
	res := c.Deliver(a, 3000000, stakingtypes.NewMsgUndelegate(a.Addr, val, sdk.NewInt64Coin(Denom, amt)))
	post := c.stSnap(a.Addr, val)
	var evs []V
	if res.Class == "ok" {
		evs = evUnbond(a, val, pre, post)
	} else {
		evs = []V{L(S("Fail"))} // rejected before any hook (validation of the amount)
	}
	r.Step(ctx, "Undelegate", L(S("Staking"), vl(evs)), res.Class)
	return res
}

func (r *Recorder) Redelegate(a *Account, src, dst sdk.ValAddress, amt int64) TxResult {
	c := r.c
	ctx := c.CtxV()
	preS, preD := c.stSnap(a.Addr, src), c.stSnap(a.Addr, dst)
	res := c.Deliver(a, 4000000, stakingtypes.NewMsgBeginRedelegate(a.Addr, src, dst, sdk.NewInt64Coin(Denom, amt)))
	postS, postD := c.stSnap(a.Addr, src), c.stSnap(a.Addr, dst)
	var evs []V
	if res.Class == "ok" {
		evs = append(evUnbond(a, src, preS, postS), evDelegate(a, dst, amt, preD, postD, true, false)...)
	} else {
		evs = []V{L(S("Fail"))}
	}
	r.Step(ctx, "Redelegate", L(S("Staking"), vl(evs)), res.Class)
	return res
}

// SimulateDelegate serves a gas simulation of a MsgDelegate (a non-consensus call): it
// runs on a branch of the state that is thrown away.
func (r *Recorder) SimulateDelegate(a *Account, val sdk.ValAddress, amt int64) {
	c := r.c
	ctx := c.CtxV()
	pre := c.stSnap(a.Addr, val)
	msg := stakingtypes.NewMsgDelegate(a.Addr, val, sdk.NewInt64Coin(Denom, amt))
	bz := c.signedTxBytes(a, 3000000, msg)
	var simErr error
	guard(WatchdogLimit, func() { _, _, simErr = c.App.BaseApp.Simulate(bz) })
	var evs []V
	if pre.delFound {
		evs = append(evs, L(S("BeforeShares"), S(a.Bech()), S(val.String())))
	}
	if simErr != nil {
		evs = append(evs, L(S("Fail")))
	} else {
		// a successful simulation runs the second hook too, which resets the variable
		evs = append(evs, L(S("ResetPG")))
	}
	r.Step(ctx, "Simulate", L(S("Simulate"), vl(evs)), "ok")
	_ = nodekeeper.VerifSharesBeforeModified
}

// EndBlockStaking ends the block, reporting the validator state changes of the staking
// end-blocker (bonded first, then begin-unbonding, as ApplyAndReturnValidatorSetUpdates does).
func (r *Recorder) EndBlockStaking() string {
	c := r.c
	ctx := c.CtxV()
	before := map[string]stakingtypes.Validator{}
	for _, v := range c.App.StakingKeeper.GetAllValidators(c.deliverCtx()) {
		before[v.OperatorAddress] = v
	}
	out := c.EndBlock()
	var bonded, unbonding []V
	if out == "ok" {
		for _, v := range c.App.StakingKeeper.GetAllValidators(c.deliverCtx()) {
			b, ok := before[v.OperatorAddress]
			if ok && b.Status != v.Status {
				ev := []V{L(S("SetVal"), S(v.OperatorAddress), valV(v)), L(S("ValHook"), S(v.OperatorAddress))}
				if v.Status == stakingtypes.Bonded {
					bonded = append(bonded, ev...)
				} else if v.Status == stakingtypes.Unbonding {
					unbonding = append(unbonding, ev...)
				} else {
					bonded = append(bonded, L(S("SetVal"), S(v.OperatorAddress), valV(v)))
				}
			}
		}
	}
	evs := append(bonded, unbonding...)
	r.Step(ctx, "EndBlock", L(S("EndBlock"), vl(evs)), out)
	return out
}

// SlashValidator applies the staking keeper's Slash to a validator inside the current block, as the evidence and
// slashing modules do from BeginBlock (the harness has no double-sign evidence to feed in): the validator's tokens
// drop below the shares it has issued. Recorded as the validator update the node module's state depends on.
func (r *Recorder) SlashValidator(val sdk.ValAddress, fraction sdk.Dec) {
	c := r.c
	ctx := c.CtxV()
	sctx := c.deliverCtx()
	v, found := c.App.StakingKeeper.GetValidator(sctx, val)
	if !found {
		return
	}
	cons, err := v.GetConsAddr()
	if err != nil {
		panic(err)
	}
	power := v.ConsensusPower(c.App.StakingKeeper.PowerReduction(sctx))
	guard(WatchdogLimit, func() { c.App.StakingKeeper.Slash(sctx, cons, sctx.BlockHeight(), power, fraction) })
	v2, _ := c.App.StakingKeeper.GetValidator(sctx, val)
	evs := []V{L(S("SetVal"), S(v2.OperatorAddress), valV(v2))}
	r.Step(ctx, "Staking", L(S("Staking"), vl(evs)), "ok")
}
