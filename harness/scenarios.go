package main

// Fixed scripted histories (the corpus): minimal replays of the known findings and of
// repaired defects. They run first in every check.

import (
	"fmt"
	"math/rand"
	"time"

	govv1beta1 "github.com/cosmos/cosmos-sdk/x/gov/types/v1beta1"
	paramproposal "github.com/cosmos/cosmos-sdk/x/params/types/proposal"

	didtypes "github.com/SaoNetwork/sao/x/did/types"
	saotypes "github.com/SaoNetwork/sao/x/sao/types"
	sdk "github.com/cosmos/cosmos-sdk/types"
)

type scenarioFn func(r *Recorder, accts []*Account)

// a scenario may adjust the genesis (node parameters, validators) before the chain starts
type scenario struct {
	run     scenarioFn
	genesis func(spec *GenesisSpec)
}

var scenarios = map[string]scenario{
	"d17-unrelated-proof": {run: scenarioD17},
	"d6-binding-edge":     {run: scenarioD6},
	"d10-residue":         {run: scenarioD10, genesis: func(g *GenesisSpec) { g.NodeParams.VstorageThreshold = 5000000 }},
	"d13-debt-from-income": {run: scenarioD13, genesis: func(g *GenesisSpec) { g.NodeParams.BlockReward = sdk.NewInt64Coin(Denom, 0) }},
	"d15-timeout":         {run: scenarioD15},
	"d15-long-timeout":    {run: scenarioD15Long},
	"d15-two-in-flight":   {run: scenarioD15Two},
	"d16-base-prefix":     {run: scenarioD16},
	"d18-genesis":         {run: scenarioD18},
	"d19-block-reward":    {run: scenarioD19, genesis: func(g *GenesisSpec) { g.NodeParams.BlockReward = sdk.NewInt64Coin(Denom, 360000000000000); g.NodeParams.Baseline = sdk.NewInt64Coin(Denom, 1) }},
	"d20-renew-payer":     {run: scenarioD20},
	"d22-force-push-expiry": {run: scenarioD22},
	"d11-terminate-renewed": {run: scenarioD11},
	"d23-renew-during-migration": {run: scenarioD23},
	"d23-expiry-halts":    {run: scenarioD23Halt, genesis: func(g *GenesisSpec) { g.NodeParams.OfflineTriggerHeight = 100000 }},
	"d24-renew-after-revoked-grant": {run: scenarioD24},
	// scripted life cycles that combine steps the random generators rarely line up (no finding attached)
	"flow-debt-claim":     {run: flowDebtClaim, genesis: func(g *GenesisSpec) { g.NodeParams.Baseline = sdk.NewInt64Coin(Denom, 1); g.NodeParams.BlockReward = sdk.NewInt64Coin(Denom, 1000) }},
	"flow-renew2-migrate": {run: flowRenew2Migrate},
	"flow-debt-release":   {run: flowDebtRelease},
	"flow-short-renewal":  {run: flowShortRenewal},
	"flow-renew-migrate-expire": {run: flowRenewMigrateExpire},
	"flow-silent-super":   {run: flowSilentSuper, genesis: func(g *GenesisSpec) { g.NodeParams.VstorageThreshold = 5000000 }},
	"flow-did-self-join":  {run: flowDidSelfJoin},
	"flow-unnamed-rollback": {run: flowUnnamedRollback},
	"flow-renew-many-poor": {run: flowRenewManyPoor},
	"flow-capacity-edge":  {run: flowCapacityEdge},
	"flow-stake-before-pledge": {run: flowStakeBeforePledge, genesis: func(g *GenesisSpec) { g.NodeParams.VstorageThreshold = 5000000 }},
	"flow-slashed-validator": {run: flowSlashedValidator, genesis: func(g *GenesisSpec) { g.NodeParams.VstorageThreshold = 5000000 }},
	"flow-renewed-versions": {run: flowRenewedVersions},
	"flow-late-ready":     {run: flowLateReady},
	"flow-stale-order":    {run: flowStaleOrder},
	"flow-genesis-many":   {run: flowGenesisMany, genesis: func(g *GenesisSpec) {
		for i := 0; i < 110; i++ {
			a := NewAccount(fmt.Sprintf("m%d", i), "s")
			g.Accounts = append(g.Accounts, a)
			g.Balances[a.Name] = 1000000000
		}
	}},
	"flow-sponsor-rollback": {run: flowSponsorRollback},
	"flow-rollover-coincide": {run: flowRolloverCoincide, genesis: func(g *GenesisSpec) { g.NodeParams.OfflineTriggerHeight = 100000 }},
	"flow-fault-not-held": {run: flowFaultNotHeld, genesis: func(g *GenesisSpec) { g.NodeParams.FishmenInfo = g.Accounts[10].Bech() + "," + g.Accounts[12].Bech() }},
	"flow-forged-owner":   {run: flowForgedOwner},
	"flow-timeout-giveup": {run: flowTimeoutGiveup},
	// twin-only scripts (the recorded stream is replayed on a second replica that restarts at every block; the
	// model is not involved): state that changes by a route the handlers do not see
	"twin-gov-params":        {run: twinGovParams, genesis: func(g *GenesisSpec) { g.GovVoting = 20 * time.Second; g.NodeParams.VstorageThreshold = 5000000 }},
	"twin-multimsg-rollback": {run: twinMultiMsgRollback},
	"flow-offline-super":  {run: flowOfflineSuper, genesis: func(g *GenesisSpec) { g.NodeParams.VstorageThreshold = 5000000; g.NodeParams.OfflineTriggerHeight = 30 }},
}

// D17: a signature the victim once produced over an unrelated text is accepted as the
// binding proof for a DID the attacker just created; the victim's account becomes that
// DID's payment address.
func scenarioD17(r *Recorder, accts []*Account) {
	victim, attacker := accts[0], accts[1]
	r.BeginBlock()
	key := NewSignKey("attacker-sid")
	ts := uint64(r.c.handlerNow())
	keys := key.PubKeys("signing")
	root := *oracleCalcDoc(keys, ts)
	did := "did:sid:" + root
	message := "Sign in to some other dapp, nonce 42"
	sig := CosmosProofSig(victim, victim.Bech(), message) // obtained elsewhere, replayed by the attacker
	accId := accountIdOf(victim)
	msg := &didtypes.MsgBinding{Creator: attacker.Bech(), AccountId: accId, RootDocId: root, Keys: keys,
		AccountAuth: &didtypes.AccountAuth{AccountDid: "did:key:attacker-acc", AccountEncryptedSeed: "s", SidEncryptedAccount: "e"},
		Proof:       &didtypes.BindingProof{Version: 1, Message: message, Signature: sig, Account: accId, Did: did, Timestamp: ts}}
	res := r.Binding(attacker, msg)
	r.Note(fmt.Sprintf("d17 binding by attacker with replayed signature: %s code=%d", res.Class, res.Code))
	r.EndBlock()
}

// D6 (repaired): a proof whose timestamp is 2 s inside the freshness window is accepted
// or rejected according to the block time only.
func scenarioD6(r *Recorder, accts []*Account) {
	a := accts[2]
	r.BeginBlock()
	key := NewSignKey("d6-sid")
	ts := uint64(r.c.handlerNow() - 898)
	keys := key.PubKeys("signing")
	root := *oracleCalcDoc(keys, ts)
	did := "did:sid:" + root
	message := "bind " + did
	msg := &didtypes.MsgBinding{Creator: a.Bech(), AccountId: accountIdOf(a), RootDocId: root, Keys: keys,
		AccountAuth: &didtypes.AccountAuth{AccountDid: "did:key:d6acc", AccountEncryptedSeed: "s", SidEncryptedAccount: "e"},
		Proof:       &didtypes.BindingProof{Version: 1, Message: message, Signature: CosmosProofSig(a, a.Bech(), message), Account: accountIdOf(a), Did: did, Timestamp: ts}}
	r.Binding(a, msg)
	r.EndBlock()
}

// ---- shared setup for storage scenarios: gateway accts[0], providers accts[1..3], owners on accts[4..6]
type miniWorld struct {
	r         *Recorder
	gw        *Account
	providers []*Account
	owners    []*owner
	w         *saoWorld
}

func newMiniWorld(r *Recorder, accts []*Account, nProviders int) *miniWorld {
	w := &saoWorld{rng: rand.New(rand.NewSource(7)), r: r, c: r.c, grants: map[string]*owner{}}
	m := &miniWorld{r: r, gw: accts[0], w: w}
	r.BeginBlock()
	r.NodeCreate(m.gw)
	r.NodeReset(m.gw, "", 3, "", nil)
	for i := 0; i < nProviders; i++ {
		p := accts[1+i]
		m.providers = append(m.providers, p)
		r.NodeCreate(p)
		r.NodeReset(p, "", 13, "", nil)
		r.AddVstorage(p, 100000000)
	}
	for i := 0; i < 3; i++ {
		m.owners = append(m.owners, w.mkKeyOwner(accts[4+i], fmt.Sprintf("sc%d", i)))
	}
	w.gateways = []*Account{m.gw}
	w.providers = m.providers
	w.owners = m.owners
	w.gwTx = map[string]*Account{}
	r.EndBlock()
	return m
}

func (m *miniWorld) store(o *owner, dataId, commitId string, op uint32, size uint64, replica int32, duration uint64, timeout int32) TxResult {
	p := m.w.proposal(o, m.gw, dataId, commitId, op, size, replica, duration, timeout)
	return m.r.Store(m.gw, &saotypes.MsgStore{Creator: m.gw.Bech(), Proposal: p, JwsSignature: SignJWS(&p, o.key, o.kid), Provider: m.gw.Bech()})
}

// completeAll: every provider holding a waiting / migrating shard completes it
func (m *miniWorld) completeAll() {
	for _, sh := range m.w.ctxShards() {
		if sh.Status != 0 && sh.Status != 4 {
			continue
		}
		sp := m.w.acctByAddr(sh.Sp)
		var oid uint64 = sh.OrderId
		for _, o := range m.w.ctxOrders() {
			for _, id := range o.Shards {
				if id == sh.Id {
					oid = o.Id
				}
			}
		}
		if sp != nil {
			m.r.Complete(sp, sp.Bech(), oid, goodCid2, sh.Size_)
		}
	}
}

func (m *miniWorld) renew(o *owner, dataId string, duration uint64) TxResult {
	p := saotypes.RenewProposal{Owner: o.did, Duration: duration, Timeout: 10, Data: []string{dataId}}
	return m.r.Renew(m.gw, &saotypes.MsgRenew{Creator: m.gw.Bech(), Proposal: p, JwsSignature: SignJWS(&p, o.key, o.kid), Provider: m.gw.Bech()})
}

const dataA = "aaaaaaaa-data-4000-8000-00000000000a"

// D10: a delegation that fails after the first staking hook leaves the delegator's shares in a
// process-level variable; the next fresh delegation by a third party then promotes a node that
// holds 9.9 % of the validator's shares.
func scenarioD10(r *Recorder, accts []*Account) {
	c := r.c
	val := c.ValAddrs[0]
	op := c.Accounts["val0"]
	n, third := accts[0], accts[1]
	r.BeginBlock()
	r.NodeCreate(n)
	r.AddVstorage(n, 6000000)
	r.Delegate(n, val, 110000) // 110000 of 1110000 shares = 9.9 %
	r.NodeReset(n, "", 15, val.String(), nil)
	r.EndBlockStaking()
	r.BeginBlock()
	bal := c.App.BankKeeper.GetBalance(c.deliverCtx(), op.Addr, Denom).Amount.Int64()
	r.Delegate(op, val, bal+1000) // fails at the bank transfer, after BeforeDelegationSharesModified
	r.EndBlockStaking()
	r.BeginBlock()
	r.Delegate(third, val, 1000)
	r.EndBlockStaking()
	node, _ := c.App.NodeKeeper.GetNode(c.deliverCtx(), n.Bech())
	r.Note(fmt.Sprintf("node role after the third party's delegation: %d", node.Role))
}

// D13: a provider without funds renews (debt recorded), the debt is later repaid out of storage
// income that stays in the market escrow, so the node escrow no longer covers the collateral.
func scenarioD13(r *Recorder, accts []*Account) {
	m := newMiniWorld(r, accts, 1)
	p := m.providers[0]
	o := m.owners[0]
	r.BeginBlock()
	m.store(o, dataA, dataA, 1, 1000000, 1, 3600, 100)
	m.completeAll()
	// the provider empties its account
	bal := r.c.App.BankKeeper.GetBalance(r.c.deliverCtx(), p.Addr, Denom).Amount.Int64()
	r.Send(p, accts[8], bal)
	m.renew(o, dataA, 7200)
	r.EndBlock()
	r.Blocks(600)
	r.BeginBlock()
	r.ClaimReward(p)
	r.EndBlock()
}

// D15: a negative timeout is stored as 2^64-1 and scheduled in the past; a timeout longer than
// the remaining lifetime stops the checks. Both orders stay unresolved.
func scenarioD15(r *Recorder, accts []*Account) {
	m := newMiniWorld(r, accts, 2)
	o := m.owners[0]
	r.BeginBlock()
	m.store(o, dataA, dataA, 1, 1000000, 1, 3600, -1)
	r.EndBlock()
	r.Blocks(3)
}

// D15 (second form): a timeout longer than the order's lifetime. The first check (at
// created+timeout) finds the order older than its duration minus the timeout and returns
// without re-scheduling: the order stays DataReady, its payment in escrow, until its creator cancels.
func scenarioD15Long(r *Recorder, accts []*Account) {
	m := newMiniWorld(r, accts, 2)
	o := m.owners[0]
	r.BeginBlock()
	m.store(o, dataA, dataA, 1, 1000000, 1, 3600, 3000)
	r.EndBlock()
	r.Blocks(3005)
}

// Consequence of D15 (found while proving Inv_one_in_flight): the unresolved order outlives its
// model (the model end blocker deletes the expired model without looking at the order); storing
// the same data id again then opens a second unfinished order for it.
func scenarioD15Two(r *Recorder, accts []*Account) {
	m := newMiniWorld(r, accts, 2)
	o := m.owners[0]
	r.BeginBlock()
	m.store(o, dataA, dataA, 1, 1000000, 1, 3600, 3000)
	r.EndBlock()
	r.Blocks(3610)
	r.BeginBlock()
	for _, p := range m.providers {
		r.NodeReset(p, "", 13, "", nil) // the providers report in again
	}
	m.store(o, dataA, dataA, 1, 1000000, 1, 3600, 100)
	r.EndBlock()
}

// D16: the base version of an update is checked with strings.Contains: a one-character base passes.
func scenarioD16(r *Recorder, accts []*Account) {
	m := newMiniWorld(r, accts, 1)
	o := m.owners[0]
	r.BeginBlock()
	m.store(o, dataA, dataA, 1, 1000000, 1, 3600, 100)
	m.completeAll()
	r.EndBlock()
	r.BeginBlock()
	m.store(o, dataA, "a|bbbbbbbb-comm-4000-8000-00000000000b", 1, 1000000, 1, 3600, 100)
	r.EndBlock()
}

// D18: the round-robin cursor (and the fault / fishing tables) have no genesis field.
func scenarioD18(r *Recorder, accts []*Account) {
	m := newMiniWorld(r, accts, 1)
	r.BeginBlock()
	m.store(m.owners[0], dataA, dataA, 1, 1000000, 1, 3600, 100)
	r.EndBlock()
	r.ExportImport()
}

// D19: BlockReward = 3.6e14 passes Params.Validate; the third minted block exceeds the total
// reward and BeginBlock panics.
func scenarioD19(r *Recorder, accts []*Account) {
	r.BeginBlock()
	r.NodeCreate(accts[0])
	r.AddVstorage(accts[0], 5000000)
	r.EndBlock()
	r.Blocks(5)
}

// D20: after a read-write grantee's update, the owner's renewal is charged to the grantee.
func scenarioD20(r *Recorder, accts []*Account) {
	m := newMiniWorld(r, accts, 1)
	o, g := m.owners[0], m.owners[1]
	r.BeginBlock()
	m.store(o, dataA, dataA, 1, 1000000, 1, 3600, 100)
	m.completeAll()
	p := saotypes.PermissionProposal{Owner: o.did, DataId: dataA, ReadwriteDids: []string{g.did}}
	r.UpdatePermission(m.gw, &saotypes.MsgUpdataPermission{Creator: m.gw.Bech(), Proposal: p, JwsSignature: SignJWS(&p, o.key, o.kid), Provider: m.gw.Bech()})
	r.EndBlock()
	r.BeginBlock()
	m.store(g, dataA, dataA+"|bbbbbbbb-comm-4000-8000-00000000000b", 1, 1000000, 1, 3600, 100)
	m.completeAll()
	r.EndBlock()
	r.BeginBlock()
	m.renew(o, dataA, 3600)
	r.EndBlock()
}

// D23, continued: the double release left the provider's recorded shard collateral and used capacity below what its
// remaining shards hold; when those shards reach the end of their paid term the release in EndBlock subtracts more
// than is recorded.
func scenarioD23Halt(r *Recorder, accts []*Account) {
	scenarioD23(r, accts)
	dump := func() {
		ctx := r.c.deliverCtx()
		for _, sh := range r.c.App.OrderKeeper.GetAllShard(ctx) {
			r.Note(fmt.Sprintf("shard %d order %d status %d sp %s pledge %s", sh.Id, sh.OrderId, sh.Status, sh.Sp[len(sh.Sp)-4:], sh.Pledge))
		}
		for _, pl := range r.c.App.NodeKeeper.GetAllPledge(ctx) {
			r.Note(fmt.Sprintf("pledge %s shardpledged %s used %d", pl.Creator[len(pl.Creator)-4:], pl.TotalShardPledged, pl.UsedStorage))
		}
	}
	dump()
	// more collateral enters the node escrow (any provider's capacity pledge), so the transfer of the release succeeds
	r.BeginBlock()
	r.AddVstorage(accts[1], 5000000000)
	r.EndBlock()
	r.Blocks(3610)
	dump()
}

// D24: the latest version was written by a read-write grantee whose grant was then revoked. The
// owner's renewal is charged and queued on the shards, but recording it in the model fails
// (the renewal order is attributed to the former grantee, who may no longer write) and the
// failure is ignored: terminating the model never refunds the renewal.
func scenarioD24(r *Recorder, accts []*Account) {
	m := newMiniWorld(r, accts, 1)
	o, g := m.owners[0], m.owners[1]
	r.BeginBlock()
	m.store(o, dataA, dataA, 1, 1000000, 1, 3600, 100)
	m.completeAll()
	p := saotypes.PermissionProposal{Owner: o.did, DataId: dataA, ReadwriteDids: []string{g.did}}
	r.UpdatePermission(m.gw, &saotypes.MsgUpdataPermission{Creator: m.gw.Bech(), Proposal: p, JwsSignature: SignJWS(&p, o.key, o.kid), Provider: m.gw.Bech()})
	r.EndBlock()
	r.BeginBlock()
	m.store(g, dataA, dataA+"|bbbbbbbb-comm-4000-8000-00000000000b", 1, 1000000, 1, 3600, 100)
	m.completeAll()
	r.EndBlock()
	r.BeginBlock()
	p2 := saotypes.PermissionProposal{Owner: o.did, DataId: dataA}
	r.UpdatePermission(m.gw, &saotypes.MsgUpdataPermission{Creator: m.gw.Bech(), Proposal: p2, JwsSignature: SignJWS(&p2, o.key, o.kid), Provider: m.gw.Bech()})
	m.renew(o, dataA, 3600)
	r.EndBlock()
	r.BeginBlock()
	t := saotypes.TerminateProposal{Owner: o.did, DataId: dataA}
	r.Terminate(m.gw, &saotypes.MsgTerminate{Creator: m.gw.Bech(), Proposal: t, JwsSignature: SignJWS(&t, o.key, o.kid), Provider: m.gw.Bech()})
	r.EndBlock()
}

// D22: after a force-push the model's expiry entry is at height 0: it outlives its shards.
func scenarioD22(r *Recorder, accts []*Account) {
	m := newMiniWorld(r, accts, 1)
	o := m.owners[0]
	r.BeginBlock()
	m.store(o, dataA, dataA, 1, 1000000, 1, 3600, 100)
	m.completeAll()
	r.EndBlock()
	r.BeginBlock()
	m.store(o, dataA, dataA+"|bbbbbbbb-comm-4000-8000-00000000000b", 2, 1000000, 1, 3600, 100)
	m.completeAll()
	r.EndBlock()
}

// D11: terminating a model whose renewal has not started leaves the renewal's price in the market escrow.
func scenarioD11(r *Recorder, accts []*Account) {
	m := newMiniWorld(r, accts, 1)
	o := m.owners[0]
	r.BeginBlock()
	m.store(o, dataA, dataA, 1, 1000000, 1, 3600, 100)
	m.completeAll()
	m.renew(o, dataA, 3600)
	r.EndBlock()
	r.BeginBlock()
	p := saotypes.TerminateProposal{Owner: o.did, DataId: dataA}
	r.Terminate(m.gw, &saotypes.MsgTerminate{Creator: m.gw.Bech(), Proposal: p, JwsSignature: SignJWS(&p, o.key, o.kid), Provider: m.gw.Bech()})
	r.EndBlock()
}

// D23: a renewal placed while a shard is being migrated copies the migrating shard into the
// renewal order's list; completing the migration then lists the new shard twice in the
// original order, and terminating the model releases its collateral and capacity twice.
func scenarioD23(r *Recorder, accts []*Account) {
	m := newMiniWorld(r, accts, 2)
	o := m.owners[0]
	r.BeginBlock()
	m.store(o, dataA, dataA, 1, 1000000, 1, 3600, 100)
	m.completeAll()
	// a second model on the same providers so that the double release does not underflow
	dataB := "bbbbbbbb-data-4000-8000-00000000000b"
	m.store(o, dataB, dataB, 1, 2000000, 2, 3600, 100)
	m.completeAll()
	r.EndBlock()
	r.BeginBlock()
	// the provider holding model A's shard hands it over
	var holder *Account
	for _, sh := range m.w.ctxShards() {
		if sh.OrderId == 1 && sh.Status == 2 {
			holder = m.w.acctByAddr(sh.Sp)
		}
	}
	if holder != nil {
		r.Migrate(holder, holder.Bech(), []string{dataA})
	}
	m.renew(o, dataA, 3600)
	r.EndBlock()
	r.BeginBlock()
	m.completeAll() // the new provider completes the migration on the renewal order
	r.EndBlock()
	r.BeginBlock()
	p := saotypes.TerminateProposal{Owner: o.did, DataId: dataA}
	r.Terminate(m.gw, &saotypes.MsgTerminate{Creator: m.gw.Bech(), Proposal: p, JwsSignature: SignJWS(&p, o.key, o.kid), Provider: m.gw.Bech()})
	r.EndBlock()
}


// A provider that cannot pay a renewal's collateral top-up goes into debt; it then claims twice in
// consecutive blocks (the first claim nets the debt out of the reward), and finally the model is
// terminated (the release settles what is left of the debt out of the collateral).
func flowDebtClaim(r *Recorder, accts []*Account) {
	m := newMiniWorld(r, accts, 1)
	p := m.providers[0]
	o := m.owners[0]
	r.BeginBlock()
	m.store(o, dataA, dataA, 1, 1000000, 1, 3600, 100)
	m.completeAll()
	bal := r.c.App.BankKeeper.GetBalance(r.c.deliverCtx(), p.Addr, Denom).Amount.Int64()
	r.Send(p, accts[8], bal-100)
	m.renew(o, dataA, 36000)
	r.EndBlock()
	r.BeginBlock()
	r.ClaimReward(p) // one block of reward: less than the debt, which is reduced by exactly that much
	r.EndBlock()
	r.Blocks(5)
	r.BeginBlock()
	r.ClaimReward(p)
	r.EndBlock()
	r.BeginBlock()
	r.ClaimReward(p)
	r.EndBlock()
	r.Blocks(3)
	r.BeginBlock()
	tp := saotypes.TerminateProposal{Owner: o.did, DataId: dataA}
	r.Terminate(m.gw, &saotypes.MsgTerminate{Creator: m.gw.Bech(), Proposal: tp, JwsSignature: SignJWS(&tp, o.key, o.kid), Provider: m.gw.Bech()})
	r.ClaimReward(p)
	r.EndBlock()
}

// Two renewals queued on one shard, then the provider hands the shard over by migration and the new
// provider completes it: every queued renewal order must now list the new shard.
func flowRenew2Migrate(r *Recorder, accts []*Account) {
	m := newMiniWorld(r, accts, 2)
	o := m.owners[0]
	r.BeginBlock()
	m.store(o, dataA, dataA, 1, 1000000, 1, 3600, 100)
	m.completeAll()
	r.EndBlock()
	r.BeginBlock()
	m.renew(o, dataA, 3600)
	r.EndBlock()
	r.BeginBlock()
	m.renew(o, dataA, 4000)
	r.EndBlock()
	r.BeginBlock()
	for _, sh := range m.w.ctxShards() {
		if sp := m.w.acctByAddr(sh.Sp); sp != nil && sh.Status == 2 {
			r.Migrate(sp, sp.Bech(), []string{dataA})
			r.Migrate(sp, sp.Bech(), []string{dataA}) // asked again before the target completed: nothing more may be placed
			break
		}
	}
	r.EndBlock()
	r.BeginBlock()
	for _, sh := range m.w.ctxShards() {
		if sp := m.w.acctByAddr(sh.From); sp != nil && sh.Status == 4 {
			r.Migrate(sp, sp.Bech(), []string{dataA}) // and again in a later block
			break
		}
	}
	m.completeAll()
	r.EndBlock()
	r.Blocks(3)
	// the owner ends the model while both renewals are still queued: everything not yet earned comes back
	r.BeginBlock()
	tp := saotypes.TerminateProposal{Owner: o.did, DataId: dataA}
	r.Terminate(m.gw, &saotypes.MsgTerminate{Creator: m.gw.Bech(), Proposal: tp, JwsSignature: SignJWS(&tp, o.key, o.kid), Provider: m.gw.Bech()})
	for _, p := range m.providers {
		r.ClaimReward(p)
	}
	r.EndBlock()
	r.Blocks(2)
}

// Fault reports about shards the accused does not hold: one that is only assigned (never completed)
// and, after the order's timeout re-assigned it, the timed-out entry of the old provider. Neither may
// be recorded; reports about the providers that completed are (controls).
func flowFaultNotHeld(r *Recorder, accts []*Account) {
	m := newMiniWorld(r, accts, 3)
	o := m.owners[0]
	fishman := accts[9]
	loud := accts[10]  // a node that is not a designated fishman but declares the fishing bit in its own status
	ghost := accts[11] // listed as a fishman in the parameters, but never registered a node
	r.BeginBlock()
	r.NodeCreate(fishman)
	r.NodeCreate(loud)
	r.NodeReset(loud, "", 33, "", nil)
	m.store(o, dataA, dataA, 1, 1000000, 2, 3600, 8)
	r.EndBlock()
	r.BeginBlock()
	// the first assigned provider completes, the second stays silent
	done := ""
	for _, sh := range m.w.ctxShards() {
		if sp := m.w.acctByAddr(sh.Sp); sp != nil && sh.Status == 0 && done == "" {
			r.Complete(sp, sp.Bech(), 1, goodCid2, sh.Size_)
			done = sh.Sp
		}
	}
	r.EndBlock()
	report := func() {
		for _, sh := range m.w.ctxShards() {
			f := &saotypes.Fault{DataId: dataA, OrderId: 1, ShardId: sh.Id, CommitId: "lost", Provider: sh.Sp, Reporter: fishman.Bech()}
			r.ReportFaults(fishman, sh.Sp, []*saotypes.Fault{f})
		}
	}
	r.BeginBlock()
	report()
	r.EndBlock()
	r.Blocks(10) // the silent provider's shard times out and is re-assigned
	r.BeginBlock()
	m.completeAll()
	r.EndBlock()
	r.BeginBlock()
	report()
	for _, sh := range m.w.ctxShards() {
		if sh.Status == 2 { // a valid report by the undesignated node: refused
			f := &saotypes.Fault{DataId: dataA, OrderId: 1, ShardId: sh.Id, CommitId: "lost", Provider: sh.Sp, Reporter: loud.Bech()}
			r.ReportFaults(loud, sh.Sp, []*saotypes.Fault{f})
			g := &saotypes.Fault{DataId: dataA, OrderId: 1, ShardId: sh.Id, CommitId: "gone", Provider: sh.Sp, Reporter: ghost.Bech()}
			r.ReportFaults(ghost, sh.Sp, []*saotypes.Fault{g})
		}
	}
	r.EndBlock()
	// the accused providers declare recovery, the fishman confirms: the confirmation would clear the fault
	// (on the real chain that transaction panics on an empty store key and is rejected)
	r.BeginBlock()
	for _, sh := range m.w.ctxShards() {
		sp := m.w.acctByAddr(sh.Sp)
		if sp == nil || sh.Status != 2 {
			continue
		}
		own := &saotypes.Fault{DataId: dataA, OrderId: 1, ShardId: sh.Id, CommitId: dataA, Provider: sh.Sp, Reporter: sp.Bech()}
		r.RecoverFaults(sp, sh.Sp, []*saotypes.Fault{own})
		lconf := &saotypes.Fault{DataId: dataA, OrderId: 1, ShardId: sh.Id, CommitId: dataA, Provider: sh.Sp, Reporter: loud.Bech()}
		r.RecoverFaults(loud, sh.Sp, []*saotypes.Fault{lconf})
		conf := &saotypes.Fault{DataId: dataA, OrderId: 1, ShardId: sh.Id, CommitId: dataA, Provider: sh.Sp, Reporter: fishman.Bech()}
		r.RecoverFaults(fishman, sh.Sp, []*saotypes.Fault{conf})
	}
	r.EndBlock()
	// with fault records on the books the chain passes the penalty sweep of the node module (every 600 blocks)
	r.Blocks(int(605 - r.c.Height))
}

// Requests that name the real owner in the proposal but carry the header and signature of an unrelated
// did:key: a permission update granting the forger read-write access, then the forger's own update and
// terminate, a renewal and a terminate forged the same way.
func flowForgedOwner(r *Recorder, accts []*Account) {
	m := newMiniWorld(r, accts, 1)
	o, forger := m.owners[0], m.owners[2]
	r.BeginBlock()
	m.store(o, dataA, dataA, 1, 1000000, 1, 3600, 100)
	m.completeAll()
	r.EndBlock()
	r.BeginBlock()
	pp := saotypes.PermissionProposal{Owner: o.did, DataId: dataA, ReadwriteDids: []string{forger.did}}
	r.UpdatePermission(m.gw, &saotypes.MsgUpdataPermission{Creator: m.gw.Bech(), Proposal: pp, JwsSignature: SignJWS(&pp, forger.key, forger.kid), Provider: m.gw.Bech()})
	rp := saotypes.RenewProposal{Owner: o.did, Duration: 3600, Timeout: 10, Data: []string{dataA}}
	r.Renew(m.gw, &saotypes.MsgRenew{Creator: m.gw.Bech(), Proposal: rp, JwsSignature: SignJWS(&rp, forger.key, forger.kid), Provider: m.gw.Bech()})
	// the owner grants read-write access to a grantee; the grantee may update content and terminate, not hand out access
	grantee := m.owners[1]
	gp := saotypes.PermissionProposal{Owner: o.did, DataId: dataA, ReadwriteDids: []string{grantee.did}}
	r.UpdatePermission(m.gw, &saotypes.MsgUpdataPermission{Creator: m.gw.Bech(), Proposal: gp, JwsSignature: SignJWS(&gp, o.key, o.kid), Provider: m.gw.Bech()})
	gp2 := saotypes.PermissionProposal{Owner: grantee.did, DataId: dataA, ReadwriteDids: []string{grantee.did, forger.did}}
	r.UpdatePermission(m.gw, &saotypes.MsgUpdataPermission{Creator: m.gw.Bech(), Proposal: gp2, JwsSignature: SignJWS(&gp2, grantee.key, grantee.kid), Provider: m.gw.Bech()})
	gp3 := saotypes.PermissionProposal{Owner: o.did, DataId: dataA, ReadwriteDids: []string{grantee.did, forger.did}}
	r.UpdatePermission(m.gw, &saotypes.MsgUpdataPermission{Creator: m.gw.Bech(), Proposal: gp3, JwsSignature: SignJWS(&gp3, grantee.key, grantee.kid), Provider: m.gw.Bech()})
	r.UpdatePermission(m.gw, &saotypes.MsgUpdataPermission{Creator: m.gw.Bech(), Proposal: saotypes.PermissionProposal{Owner: o.did, DataId: dataA}, JwsSignature: SignJWS(&saotypes.PermissionProposal{Owner: o.did, DataId: dataA}, o.key, o.kid), Provider: m.gw.Bech()})
	r.EndBlock()
	r.BeginBlock()
	m.store(forger, dataA, dataA+"|bbbbbbbb-comm-4000-8000-00000000000b", 1, 1000000, 1, 3600, 100)
	tp := saotypes.TerminateProposal{Owner: o.did, DataId: dataA}
	r.Terminate(m.gw, &saotypes.MsgTerminate{Creator: m.gw.Bech(), Proposal: tp, JwsSignature: SignJWS(&tp, forger.key, forger.kid), Provider: m.gw.Bech()})
	// the forger's own request, charged to the victim's DID, with the victim's payment address named as provider
	dataF := "ffffffff-data-4000-8000-00000000000f"
	fp := m.w.proposal(forger, m.gw, dataF, dataF, 1, 1000000, 1, 3600, 100)
	fp.PaymentDid = o.did
	r.Store(forger.acct, &saotypes.MsgStore{Creator: forger.acct.Bech(), Proposal: fp, JwsSignature: SignJWS(&fp, forger.key, forger.kid), Provider: o.acct.Bech()})
	r.Store(forger.acct, &saotypes.MsgStore{Creator: forger.acct.Bech(), Proposal: fp, JwsSignature: SignJWS(&fp, forger.key, forger.kid), Provider: m.gw.Bech()})
	// a model created with a read-only grantee: the grantee's own, validly signed update and termination are refused
	dataR := "eeeeeeee-data-4000-8000-00000000000e"
	reader := m.owners[1]
	rpp := m.w.proposal(o, m.gw, dataR, dataR, 1, 1000000, 1, 3600, 100)
	rpp.ReadonlyDids = []string{reader.did}
	r.Store(m.gw, &saotypes.MsgStore{Creator: m.gw.Bech(), Proposal: rpp, JwsSignature: SignJWS(&rpp, o.key, o.kid), Provider: m.gw.Bech()})
	m.completeAll()
	m.store(reader, dataR, dataR+"|eeeeeeee-comm-4000-8000-00000000000e", 1, 1000000, 1, 3600, 100)
	tpr := saotypes.TerminateProposal{Owner: reader.did, DataId: dataR}
	r.Terminate(m.gw, &saotypes.MsgTerminate{Creator: m.gw.Bech(), Proposal: tpr, JwsSignature: SignJWS(&tpr, reader.key, reader.kid), Provider: m.gw.Bech()})
	tp2 := saotypes.TerminateProposal{Owner: forger.did, DataId: dataA}
	r.Terminate(m.gw, &saotypes.MsgTerminate{Creator: m.gw.Bech(), Proposal: tp2, JwsSignature: SignJWS(&tp2, forger.key, forger.kid), Provider: m.gw.Bech()})
	r.EndBlock()
}


// A two-replica order of which one replica is never stored: the silent provider's shard times out and is
// re-assigned twice (each replacement stays silent too), then no provider is left and, once the order is older
// than ten timeouts, the chain gives up on the missing replica: it is dropped and its price refunded.
func flowTimeoutGiveup(r *Recorder, accts []*Account) {
	m := newMiniWorld(r, accts, 3)
	o := m.owners[0]
	r.BeginBlock()
	// a fourth provider (the mini world has three)
	p4 := accts[9]
	r.NodeCreate(p4)
	r.NodeReset(p4, "", 13, "", nil)
	r.AddVstorage(p4, 100000000)
	m.store(o, dataA, dataA, 1, 1000000, 2, 3600, 8)
	r.EndBlock()
	r.BeginBlock()
	// exactly one provider completes; everybody else stays silent for good
	for _, sh := range m.w.ctxShards() {
		if sp := m.w.acctByAddr(sh.Sp); sp != nil && sh.Status == 0 {
			r.Complete(sp, sp.Bech(), 1, goodCid2, sh.Size_)
			break
		}
	}
	r.EndBlock()
	for i := 0; i < 14; i++ {
		r.Blocks(8)
	}
	r.BeginBlock()
	for _, p := range append(m.providers, p4) {
		r.ClaimReward(p)
	}
	r.EndBlock()
}


// A super node goes silent: the offline detection of the end blocker clears its status bits without touching its
// role; the next staking hook on its validator (a third party's delegation) then finds a super node without the
// required status and demotes it. A second node with only part of the status bits, enough capacity and enough
// stake is never promoted by the hooks.
func flowOfflineSuper(r *Recorder, accts []*Account) {
	c := r.c
	val := c.ValAddrs[0]
	n, partial, third := accts[0], accts[1], accts[2]
	r.BeginBlock()
	r.NodeCreate(n)
	r.AddVstorage(n, 6000000)
	r.Delegate(n, val, 200000)
	r.NodeReset(n, "", 15, val.String(), nil)
	r.NodeCreate(partial)
	r.AddVstorage(partial, 6000000)
	r.Delegate(partial, val, 200000)
	r.NodeReset(partial, "", 13, val.String(), nil)
	r.EndBlockStaking()
	r.BeginBlock()
	r.Delegate(third, val, 1000) // a hook while both are as declared
	r.EndBlockStaking()
	r.Blocks(35) // n is silent for longer than the offline trigger
	r.BeginBlock()
	r.Delegate(third, val, 1000)
	r.Undelegate(third, val, 500)
	r.EndBlockStaking()
	r.BeginBlock()
	r.NodeReset(n, "", 15, "", nil) // it reports in again
	r.Delegate(third, val, 1000)
	r.EndBlockStaking()
}

// twin: every parameter of the node module is changed by a governance proposal (which writes the parameter store
// directly, not through the module's setters) while nodes are online, silent, delegating and storing; a replica that
// restarts afterwards must agree with one that does not.
func twinGovParams(r *Recorder, accts []*Account) {
	c := r.c
	val := c.ValAddrs[0]
	op := c.Accounts["val0"]
	m := newMiniWorld(r, accts, 2)
	n := accts[8]
	r.BeginBlock()
	r.NodeCreate(n)
	r.AddVstorage(n, 6000000)
	r.Delegate(n, val, 100000) // 100000 of 1100000 shares: 9.09 %
	r.NodeReset(n, "", 15, val.String(), nil)
	m.store(m.owners[0], dataA, dataA, 1, 1000000, 2, 3600, 100)
	m.completeAll()
	r.EndBlockStaking()
	r.BeginBlock()
	content := paramproposal.NewParameterChangeProposal("node parameters", "tune", []paramproposal.ParamChange{
		paramproposal.NewParamChange("node", "OfflineTriggerHeight", `"12"`),
		paramproposal.NewParamChange("node", "VstorageThreshold", `"4000000"`),
		paramproposal.NewParamChange("node", "ShareThreshold", `"0.050000000000000000"`),
		paramproposal.NewParamChange("node", "PenaltyBase", `"2"`),
		paramproposal.NewParamChange("node", "MaxPenalty", `"20000"`),
		paramproposal.NewParamChange("node", "FishmenInfo", `"` + accts[9].Bech() + `"`),
		paramproposal.NewParamChange("node", "AnnualPercentageYield", `"0.5"`),
		paramproposal.NewParamChange("node", "HalvingPeriod", `"40"`),
		paramproposal.NewParamChange("node", "AdjustmentPeriod", `"11"`),
		paramproposal.NewParamChange("node", "Baseline", `{"denom":"sao","amount":"1"}`),
		paramproposal.NewParamChange("node", "BlockReward", `{"denom":"sao","amount":"1000"}`),
	})
	sub, err := govv1beta1.NewMsgSubmitProposal(content, sdk.NewCoins(sdk.NewInt64Coin(Denom, 1000)), op.Addr)
	if err != nil {
		panic(err)
	}
	res := c.Deliver(op, 20000000, sub)
	r.Note(fmt.Sprintf("submit: %s %s", res.Class, res.Log))
	res = c.Deliver(op, 20000000, govv1beta1.NewMsgVote(op.Addr, 1, govv1beta1.OptionYes))
	r.Note(fmt.Sprintf("vote: %s %s", res.Class, res.Log))
	r.EndBlockStaking()
	r.Blocks(6) // the voting period ends; the gov end blocker writes the parameter store
	np := c.App.NodeKeeper.GetParams(c.deliverCtx())
	r.Note(fmt.Sprintf("after the proposal: OfflineTriggerHeight=%d VstorageThreshold=%d ShareThreshold=%s", np.OfflineTriggerHeight, np.VstorageThreshold, np.ShareThreshold))
	// exercise the code that reads the parameters
	r.BeginBlock()
	third := accts[10]
	r.NodeCreate(third)
	r.AddVstorage(third, 4500000)
	r.Delegate(third, val, 70000)
	r.NodeReset(third, "", 15, val.String(), nil)
	r.NodeReset(n, "", 15, val.String(), nil)
	m.store(m.owners[1], "bbbbbbbb-data-4000-8000-00000000000b", "bbbbbbbb-data-4000-8000-00000000000b", 1, 2000000, 1, 3600, 100)
	m.completeAll()
	r.EndBlockStaking()
	for i := 0; i < 50; i++ { // silent nodes fall offline 12 blocks after their last sign of life; rewards halve, the rate adjusts
		r.BeginBlock()
		if i%10 == 3 {
			r.ClaimReward(m.providers[0])
		}
		if i == 30 {
			r.NodeReset(third, "", 15, val.String(), nil)
		}
		r.EndBlockStaking()
	}
}

// twin: a transaction of two messages -- the first registers a payment address for a key DID, the second (a store
// paid by that address) fails, so both are rolled back -- followed by a different registration of the same DID and
// orders paid through it. Anything either message left outside the store differs between a replica that ran the
// failed transaction and one that restarted since.
func twinMultiMsgRollback(r *Recorder, accts []*Account) {
	c := r.c
	m := newMiniWorld(r, accts, 2)
	w1, w2 := accts[8], accts[9]
	k := PoolKey("owner-late")
	did := "did:key:" + k.MB
	o := &owner{did: did, key: k, kid: did + "#" + k.MB, acct: w1}
	r.BeginBlock()
	r.NodeCreate(w1) // w1 is a gateway too, so it can sign both messages
	bal := c.App.BankKeeper.GetBalance(c.deliverCtx(), w1.Addr, Denom).Amount.Int64()
	r.Send(w1, accts[10], bal-1000)
	r.EndBlock()
	r.BeginBlock()
	p := m.w.proposal(o, w1, dataA, dataA, 1, 1000000, 1, 3600, 100)
	res := c.Deliver(w1, 40000000,
		&didtypes.MsgUpdatePaymentAddress{Creator: w1.Bech(), AccountId: accountIdOf(w1), Did: did},
		&saotypes.MsgStore{Creator: w1.Bech(), Proposal: p, JwsSignature: SignJWS(&p, o.key, o.kid), Provider: w1.Bech()})
	r.Note(fmt.Sprintf("two-message transaction: %s %s", res.Class, res.Log))
	r.EndBlock()
	r.BeginBlock()
	o.acct = w2
	r.UpdatePaymentAddress(w2, &didtypes.MsgUpdatePaymentAddress{Creator: w2.Bech(), AccountId: accountIdOf(w2), Did: did})
	r.EndBlock()
	r.BeginBlock()
	res = m.store(o, dataA, dataA, 1, 1000000, 1, 3600, 100)
	r.Note(fmt.Sprintf("store paid through the second registration: %s %s", res.Class, res.Log))
	m.completeAll()
	r.EndBlock()
	r.BeginBlock()
	m.renew(o, dataA, 7200)
	r.EndBlock()
	r.Blocks(5)
}

// Shards released while their provider still owes collateral: two providers without funds are charged the top-up
// of a longer renewal (the shortfall is recorded as debt); one shard is then handed over by migration, the other
// ends with the owner's termination. Each release pays the collateral net of the debt and clears the record.
func flowDebtRelease(r *Recorder, accts []*Account) {
	m := newMiniWorld(r, accts, 3)
	o := m.owners[0]
	r.BeginBlock()
	m.store(o, dataA, dataA, 1, 1000000, 2, 3600, 100)
	m.completeAll()
	for _, p := range m.providers {
		bal := r.c.App.BankKeeper.GetBalance(r.c.deliverCtx(), p.Addr, Denom).Amount.Int64()
		r.Send(p, accts[8], bal-100)
	}
	m.renew(o, dataA, 36000)
	r.EndBlock()
	r.Blocks(2)
	r.BeginBlock()
	for _, sh := range m.w.ctxShards() {
		if sp := m.w.acctByAddr(sh.Sp); sp != nil && sh.Status == 2 {
			r.Migrate(sp, sp.Bech(), []string{dataA})
			break
		}
	}
	r.EndBlock()
	r.BeginBlock()
	m.completeAll()
	r.EndBlock()
	r.Blocks(2)
	r.BeginBlock()
	tp := saotypes.TerminateProposal{Owner: o.did, DataId: dataA}
	r.Terminate(m.gw, &saotypes.MsgTerminate{Creator: m.gw.Bech(), Proposal: tp, JwsSignature: SignJWS(&tp, o.key, o.kid), Provider: m.gw.Bech()})
	r.EndBlock()
	r.Blocks(2)
}

// A renewed model runs through the end of its first paid period (the shards roll over to the renewal order) and
// through the end of the renewed period (shards, order and model go), with the providers claiming after each. At
// both ends the height is shared with other scheduled work: the timeout check of an unrelated order falls on the
// roll-over height, and on the final expiry height, so the three schedules (order timeouts, shard expiry, data
// expiry) are all due in the same block.
func flowRolloverCoincide(r *Recorder, accts []*Account) {
	m := newMiniWorld(r, accts, 2)
	o := m.owners[0]
	r.BeginBlock()
	m.store(o, dataA, dataA, 1, 1000000, 2, 3600, 100)
	m.completeAll()
	end1 := r.c.Height + 3600 // completed in this block: the first period ends here
	r.EndBlock()
	r.BeginBlock()
	m.renew(o, dataA, 4000)
	r.EndBlock()
	other := func(k int, data string, at int64) {
		// an unrelated order whose timeout check (creation + 100) falls on height at
		r.Blocks(int(at - 100 - r.c.Height))
		r.BeginBlock()
		if res := m.store(m.owners[1], data, data, 1, 500000, 1, 7200, 100); res.Class != "ok" {
			r.Note("unrelated store: " + res.Log)
		}
		r.EndBlock()
		r.BeginBlock()
		m.completeAll()
		r.EndBlock()
	}
	other(0, "bbbbbbbb-data-4000-8000-00000000000b", end1)
	r.Blocks(int(end1 - r.c.Height + 3))
	r.BeginBlock()
	for _, p := range m.providers {
		r.ClaimReward(p)
	}
	r.EndBlock()
	end2 := end1 + 4000
	other(1, "cccccccc-data-4000-8000-00000000000c", end2)
	r.Blocks(int(end2 - r.c.Height + 3))
	r.BeginBlock()
	for _, p := range m.providers {
		r.ClaimReward(p)
	}
	r.EndBlock()
	r.Blocks(3)
}

// Orders paid by a third party (PaymentDid) that end before anything is stored: one cancelled by the sponsor while
// pending, one handed to a provider that stays silent until the chain gives up, and an update of a stored model
// cancelled by the sponsor (the model returns to its committed version). Every refund goes to the sponsor.
func flowSponsorRollback(r *Recorder, accts []*Account) {
	m := newMiniWorld(r, accts, 1)
	o := m.owners[0]
	r.BeginBlock()
	sp := m.w.mkKeyOwner(accts[9], "sponsor")
	r.EndBlock()
	sponsored := func(dataId, commitId string, op uint32, timeout int32) TxResult {
		p := m.w.proposal(o, m.gw, dataId, commitId, op, 1000000, 1, 3600, timeout)
		p.PaymentDid = sp.did
		return r.Store(sp.acct, &saotypes.MsgStore{Creator: sp.acct.Bech(), Proposal: p, JwsSignature: SignJWS(&p, o.key, o.kid), Provider: m.gw.Bech()})
	}
	lastOrder := func() uint64 {
		var id uint64
		for _, x := range m.w.ctxOrders() {
			if x.Id > id {
				id = x.Id
			}
		}
		return id
	}
	r.BeginBlock()
	sponsored(dataA, dataA, 1, 100)
	r.EndBlock()
	r.BeginBlock()
	r.Cancel(sp.acct, m.gw.Bech(), lastOrder()) // the creator names a node it does not act for: refused
	r.Cancel(accts[10], accts[10].Bech(), lastOrder()) // a third party on its own declaration: refused
	r.Cancel(sp.acct, sp.acct.Bech(), lastOrder())
	r.EndBlock()
	// handed to the provider, which never completes: ten timeouts later the order is given up
	dataB := "bbbbbbbb-data-4000-8000-00000000000b"
	r.BeginBlock()
	sponsored(dataB, dataB, 1, 10)
	r.Ready(m.gw, m.gw.Bech(), lastOrder())
	r.EndBlock()
	r.Blocks(125)
	// an update paid by the sponsor, cancelled: back to the committed version
	dataC := "cccccccc-data-4000-8000-00000000000c"
	r.BeginBlock()
	m.store(o, dataC, dataC, 1, 1000000, 1, 3600, 100)
	m.completeAll()
	r.EndBlock()
	r.BeginBlock()
	sponsored(dataC, dataC+"|cccccccc-comm-4000-8000-00000000000d", 1, 100)
	r.EndBlock()
	r.BeginBlock()
	r.Cancel(sp.acct, sp.acct.Bech(), lastOrder())
	r.EndBlock()
	r.Blocks(2)
}

// A renewal that needs less collateral than the shard already holds (shorter than the running period): the shard
// keeps what was taken; at the roll-over into the renewal nothing of it is forgotten, and at the end all of it returns.
func flowShortRenewal(r *Recorder, accts []*Account) {
	m := newMiniWorld(r, accts, 1)
	o := m.owners[0]
	p := m.providers[0]
	r.BeginBlock()
	m.store(o, dataA, dataA, 1, 1000000, 1, 7200, 100)
	m.completeAll()
	end1 := r.c.Height + 7200
	r.EndBlock()
	r.BeginBlock()
	m.renew(o, dataA, 3600)
	r.EndBlock()
	r.Blocks(int(end1 - r.c.Height + 2))
	r.BeginBlock()
	r.ClaimReward(p)
	r.EndBlock()
	r.Blocks(int(end1 + 3600 - r.c.Height + 2))
	r.BeginBlock()
	r.ClaimReward(p)
	r.EndBlock()
}

// An update still waiting for its provider when the owner terminates the model; another owner then creates a model
// under the same data id; the provider finally reports the stale update as stored. It must not touch the new model.
func flowStaleOrder(r *Recorder, accts []*Account) {
	m := newMiniWorld(r, accts, 1)
	o, p2 := m.owners[0], m.owners[1]
	sp := m.providers[0]
	r.BeginBlock()
	m.store(o, dataA, dataA, 1, 1000000, 1, 3600, 100)
	m.completeAll()
	r.EndBlock()
	r.BeginBlock()
	m.store(o, dataA, dataA+"|bbbbbbbb-comm-4000-8000-00000000000b", 1, 1000000, 1, 3600, 100) // order 2 stays waiting
	r.EndBlock()
	r.BeginBlock()
	tp := saotypes.TerminateProposal{Owner: o.did, DataId: dataA}
	r.Terminate(m.gw, &saotypes.MsgTerminate{Creator: m.gw.Bech(), Proposal: tp, JwsSignature: SignJWS(&tp, o.key, o.kid), Provider: m.gw.Bech()})
	r.EndBlock()
	r.BeginBlock()
	m.store(p2, dataA, dataA, 1, 500000, 1, 3601, 100) // the other owner's model under the same data id: order 3
	for _, sh := range m.w.ctxShards() {
		if sh.OrderId == 3 && sh.Status == 0 {
			r.Complete(sp, sp.Bech(), 3, goodCid2, sh.Size_)
		}
	}
	r.EndBlock()
	r.BeginBlock()
	for _, sh := range m.w.ctxShards() {
		if sh.OrderId == 2 && sh.Status == 0 {
			r.Complete(sp, sp.Bech(), 2, goodCid2, sh.Size_)
		}
	}
	r.EndBlock()
	r.Blocks(3)
}

// More than a hundred of everything the storage modules keep lists of (nodes, pledges, payment addresses, models,
// orders, shards, schedule entries, workers), then export and re-initialisation: nothing is cut off at a page size.
func flowGenesisMany(r *Recorder, accts []*Account) {
	c := r.c
	var many []*Account
	for i := 0; i < 110; i++ {
		many = append(many, c.Accounts[fmt.Sprintf("m%d", i)])
	}
	w := &saoWorld{rng: rand.New(rand.NewSource(7)), r: r, c: c, grants: map[string]*owner{}}
	gw := accts[0]
	// the block gas limit of the test chain admits about ten of these transactions per block
	n := 0
	tick := func(k int) {
		n += k
		if n >= 8 {
			r.EndBlock()
			r.BeginBlock()
			n = 0
		}
	}
	r.BeginBlock()
	r.NodeCreate(gw)
	r.NodeReset(gw, "", 3, "", nil)
	for _, a := range many {
		r.NodeCreate(a)
		r.NodeReset(a, "", 13, "", nil)
		r.AddVstorage(a, 3000000)
		tick(3)
	}
	var owners []*owner
	for i := 0; i < 104; i++ {
		owners = append(owners, w.mkKeyOwner(many[i], fmt.Sprintf("many%d", i)))
		tick(1)
	}
	w.gateways = []*Account{gw}
	for i := 0; i < 104; i++ {
		dataId := fmt.Sprintf("%08d-data-4000-8000-00000000000a", i)
		p := w.proposal(owners[i], gw, dataId, dataId, 1, 1000000, 1, 3600, 100)
		r.Store(gw, &saotypes.MsgStore{Creator: gw.Bech(), Proposal: p, JwsSignature: SignJWS(&p, owners[i].key, owners[i].kid), Provider: gw.Bech()})
		tick(2)
		for _, sh := range w.ctxShards() {
			if sh.Status == 0 {
				if sp := w.acctByAddr(sh.Sp); sp != nil {
					r.Complete(sp, sp.Bech(), sh.OrderId, goodCid2, sh.Size_)
					tick(2)
				}
			}
		}
	}
	r.EndBlock()
	r.ExportImport()
	r.BeginBlock()
	for _, a := range many[100:110] {
		r.RemoveVstorage(a, 1000000)
		tick(1)
	}
	r.EndBlock()
	r.Blocks(2)
}

// Versions of a renewed model: created, updated, renewed; an update is then cancelled before anything is stored (the
// model returns to what it was, renewal order included), and a force-push replaces only the latest version.
func flowRenewedVersions(r *Recorder, accts []*Account) {
	m := newMiniWorld(r, accts, 1)
	o := m.owners[0]
	c2 := "bbbbbbbb-comm-4000-8000-00000000000b"
	c3 := "cccccccc-comm-4000-8000-00000000000c"
	cx := "dddddddd-comm-4000-8000-00000000000d"
	lastOrder := func() uint64 {
		var id uint64
		for _, x := range m.w.ctxOrders() {
			if x.Id > id {
				id = x.Id
			}
		}
		return id
	}
	r.BeginBlock()
	m.store(o, dataA, dataA, 1, 1000000, 1, 3600, 100)
	m.completeAll()
	r.EndBlock()
	r.BeginBlock()
	m.store(o, dataA, dataA+"|"+c2, 1, 1000000, 1, 3600, 100)
	m.completeAll()
	r.EndBlock()
	r.BeginBlock()
	m.renew(o, dataA, 4000)
	r.EndBlock()
	r.BeginBlock()
	up := m.w.proposal(o, m.gw, dataA, c2+"|"+cx, 1, 1000000, 1, 3600, 100)
	up.Cid = goodCid2 // other content than the committed version: the rollback must bring the committed content id back
	r.Store(m.gw, &saotypes.MsgStore{Creator: m.gw.Bech(), Proposal: up, JwsSignature: SignJWS(&up, o.key, o.kid), Provider: m.gw.Bech()})
	r.EndBlock()
	r.BeginBlock()
	r.Cancel(m.gw, m.gw.Bech(), lastOrder())
	r.EndBlock()
	r.BeginBlock()
	m.store(o, dataA, c2+"|"+c3, 2, 1000000, 1, 3600, 100)
	m.completeAll()
	r.EndBlock()
	r.BeginBlock()
	m.store(o, dataA, c3+"|"+cx, 1, 1000000, 1, 3600, 100) // the model still takes updates
	m.completeAll()
	r.EndBlock()
	r.Blocks(3)
}

// The two-step store: an account bound to the owner's DID places the order itself (it stays pending), the gateway
// hands it to providers long after the order's timeout span has passed since its creation, and the provider stays
// silent: the order must still be re-examined, given up and refunded.
func flowLateReady(r *Recorder, accts []*Account) {
	m := newMiniWorld(r, accts, 1)
	r.BeginBlock()
	o := m.w.mkSidOwner(accts[9], "late")
	r.EndBlock()
	r.BeginBlock()
	p := m.w.proposal(o, m.gw, dataA, dataA, 1, 1000000, 1, 3600, 10)
	r.Store(o.acct, &saotypes.MsgStore{Creator: o.acct.Bech(), Proposal: p, JwsSignature: SignJWS(&p, o.key, o.kid), Provider: m.gw.Bech()})
	r.EndBlock()
	r.Blocks(25)
	r.BeginBlock()
	for _, x := range m.w.ctxOrders() {
		r.Ready(m.gw, m.gw.Bech(), x.Id)
	}
	r.EndBlock()
	r.Blocks(125)
}

// A model without an alias whose first order never gets stored: cancelled by the gateway, stored again under the same
// data id, given up by the chain after its timeouts, and stored a third time. Each rollback must take the alias entry
// with it, or the data id can never be used again.
func flowUnnamedRollback(r *Recorder, accts []*Account) {
	m := newMiniWorld(r, accts, 1)
	o := m.owners[0]
	unnamed := func(timeout int32) TxResult {
		p := m.w.proposal(o, m.gw, dataA, dataA, 1, 1000000, 1, 3600, timeout)
		p.Alias = ""
		return r.Store(m.gw, &saotypes.MsgStore{Creator: m.gw.Bech(), Proposal: p, JwsSignature: SignJWS(&p, o.key, o.kid), Provider: m.gw.Bech()})
	}
	lastOrder := func() uint64 {
		var id uint64
		for _, x := range m.w.ctxOrders() {
			if x.Id > id {
				id = x.Id
			}
		}
		return id
	}
	r.BeginBlock()
	unnamed(100)
	r.EndBlock()
	r.BeginBlock()
	r.Cancel(m.gw, m.gw.Bech(), lastOrder())
	r.EndBlock()
	r.BeginBlock()
	unnamed(5)
	r.EndBlock()
	r.Blocks(60)
	r.BeginBlock()
	unnamed(100)
	m.completeAll()
	r.EndBlock()
	r.Blocks(2)
}

// One renewal request naming two models that share a provider who can pay the collateral top-up of one but not of
// both: the second top-up is taken from what is left, the shortfall is recorded as debt, and both models can be
// terminated afterwards.
func flowRenewManyPoor(r *Recorder, accts []*Account) {
	m := newMiniWorld(r, accts, 1)
	o := m.owners[0]
	p := m.providers[0]
	dataB := "bbbbbbbb-data-4000-8000-00000000000b"
	r.BeginBlock()
	m.store(o, dataA, dataA, 1, 1000000, 1, 3600, 100)
	m.store(o, dataB, dataB, 1, 1000000, 1, 3600, 100)
	m.completeAll()
	bal := r.c.App.BankKeeper.GetBalance(r.c.deliverCtx(), p.Addr, Denom).Amount.Int64()
	r.Send(p, accts[8], bal-500)
	r.EndBlock()
	r.BeginBlock()
	rp := saotypes.RenewProposal{Owner: o.did, Duration: 7200, Timeout: 10, Data: []string{dataA, dataB}}
	r.Renew(m.gw, &saotypes.MsgRenew{Creator: m.gw.Bech(), Proposal: rp, JwsSignature: SignJWS(&rp, o.key, o.kid), Provider: m.gw.Bech()})
	r.EndBlock()
	r.Blocks(2)
	r.BeginBlock()
	rp2 := saotypes.RenewProposal{Owner: o.did, Duration: 14400, Timeout: 10, Data: []string{dataA}}
	r.Renew(m.gw, &saotypes.MsgRenew{Creator: m.gw.Bech(), Proposal: rp2, JwsSignature: SignJWS(&rp2, o.key, o.kid), Provider: m.gw.Bech()}) // the provider already owes: the debts add up
	r.EndBlock()
	r.BeginBlock()
	for _, d := range []string{dataA, dataB} {
		tp := saotypes.TerminateProposal{Owner: o.did, DataId: d}
		r.Terminate(m.gw, &saotypes.MsgTerminate{Creator: m.gw.Bech(), Proposal: tp, JwsSignature: SignJWS(&tp, o.key, o.kid), Provider: m.gw.Bech()})
	}
	r.EndBlock()
	r.Blocks(2)
}

// The edges of a provider's free capacity: a stored shard of a size that is not a whole number of pledge units, a
// withdrawal just above what is free (refused), one that fits (accepted), a second order that no longer fits while
// other providers have plenty, and a top-up of capacity after rewards have accrued followed by claims.
func flowCapacityEdge(r *Recorder, accts []*Account) {
	w := &saoWorld{rng: rand.New(rand.NewSource(7)), r: r, c: r.c, grants: map[string]*owner{}}
	gw, p, q := accts[0], accts[1], accts[2]
	r.BeginBlock()
	r.NodeCreate(gw)
	r.NodeReset(gw, "", 3, "", nil)
	r.NodeCreate(p)
	r.NodeReset(p, "", 13, "", nil)
	r.AddVstorage(p, 3000000)
	r.NodeCreate(q) // capacity only: does not accept orders
	r.NodeReset(q, "", 5, "", nil)
	r.AddVstorage(q, 50000000)
	o := w.mkKeyOwner(accts[4], "edge")
	w.gateways = []*Account{gw}
	r.EndBlock()
	store := func(data string, size uint64) {
		pr := w.proposal(o, gw, data, data, 1, size, 1, 3600, 100)
		r.Store(gw, &saotypes.MsgStore{Creator: gw.Bech(), Proposal: pr, JwsSignature: SignJWS(&pr, o.key, o.kid), Provider: gw.Bech()})
	}
	completeAll := func() {
		for _, sh := range w.ctxShards() {
			if sh.Status == 0 {
				if sp := w.acctByAddr(sh.Sp); sp != nil {
					r.Complete(sp, sp.Bech(), sh.OrderId, goodCid2, sh.Size_)
				}
			}
		}
	}
	r.BeginBlock()
	store(dataA, 1500000)
	completeAll()
	r.EndBlock()
	r.BeginBlock()
	r.RemoveVstorage(p, 2000000) // 1 500 000 free: refused
	r.RemoveVstorage(p, 1999999)
	r.RemoveVstorage(p, 1000000) // fits
	r.EndBlock()
	r.BeginBlock()
	store("bbbbbbbb-data-4000-8000-00000000000b", 1000000) // 500 000 free: the assigned shard cannot be completed
	completeAll()
	r.EndBlock()
	r.Blocks(20)
	r.BeginBlock()
	r.AddVstorage(p, 2500000) // a top-up with reward pending
	r.AddVstorage(q, 1000000)
	completeAll()
	r.EndBlock()
	r.Blocks(10)
	r.BeginBlock()
	r.ClaimReward(p)
	r.ClaimReward(q)
	r.RemoveVstorage(q, 2500000)
	r.EndBlock()
	r.Blocks(3)
}

// Staking before anything is pledged: delegations are created and changed while the storage pool is empty; later a
// node pledges, declares the full status and delegates just below the required fraction. Nothing of the earlier
// delegations may linger in the process.
func flowStakeBeforePledge(r *Recorder, accts []*Account) {
	c := r.c
	val := c.ValAddrs[0]
	a, e := accts[0], accts[1]
	r.BeginBlock()
	r.Delegate(a, val, 400000)
	r.EndBlockStaking()
	r.BeginBlock()
	r.Delegate(a, val, 100000) // an existing delegation grows
	r.EndBlockStaking()
	r.BeginBlock()
	r.Undelegate(a, val, 50000)
	r.EndBlockStaking()
	r.BeginBlock()
	r.NodeCreate(e)
	r.AddVstorage(e, 6000000)
	r.NodeReset(e, "", 15, val.String(), nil)
	r.Delegate(e, val, 100000) // 100000 of 1550000 shares: 6.5 %
	r.EndBlockStaking()
	r.BeginBlock()
	r.Delegate(accts[2], val, 1000)
	r.EndBlockStaking()
}

// A validator that has been slashed holds fewer tokens than it has issued shares. The super role is decided on
// shares: a node between 10 % of the tokens and 10 % of the shares is not promoted, and loses the role when diluted.
func flowSlashedValidator(r *Recorder, accts []*Account) {
	c := r.c
	val := c.ValAddrs[0]
	n, third := accts[0], accts[1]
	r.BeginBlock()
	r.NodeCreate(n)
	r.AddVstorage(n, 6000000)
	r.Delegate(n, val, 115000) // 115000 of 1115000 shares: 10.3 %
	r.NodeReset(n, "", 15, val.String(), nil)
	r.EndBlockStaking()
	r.BeginBlock()
	r.SlashValidator(val, sdk.NewDecWithPrec(5, 2))
	r.EndBlockStaking()
	r.BeginBlock()
	r.Delegate(third, val, 60000) // dilutes the node to 9.8 % of the shares (10.3 % of the tokens)
	r.EndBlockStaking()
	r.BeginBlock()
	r.NodeReset(n, "", 15, val.String(), nil)
	r.AddVstorage(n, 1000000)
	r.EndBlockStaking()
	r.BeginBlock()
	r.Undelegate(third, val, 1000)
	r.EndBlockStaking()
}

// A stranger tries to join somebody else's sid DID by binding his OWN account to it, with a perfectly valid proof signed
// by himself, submitting the request himself: refused, because once the DID exists a binding must be submitted by an
// account already bound to it. The owner then adds that same account properly, and the new member adds a third.
func flowDidSelfJoin(r *Recorder, accts []*Account) {
	owner, stranger, third := accts[0], accts[1], accts[2]
	key := NewSignKey("selfjoin-sid")
	keys := key.PubKeys("signing")
	r.BeginBlock()
	ts0 := uint64(r.c.handlerNow())
	root0 := *oracleCalcDoc(keys, ts0)
	did := "did:sid:" + root0
	first := &didtypes.MsgBinding{Creator: owner.Bech(), AccountId: accountIdOf(owner), RootDocId: root0, Keys: keys,
		AccountAuth: &didtypes.AccountAuth{AccountDid: "did:key:acc-owner", AccountEncryptedSeed: "s", SidEncryptedAccount: "e"},
		Proof:       &didtypes.BindingProof{Version: 1, Message: "bind " + did, Signature: CosmosProofSig(owner, owner.Bech(), "bind "+did), Account: accountIdOf(owner), Did: did, Timestamp: ts0}}
	r.Binding(owner, first)
	r.EndBlock()
	more := func(creator, target *Account, accDid string) TxResult {
		ts := uint64(r.c.handlerNow())
		return r.Binding(creator, &didtypes.MsgBinding{Creator: creator.Bech(), AccountId: accountIdOf(target), RootDocId: root0, Keys: keys,
			AccountAuth: &didtypes.AccountAuth{AccountDid: accDid, AccountEncryptedSeed: "s-" + accDid, SidEncryptedAccount: "e-" + accDid},
			Proof:       &didtypes.BindingProof{Version: 1, Message: "bind " + did, Signature: CosmosProofSig(target, target.Bech(), "bind "+did), Account: accountIdOf(target), Did: did, Timestamp: ts}})
	}
	r.BeginBlock()
	more(stranger, stranger, "did:key:acc-stranger") // self-join: refused
	more(third, stranger, "did:key:acc-stranger")    // submitted by another unbound account: refused
	r.EndBlock()
	r.BeginBlock()
	more(owner, stranger, "did:key:acc-stranger") // the owner adds the account: accepted
	r.EndBlock()
	r.BeginBlock()
	more(stranger, third, "did:key:acc-third") // the new member adds a third
	r.UpdatePaymentAddress(stranger, &didtypes.MsgUpdatePaymentAddress{Creator: stranger.Bech(), AccountId: accountIdOf(stranger), Did: did})
	r.EndBlock()
}

// A renewed shard is handed over to another provider before its first period ends; the chain then runs across both
// scheduled ends: at the first the shard rolls over to the renewal, at the second it is released -- collateral and
// capacity back, income stopped, order and model gone.
func flowRenewMigrateExpire(r *Recorder, accts []*Account) {
	m := newMiniWorld(r, accts, 2)
	o := m.owners[0]
	r.BeginBlock()
	m.store(o, dataA, dataA, 1, 1000000, 1, 3600, 100)
	m.completeAll()
	end1 := r.c.Height + 3600
	r.EndBlock()
	r.BeginBlock()
	m.renew(o, dataA, 3600)
	r.EndBlock()
	r.BeginBlock()
	for _, sh := range m.w.ctxShards() {
		if sp := m.w.acctByAddr(sh.Sp); sp != nil && sh.Status == 2 {
			r.Migrate(sp, sp.Bech(), []string{dataA})
			break
		}
	}
	r.EndBlock()
	r.BeginBlock()
	m.completeAll()
	r.EndBlock()
	r.Blocks(int(end1 - r.c.Height + 3))
	r.BeginBlock()
	for _, p := range m.providers {
		r.ClaimReward(p)
	}
	r.EndBlock()
	r.Blocks(int(end1 + 3600 - r.c.Height + 6))
	r.BeginBlock()
	for _, p := range m.providers {
		r.ClaimReward(p)
	}
	r.EndBlock()
	r.Blocks(2)
}

// A super node (first pick of every order) that stays silent: its stalled shard must go to the other provider at the
// first timeout check, and an order nobody stores must be given up and refunded after ten timeouts.
func flowSilentSuper(r *Recorder, accts []*Account) {
	c := r.c
	val := c.ValAddrs[0]
	w := &saoWorld{rng: rand.New(rand.NewSource(7)), r: r, c: c, grants: map[string]*owner{}}
	gw, sup, n := accts[0], accts[1], accts[2]
	r.BeginBlock()
	r.NodeCreate(gw)
	r.NodeReset(gw, "", 3, "", nil)
	r.NodeCreate(sup)
	r.AddVstorage(sup, 6000000)
	r.Delegate(sup, val, 200000) // 200000 of 1200000 shares: 16.7 %
	r.NodeReset(sup, "", 15, val.String(), nil)
	r.NodeCreate(n)
	r.NodeReset(n, "", 13, "", nil)
	r.AddVstorage(n, 6000000)
	o := w.mkKeyOwner(accts[4], "silent")
	w.gateways = []*Account{gw}
	r.EndBlockStaking()
	store := func(data string) {
		pr := w.proposal(o, gw, data, data, 1, 1000000, 1, 3600, 5)
		r.Store(gw, &saotypes.MsgStore{Creator: gw.Bech(), Proposal: pr, JwsSignature: SignJWS(&pr, o.key, o.kid), Provider: gw.Bech()})
	}
	r.BeginBlock()
	store(dataA)
	r.EndBlock()
	r.Blocks(7) // the first timeout check hands the shard to the other provider
	r.BeginBlock()
	for _, sh := range w.ctxShards() {
		if sh.Status == 0 && sh.Sp == n.Bech() {
			r.Complete(n, n.Bech(), sh.OrderId, goodCid2, sh.Size_)
		}
	}
	r.EndBlock()
	r.BeginBlock()
	store("bbbbbbbb-data-4000-8000-00000000000b") // nobody stores this one
	r.EndBlock()
	r.Blocks(70)
}
