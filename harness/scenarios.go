package main

// Fixed scripted histories (the corpus): minimal replays of the known findings and of
// repaired defects. They run first in every check.

import (
	"fmt"

	didtypes "github.com/SaoNetwork/sao/x/did/types"
)

type scenarioFn func(r *Recorder, accts []*Account)

var scenarios = map[string]scenarioFn{
	"d17-unrelated-proof": scenarioD17,
	"d6-binding-edge":     scenarioD6,
}

// D17: a signature the victim once produced over an unrelated text is accepted as the
// binding proof for a DID the attacker just created; the victim's account becomes that
// DID's payment address.
func scenarioD17(r *Recorder, accts []*Account) {
	victim, attacker := accts[0], accts[1]
	r.BeginBlock()
	key := NewSignKey("attacker-sid")
	ts := uint64(r.c.handlerNow())
	keys := key.PubKeys("signing")
	root := *oracleCalcDoc(keys, ts)
	did := "did:sid:" + root
	message := "Sign in to some other dapp, nonce 42"
	sig := CosmosProofSig(victim, victim.Bech(), message) // obtained elsewhere, replayed by the attacker
	accId := accountIdOf(victim)
	msg := &didtypes.MsgBinding{Creator: attacker.Bech(), AccountId: accId, RootDocId: root, Keys: keys,
		AccountAuth: &didtypes.AccountAuth{AccountDid: "did:key:attacker-acc", AccountEncryptedSeed: "s", SidEncryptedAccount: "e"},
		Proof:       &didtypes.BindingProof{Version: 1, Message: message, Signature: sig, Account: accId, Did: did, Timestamp: ts}}
	res := r.Binding(attacker, msg)
	r.Note(fmt.Sprintf("d17 binding by attacker with replayed signature: %s code=%d", res.Class, res.Code))
	r.EndBlock()
}

// D6 (repaired): a proof whose timestamp is 2 s inside the freshness window is accepted
// or rejected according to the block time only.
func scenarioD6(r *Recorder, accts []*Account) {
	a := accts[2]
	r.BeginBlock()
	key := NewSignKey("d6-sid")
	ts := uint64(r.c.handlerNow() - 898)
	keys := key.PubKeys("signing")
	root := *oracleCalcDoc(keys, ts)
	did := "did:sid:" + root
	message := "bind " + did
	msg := &didtypes.MsgBinding{Creator: a.Bech(), AccountId: accountIdOf(a), RootDocId: root, Keys: keys,
		AccountAuth: &didtypes.AccountAuth{AccountDid: "did:key:d6acc", AccountEncryptedSeed: "s", SidEncryptedAccount: "e"},
		Proof:       &didtypes.BindingProof{Version: 1, Message: message, Signature: CosmosProofSig(a, a.Bech(), message), Account: accountIdOf(a), Did: did, Timestamp: ts}}
	r.Binding(a, msg)
	r.EndBlock()
}
