package main

// Drives the real SAO application (app.New over an in-memory DB) through the ABCI
// entry points with signed transactions. Nothing here re-implements module logic.

import (
	govtypes "github.com/cosmos/cosmos-sdk/x/gov/types"
	govv1 "github.com/cosmos/cosmos-sdk/x/gov/types/v1"
	nodekeeper "github.com/SaoNetwork/sao/x/node/keeper"
	"bufio"
	"encoding/base64"
	"encoding/hex"
	"encoding/json"
	"fmt"
	"math/rand"
	"os"
	"time"

	"github.com/SaoNetwork/sao/app"
	didtypes "github.com/SaoNetwork/sao/x/did/types"
	nodetypes "github.com/SaoNetwork/sao/x/node/types"
	"github.com/cosmos/cosmos-sdk/crypto/keys/ed25519"
	"github.com/cosmos/cosmos-sdk/crypto/keys/secp256k1"
	cryptocodec "github.com/cosmos/cosmos-sdk/crypto/codec"
	"github.com/cosmos/cosmos-sdk/simapp"
	"github.com/cosmos/cosmos-sdk/simapp/helpers"
	sdk "github.com/cosmos/cosmos-sdk/types"
	authtypes "github.com/cosmos/cosmos-sdk/x/auth/types"
	banktypes "github.com/cosmos/cosmos-sdk/x/bank/types"
	stakingtypes "github.com/cosmos/cosmos-sdk/x/staking/types"
	codectypes "github.com/cosmos/cosmos-sdk/codec/types"
	"github.com/ignite/cli/ignite/pkg/cosmoscmd"
	abci "github.com/tendermint/tendermint/abci/types"
	"github.com/tendermint/tendermint/libs/log"
	tmproto "github.com/tendermint/tendermint/proto/tendermint/types"
	dbm "github.com/tendermint/tm-db"
)

const ChainID = "sao-test"
const Denom = "sao"

type Account struct {
	Name   string
	Priv   *secp256k1.PrivKey
	Addr   sdk.AccAddress
	AccNum uint64
	Seq    uint64
}

func (a *Account) Bech() string { return a.Addr.String() }

type GenesisSpec struct {
	Accounts     []*Account
	Balances     map[string]int64 // by account name
	NodeParams   nodetypes.Params
	BuiltinDids  string
	ValidatorIdx []int // indexes of accounts that are validator operators
	ValSelfBond  int64
	ValBonds     []int64 // optional per-validator self bond (overrides ValSelfBond)
	MaxVals      uint32
	StreamW      *bufio.Writer
	GovVoting    time.Duration // when set: governance deposits in the bond denom and this voting period
}

type Chain struct {
	App      *app.App
	DB       dbm.DB
	Enc      cosmoscmd.EncodingConfig
	Height   int64
	Time     time.Time
	AppHash  []byte // the AppHash injected into the next header (selection seed)
	InBlock  bool
	Accounts map[string]*Account
	rnd      *rand.Rand
	home     string
	Halted   string // non-empty once Begin/EndBlock panicked or hung
	ValAddrs []sdk.ValAddress
	StreamW  *bufio.Writer // when set, consensus inputs and response digests are recorded (twin test)
}

var sdkConfigDone = false

func setupSdkConfig() {
	if sdkConfigDone {
		return
	}
	cfg := sdk.GetConfig()
	cfg.SetBech32PrefixForAccount("sao", "saopub")
	cfg.SetBech32PrefixForValidator("saovaloper", "saovaloperpub")
	cfg.SetBech32PrefixForConsensusNode("saovalcons", "saovalconspub")
	sdkConfigDone = true
}

func NewAccount(name string, seed string) *Account {
	priv := secp256k1.GenPrivKeyFromSecret([]byte("verif-" + seed + "-" + name))
	return &Account{Name: name, Priv: priv, Addr: sdk.AccAddress(priv.PubKey().Address())}
}

func newApp(db dbm.DB, home string) (*app.App, cosmoscmd.EncodingConfig) {
	enc := cosmoscmd.MakeEncodingConfig(app.ModuleBasics)
	a := app.New(log.NewNopLogger(), db, nil, true, map[int64]bool{}, home, 0, enc, simapp.EmptyAppOptions{}).(*app.App)
	return a, enc
}

func DefaultNodeParams() nodetypes.Params {
	p := nodetypes.DefaultParams()
	p.BlockReward = sdk.NewInt64Coin(Denom, 1000000)
	p.Baseline = sdk.NewInt64Coin(Denom, 1000000000)
	return p
}

func NewChain(spec GenesisSpec, startTime time.Time) (*Chain, error) {
	setupSdkConfig()
	home, err := os.MkdirTemp("", "saoh")
	if err != nil {
		return nil, err
	}
	db := dbm.NewMemDB()
	a, enc := newApp(db, home)
	c := &Chain{App: a, DB: db, Enc: enc, Accounts: map[string]*Account{}, rnd: rand.New(rand.NewSource(1)), home: home, Time: startTime}

	gen := app.ModuleBasics.DefaultGenesis(enc.Marshaler)

	// auth + bank
	var genAccs []authtypes.GenesisAccount
	var bals []banktypes.Balance
	total := sdk.NewCoins()
	for i, acc := range spec.Accounts {
		acc.AccNum = uint64(i)
		acc.Seq = 0
		c.Accounts[acc.Name] = acc
		genAccs = append(genAccs, authtypes.NewBaseAccount(acc.Addr, acc.Priv.PubKey(), uint64(i), 0))
		amt := spec.Balances[acc.Name]
		if amt > 0 {
			coins := sdk.NewCoins(sdk.NewInt64Coin(Denom, amt))
			bals = append(bals, banktypes.Balance{Address: acc.Bech(), Coins: coins})
			total = total.Add(coins...)
		}
	}
	authGen := authtypes.NewGenesisState(authtypes.DefaultParams(), genAccs)
	gen[authtypes.ModuleName] = enc.Marshaler.MustMarshalJSON(authGen)

	// staking: bonded validators with a self delegation
	stParams := stakingtypes.DefaultParams()
	stParams.BondDenom = Denom
	if spec.MaxVals > 0 {
		stParams.MaxValidators = spec.MaxVals
	}
	var vals []stakingtypes.Validator
	var dels []stakingtypes.Delegation
	bondedTotal := int64(0)
	for k, idx := range spec.ValidatorIdx {
		op := spec.Accounts[idx]
		consPriv := ed25519.GenPrivKeyFromSecret([]byte(fmt.Sprintf("verif-cons-%d", k)))
		pkAny, err := codectypes.NewAnyWithValue(consPriv.PubKey())
		if err != nil {
			return nil, err
		}
		valAddr := sdk.ValAddress(op.Addr)
		c.ValAddrs = append(c.ValAddrs, valAddr)
		sb := spec.ValSelfBond
		if k < len(spec.ValBonds) {
			sb = spec.ValBonds[k]
		}
		bond := sdk.NewInt(sb)
		v := stakingtypes.Validator{
			OperatorAddress:   valAddr.String(),
			ConsensusPubkey:   pkAny,
			Jailed:            false,
			Status:            stakingtypes.Bonded,
			Tokens:            bond,
			DelegatorShares:   sdk.NewDecFromInt(bond),
			Description:       stakingtypes.Description{Moniker: op.Name},
			UnbondingHeight:   0,
			UnbondingTime:     time.Unix(0, 0).UTC(),
			Commission:        stakingtypes.NewCommission(sdk.ZeroDec(), sdk.ZeroDec(), sdk.ZeroDec()),
			MinSelfDelegation: sdk.ZeroInt(),
		}
		vals = append(vals, v)
		dels = append(dels, stakingtypes.NewDelegation(op.Addr, valAddr, sdk.NewDecFromInt(bond)))
		bondedTotal += sb
	}
	stGen := stakingtypes.NewGenesisState(stParams, vals, dels)
	gen[stakingtypes.ModuleName] = enc.Marshaler.MustMarshalJSON(stGen)
	if bondedTotal > 0 {
		coins := sdk.NewCoins(sdk.NewInt64Coin(Denom, bondedTotal))
		bals = append(bals, banktypes.Balance{Address: authtypes.NewModuleAddress(stakingtypes.BondedPoolName).String(), Coins: coins})
		total = total.Add(coins...)
	}
	bankGen := banktypes.NewGenesisState(banktypes.DefaultGenesisState().Params, bals, total, []banktypes.Metadata{})
	gen[banktypes.ModuleName] = enc.Marshaler.MustMarshalJSON(bankGen)

	// node genesis: every pool coin in the bond denom
	ng := nodetypes.DefaultGenesis()
	pool := nodetypes.Pool{
		TotalPledged:       sdk.NewInt64Coin(Denom, 0),
		TotalReward:        sdk.NewInt64Coin(Denom, 0),
		AccRewardPerByte:   sdk.NewInt64DecCoin(Denom, 0),
		AccPledgePerByte:   sdk.NewInt64DecCoin(Denom, 0),
		RewardPerBlock:     sdk.NewInt64DecCoin(Denom, 0),
		NextRewardPerBlock: sdk.NewInt64DecCoin(Denom, 0),
	}
	ng.Pool = &pool
	ng.Params = spec.NodeParams
	gen[nodetypes.ModuleName] = enc.Marshaler.MustMarshalJSON(ng)

	dg := didtypes.DefaultGenesis()
	if spec.BuiltinDids != "" {
		dg.Params.BuiltinDid = spec.BuiltinDids
	}
	gen[didtypes.ModuleName] = enc.Marshaler.MustMarshalJSON(dg)

	if spec.GovVoting > 0 {
		gg := govv1.DefaultGenesisState()
		gg.DepositParams.MinDeposit = sdk.NewCoins(sdk.NewInt64Coin(Denom, 1000))
		gg.VotingParams.VotingPeriod = &spec.GovVoting
		gen[govtypes.ModuleName] = enc.Marshaler.MustMarshalJSON(gg)
	}

	stateBytes, err := json.Marshal(gen)
	if err != nil {
		return nil, err
	}
	c.StreamW = spec.StreamW
	c.stream(StreamEv{K: "genesis", T: startTime.Unix(), Genesis: base64.StdEncoding.EncodeToString(stateBytes)})
	a.InitChain(abci.RequestInitChain{
		ChainId:         ChainID,
		Validators:      []abci.ValidatorUpdate{},
		ConsensusParams: simapp.DefaultConsensusParams,
		AppStateBytes:   stateBytes,
		Time:            startTime,
	})
	a.Commit()
	c.Height = 2
	return c, nil
}

func (c *Chain) Close() {
	if c.home != "" {
		os.RemoveAll(c.home)
	}
}

// guard runs f under a panic recover and a watchdog. Returns "", "panic: ..." or "hang".
func guard(limit time.Duration, f func()) (res string) {
	done := make(chan string, 1)
	go func() {
		defer func() {
			if r := recover(); r != nil {
				done <- fmt.Sprintf("panic: %v", r)
			}
		}()
		f()
		done <- ""
	}()
	select {
	case r := <-done:
		return r
	case <-time.After(limit):
		return "hang"
	}
}

var WatchdogLimit = 20 * time.Second

func (c *Chain) header() tmproto.Header {
	return tmproto.Header{ChainID: ChainID, Height: c.Height, Time: c.Time, AppHash: c.AppHash}
}

// BeginBlock starts block c.Height. Returns the outcome class: ok | halted | hung.
func (c *Chain) BeginBlock() string {
	if c.Halted != "" {
		return c.Halted
	}
	c.stream(StreamEv{K: "begin", H: c.Height, T: c.Time.Unix(), AppHash: hex.EncodeToString(c.AppHash), Res: !nodekeeper.VerifSharesBeforeModified().IsZero()})
	r := guard(WatchdogLimit, func() {
		c.App.BeginBlock(abci.RequestBeginBlock{Header: c.header()})
	})
	c.InBlock = true
	return c.classify(r)
}

func (c *Chain) classify(r string) string {
	switch {
	case r == "":
		return "ok"
	case r == "hang":
		c.Halted = "hung"
		return "hung"
	default:
		c.Halted = "halted:" + r
		return "halted"
	}
}

// EndBlock ends and commits the block.
func (c *Chain) EndBlock() string {
	if c.Halted != "" {
		return c.Halted
	}
	var endResp abci.ResponseEndBlock
	r := guard(WatchdogLimit, func() {
		endResp = c.App.EndBlock(abci.RequestEndBlock{Height: c.Height})
	})
	out := c.classify(r)
	if out != "ok" {
		return out
	}
	commit := c.App.Commit()
	c.stream(StreamEv{K: "end", H: c.Height, Digest: digestEnd(endResp, commit.Data)})
	c.InBlock = false
	c.Height++
	c.Time = c.Time.Add(5 * time.Second)
	return "ok"
}

type TxResult struct {
	Class string // ok | rejected | hang
	Code  uint32
	Log   string
	Data  []byte
	Raw   abci.ResponseDeliverTx
}

// Deliver signs msgs with signer and delivers the transaction inside the current block.
func (c *Chain) Deliver(signer *Account, gas uint64, msgs ...sdk.Msg) TxResult {
	if c.Halted != "" {
		return TxResult{Class: "hang", Log: c.Halted}
	}
	if !c.InBlock {
		panic("harness bug: DeliverTx outside a block")
	}
	tx, err := helpers.GenSignedMockTx(c.rnd, c.Enc.TxConfig, msgs, sdk.NewCoins(), gas, ChainID,
		[]uint64{signer.AccNum}, []uint64{signer.Seq}, signer.Priv)
	if err != nil {
		return TxResult{Class: "rejected", Log: "sign: " + err.Error()}
	}
	bz, err := c.Enc.TxConfig.TxEncoder()(tx)
	if err != nil {
		return TxResult{Class: "rejected", Log: "encode: " + err.Error()}
	}
	var resp abci.ResponseDeliverTx
	resBefore := !nodekeeper.VerifSharesBeforeModified().IsZero()
	r := guard(WatchdogLimit, func() {
		resp = c.App.DeliverTx(abci.RequestDeliverTx{Tx: bz})
	})
	if r == "" {
		c.stream(StreamEv{K: "tx", Bz: base64.StdEncoding.EncodeToString(bz), Digest: digestTx(resp), Res: resBefore})
	}
	if r == "hang" {
		c.Halted = "hung"
		return TxResult{Class: "hang"}
	}
	if r != "" {
		// a panic that escaped baseapp's recover: treat as halt
		c.Halted = "halted:" + r
		return TxResult{Class: "hang", Log: r}
	}
	// the ante handler increments the sequence when signature verification passes,
	// whether or not the message handler fails afterwards
	if resp.Code == 0 || (resp.Codespace != "sdk") || resp.Code == 11 /* out of gas in msg */ {
		signer.Seq++
	} else {
		// re-read from the committed+deliver state to stay in sync
		signer.Seq = c.seqOf(signer)
	}
	cls := "ok"
	if resp.Code != 0 {
		cls = "rejected"
	}
	return TxResult{Class: cls, Code: resp.Code, Log: resp.Log, Data: resp.Data, Raw: resp}
}

func (c *Chain) deliverCtx() sdk.Context {
	// a context over the deliver state (uncommitted, inside the block) or the last
	// committed state when between blocks
	if c.InBlock {
		return c.App.BaseApp.NewContext(false, c.header())
	}
	return c.App.BaseApp.NewContext(true, c.header())
}

func (c *Chain) seqOf(a *Account) uint64 {
	ctx := c.deliverCtx()
	acc := c.App.AccountKeeper.GetAccount(ctx, a.Addr)
	if acc == nil {
		return 0
	}
	return acc.GetSequence()
}

// RefreshAccount reads account number and sequence of an account created after genesis.
func (c *Chain) RefreshAccount(a *Account) {
	ctx := c.deliverCtx()
	acc := c.App.AccountKeeper.GetAccount(ctx, a.Addr)
	if acc != nil {
		a.AccNum = acc.GetAccountNumber()
		a.Seq = acc.GetSequence()
	}
}

func init() {
	_ = cryptocodec.RegisterInterfaces
}

// signedTxBytes builds the bytes of a signed tx without delivering it (for Simulate / CheckTx).
func (c *Chain) signedTxBytes(signer *Account, gas uint64, msgs ...sdk.Msg) []byte {
	tx, err := helpers.GenSignedMockTx(c.rnd, c.Enc.TxConfig, msgs, sdk.NewCoins(), gas, ChainID,
		[]uint64{signer.AccNum}, []uint64{signer.Seq}, signer.Priv)
	if err != nil {
		panic(err)
	}
	bz, err := c.Enc.TxConfig.TxEncoder()(tx)
	if err != nil {
		panic(err)
	}
	return bz
}

func simDefaultConsensus() *abci.ConsensusParams { return simapp.DefaultConsensusParams }
