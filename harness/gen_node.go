package main

// Node-accounting histories: registration, status resets, capacity pledges near the
// rounding boundaries of the per-byte price, withdrawals, claims, block rewards under
// varied parameter sets, offline detection.

import (
	"math/rand"

	nodetypes "github.com/SaoNetwork/sao/x/node/types"
	sdk "github.com/cosmos/cosmos-sdk/types"
)

func randomNodeParams(rng *rand.Rand) nodetypes.Params {
	p := nodetypes.DefaultParams()
	rewards := []int64{0, 1, 7, 1000, 1000000, 123456789, 1000000000000}
	baselines := []int64{1, 1000, 1000000000, 5000000000000}
	p.BlockReward = sdk.NewInt64Coin(Denom, rewards[rng.Intn(len(rewards))])
	p.Baseline = sdk.NewInt64Coin(Denom, baselines[rng.Intn(len(baselines))])
	apys := []string{"0.500000000000000000", "0.050000000000000000", "1.000000000000000000", "0.333333333333333333"}
	p.AnnualPercentageYield = apys[rng.Intn(len(apys))]
	halv := []int64{32000000, 1000, 11, 200000}
	p.HalvingPeriod = halv[rng.Intn(len(halv))]
	adj := []int64{2000, 11, 50, 7 * 3}
	p.AdjustmentPeriod = adj[rng.Intn(len(adj))]
	vth := []int64{10 << 30, 5000000, 3000000}
	p.VstorageThreshold = vth[rng.Intn(len(vth))]
	off := []int64{1800, 20, 11}
	p.OfflineTriggerHeight = off[rng.Intn(len(off))]
	if rng.Intn(3) == 0 {
		// fast-halving parameter sets: several halving ages are crossed within a few dozen blocks,
		// below the baseline, with the APY formula near the age-dependent cap
		big := []int64{10000000000000, 40000000000000, 150000000000000}
		p.BlockReward = sdk.NewInt64Coin(Denom, big[rng.Intn(len(big))])
		p.Baseline = sdk.NewInt64Coin(Denom, []int64{1000000000000000, 1}[rng.Intn(2)])
		p.AnnualPercentageYield = []string{"48.000000000000000000", "500.000000000000000000", "3.000000000000000000"}[rng.Intn(3)]
		p.HalvingPeriod = []int64{12, 100, 11}[rng.Intn(3)]
	}
	return p
}

func runNodeHistory(r *Recorder, rng *rand.Rand, accts []*Account, nOps int) {
	c := r.c
	done := 0
	created := map[string]bool{}
	sizes := []uint64{1, 999999, 1000000, 1000001, 2500000, 5000000, 5000001, 12345678, 0, 1 << 63, 3000000, 7999999}
	if c.App.NodeKeeper.GetParams(c.deliverCtx()).BlockReward.Amount.Int64() >= 10000000000000 {
		sizes = append(sizes, 1000000000000000000, 100000000000000000, 1000000000000000000)
	}
	for done < nOps && c.Halted == "" {
		r.BeginBlock()
		per := 1 + rng.Intn(5)
		for j := 0; j < per && done < nOps && c.Halted == ""; j++ {
			a := accts[rng.Intn(len(accts))]
			x := rng.Intn(100)
			switch {
			case !created[a.Name] && x < 70:
				if r.NodeCreate(a).Class == "ok" {
					created[a.Name] = true
				}
			case x < 10:
				r.NodeCreate(a)
			case x < 30:
				statuses := []uint32{13, 15, 0, 1, 47, 12}
				peer := ""
				switch rng.Intn(4) {
				case 0:
					peer = "/ip4/127.0.0.1/tcp/5153"
				case 1:
					peer = "notamultiaddr"
				}
				val := ""
				switch rng.Intn(5) {
				case 0:
					val = c.ValAddrs[0].String()
				case 1:
					val = "saovaloper1notavalidator"
				}
				var tx []string
				if rng.Intn(3) == 0 {
					tx = []string{accts[rng.Intn(len(accts))].Bech()}
				}
				r.NodeReset(a, peer, statuses[rng.Intn(len(statuses))], val, tx)
			case x < 60:
				r.AddVstorage(a, sizes[rng.Intn(len(sizes))])
			case x < 78:
				r.RemoveVstorage(a, sizes[rng.Intn(len(sizes))])
			case x < 95:
				r.ClaimReward(a)
			default:
				b := accts[rng.Intn(len(accts))]
				if b != a {
					r.Send(a, b, int64(1+rng.Intn(1000)))
				}
			}
			done++
		}
		r.EndBlock()
		// sometimes let several empty blocks pass (reward accrual, offline detection, adjustment period)
		if rng.Intn(4) == 0 {
			r.Blocks(1 + rng.Intn(25))
		}
	}
}
