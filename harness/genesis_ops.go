package main

// Genesis export / import round trip (C18): the running application is exported with its
// own ExportAppStateAndValidators, the export is validated, a fresh application is
// initialised from it, and the history continues on the new application.

import (
	"encoding/json"
	"fmt"
	"os"

	"github.com/SaoNetwork/sao/app"
	abci "github.com/tendermint/tendermint/abci/types"
	cryptoenc "github.com/tendermint/tendermint/crypto/encoding"
	dbm "github.com/tendermint/tm-db"
)

func (r *Recorder) ExportImport() string {
	c := r.c
	if c.InBlock {
		panic("harness bug: ExportImport inside a block")
	}
	ctxv := c.CtxV()
	var note string
	exported, err := c.App.ExportAppStateAndValidators(false, nil)
	if err != nil {
		r.Step(ctxv, "ExportImport", L(S("ExportImport"), S("export-failed: "+err.Error())), "failed")
		return "failed"
	}
	// Validate() of every module must accept the export
	var gen app.GenesisState
	if err := json.Unmarshal(exported.AppState, &gen); err != nil {
		note = "unmarshal: " + err.Error()
	} else if err := app.ModuleBasics.ValidateGenesis(c.Enc.Marshaler, c.Enc.TxConfig, gen); err != nil {
		note = "validate: " + err.Error()
	}
	home, _ := os.MkdirTemp("", "saoh")
	db := dbm.NewMemDB()
	na, _ := newApp(db, home)
	var valUpdates []abci.ValidatorUpdate
	for _, v := range exported.Validators {
		pk, err := cryptoenc.PubKeyToProto(v.PubKey)
		if err != nil {
			panic(err)
		}
		valUpdates = append(valUpdates, abci.ValidatorUpdate{PubKey: pk, Power: v.Power})
	}
	res := guard(WatchdogLimit, func() {
		na.InitChain(abci.RequestInitChain{
			ChainId:         ChainID,
			Validators:      valUpdates,
			ConsensusParams: exported.ConsensusParams,
			AppStateBytes:   exported.AppState,
			Time:            c.Time,
			InitialHeight:   exported.Height,
		})
		na.Commit()
	})
	if res != "" {
		os.RemoveAll(home)
		r.Step(ctxv, "ExportImport", L(S("ExportImport"), S("init-failed: "+res)), "failed")
		return "failed"
	}
	oldHome := c.home
	c.App, c.DB, c.home = na, db, home
	os.RemoveAll(oldHome)
	c.Height = exported.Height + 1
	out := "ok"
	if note != "" {
		out = "invalid"
	}
	r.Step(ctxv, "ExportImport", L(S("ExportImport"), S(note)), out)
	if note != "" {
		r.Note(fmt.Sprintf("export did not validate: %s", note))
	}
	return out
}
