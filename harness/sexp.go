package main

// The wire format shared with the Coq model: integers, byte strings, lists.

import (
	"bufio"
	"fmt"
	"math/big"
	"sort"
	"strings"
)

type V interface{ write(b *strings.Builder) }

type vz struct{ z *big.Int }
type vs string
type vl []V

func Z(i int64) V        { return vz{big.NewInt(i)} }
func ZU(i uint64) V      { return vz{new(big.Int).SetUint64(i)} }
func ZB(i *big.Int) V    { return vz{new(big.Int).Set(i)} }
func S(s string) V       { return vs(s) }
func L(items ...V) V     { return vl(items) }
func B(b bool) V {
	if b {
		return Z(1)
	}
	return Z(0)
}
func LS(ss []string) V {
	out := make(vl, 0, len(ss))
	for _, s := range ss {
		out = append(out, S(s))
	}
	return out
}
func LU(us []uint64) V {
	out := make(vl, 0, len(us))
	for _, u := range us {
		out = append(out, ZU(u))
	}
	return out
}
func OptS(s *string) V {
	if s == nil {
		return L()
	}
	return L(S(*s))
}

func (v vz) write(b *strings.Builder) { b.WriteString(v.z.String()) }
func (v vs) write(b *strings.Builder) {
	b.WriteByte('"')
	for i := 0; i < len(v); i++ {
		c := v[i]
		if c < 32 || c > 126 || c == '"' || c == '\\' {
			fmt.Fprintf(b, "\\%02x", c)
		} else {
			b.WriteByte(c)
		}
	}
	b.WriteByte('"')
}
func (v vl) write(b *strings.Builder) {
	b.WriteByte('(')
	for i, x := range v {
		if i > 0 {
			b.WriteByte(' ')
		}
		x.write(b)
	}
	b.WriteByte(')')
}

func Render(v V) string {
	var b strings.Builder
	v.write(&b)
	return b.String()
}

func WriteLine(w *bufio.Writer, v V) {
	w.WriteString(Render(v))
	w.WriteByte('\n')
}

// a table keyed by string, listed in byte order of the keys
type kv struct {
	k string
	v V
}

func SMap(items []kv) V {
	sort.Slice(items, func(i, j int) bool { return items[i].k < items[j].k })
	out := make(vl, 0, len(items))
	for _, it := range items {
		out = append(out, L(S(it.k), it.v))
	}
	return out
}

type kvz struct {
	k uint64
	v V
}

func ZMap(items []kvz) V {
	sort.Slice(items, func(i, j int) bool { return items[i].k < items[j].k })
	out := make(vl, 0, len(items))
	for _, it := range items {
		out = append(out, L(ZU(it.k), it.v))
	}
	return out
}
