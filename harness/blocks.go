package main

import "os"


func (r *Recorder) BeginBlock() string {
	ctx := r.c.CtxV()
	out := r.c.BeginBlock()
	r.Step(ctx, "BeginBlock", L(S("BeginBlock")), out)
	return out
}

func (r *Recorder) EndBlock() string {
	ctx := r.c.CtxV()
	out := r.c.EndBlock()
	r.Step(ctx, "EndBlock", L(S("EndBlock")), out)
	return out
}


// Blocks runs n empty blocks and records them as ONE step (the model iterates
// BeginBlock/EndBlock n times). Falls back to block-by-block recording when VERIF_BLOCKWISE is set.
func (r *Recorder) Blocks(n int) string {
	if n <= 0 {
		return "ok"
	}
	if n < 3 || os.Getenv("VERIF_BLOCKWISE") != "" {
		for i := 0; i < n; i++ {
			if out := r.BeginBlock(); out != "ok" {
				return out
			}
			if out := r.EndBlock(); out != "ok" {
				return out
			}
		}
		return "ok"
	}
	ctx := r.c.CtxV()
	out := "ok"
	done := 0
	for i := 0; i < n; i++ {
		if o := r.c.BeginBlock(); o != "ok" {
			out = o
			break
		}
		if o := r.c.EndBlock(); o != "ok" {
			out = o
			break
		}
		done++
	}
	r.Step(ctx, "Blocks", L(S("Blocks"), Z(int64(n)), Z(5)), out)
	r.Ops["BlocksCovered"] += done
	return out
}
