package main

import sdk "github.com/cosmos/cosmos-sdk/types"

func (r *Recorder) BeginBlock() string {
	ctx := r.c.CtxV()
	out := r.c.BeginBlock()
	r.Step(ctx, "BeginBlock", L(S("BeginBlock")), out)
	return out
}

func (r *Recorder) EndBlock() string {
	ctx := r.c.CtxV()
	out := r.c.EndBlock()
	r.Step(ctx, "EndBlock", L(S("EndBlock")), out)
	return out
}

func (c *Chain) dumpRest(ctx sdk.Context) []Table { return nil }
