package main


func (r *Recorder) BeginBlock() string {
	ctx := r.c.CtxV()
	out := r.c.BeginBlock()
	r.Step(ctx, "BeginBlock", L(S("BeginBlock")), out)
	return out
}

func (r *Recorder) EndBlock() string {
	ctx := r.c.CtxV()
	out := r.c.EndBlock()
	r.Step(ctx, "EndBlock", L(S("EndBlock")), out)
	return out
}

