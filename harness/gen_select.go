package main

// Direct differential test of the selection kernels: the real keeper functions
// (RandomIndex, SelectNodes, RandomSP / GetNextSuperNodes) are called on node
// populations written straight into the store, under a watchdog, and recorded as
// pseudo-steps that the model re-evaluates.

import (
	"fmt"
	"math/big"
	"math/rand"
	"time"

	nodekeeper "github.com/SaoNetwork/sao/x/node/keeper"
	nodetypes "github.com/SaoNetwork/sao/x/node/types"
	sdk "github.com/cosmos/cosmos-sdk/types"
)

func intsV(l []int) V {
	out := make(vl, 0, len(l))
	for _, x := range l {
		out = append(out, Z(int64(x)))
	}
	return out
}

func (r *Recorder) selRandomIndex(seed *big.Int, total, count int) {
	c := r.c
	ctx := c.CtxV()
	var res []int
	g := guard(3*time.Second, func() { res = c.App.NodeKeeper.RandomIndex(new(big.Int).Set(seed), total, count) })
	var obs V
	switch {
	case g == "":
		obs = intsV(res)
	case g == "hang":
		obs = S("hang")
	default:
		obs = S("panic")
	}
	r.Step(ctx, "SelRandomIndex", L(S("SelRandomIndex"), ZB(seed), Z(int64(total)), Z(int64(count)), obs), "ok")
}

func (r *Recorder) selSelectNodes(rng *rand.Rand, n, size int) {
	c := r.c
	ctx := c.CtxV()
	nodes := make([]nodetypes.Node, n)
	cands := make(vl, 0, n)
	for i := range nodes {
		nodes[i] = nodetypes.Node{Creator: fmt.Sprintf("n%02d", i), LastAliveHeight: int64(rng.Intn(4)), Reputation: float32(8000 + 1000*rng.Intn(4))}
		cands = append(cands, L(S(nodes[i].Creator), Z(nodes[i].LastAliveHeight), f32V(nodes[i].Reputation)))
	}
	var res []nodetypes.Node
	g := guard(3*time.Second, func() { res = nodekeeper.SelectNodes(size, nodes) })
	var obs V
	if g == "" {
		names := make([]string, 0)
		for _, x := range res {
			names = append(names, x.Creator)
		}
		obs = LS(names)
	} else {
		obs = S(g)
	}
	r.Step(ctx, "SelSelectNodes", L(S("SelSelectNodes"), Z(int64(size)), cands, obs), "ok")
}

// populate writes a random node population straight into the node store.
func (r *Recorder) populate(rng *rand.Rand, accts []*Account) {
	c := r.c
	ctx := c.deliverCtx()
	k := c.App.NodeKeeper
	for _, n := range k.GetAllNode(ctx) {
		k.RemoveNode(ctx, n.Creator)
	}
	for _, p := range k.GetAllPledge(ctx) {
		k.RemovePledge(ctx, p.Creator)
	}
	n := rng.Intn(len(accts) + 1)
	if rng.Intn(5) == 0 {
		n = rng.Intn(3)
	}
	perm := rng.Perm(len(accts))
	statuses := []uint32{13, 15, 13, 15, 15, 12, 5, 0, 9, 47}
	reps := []float32{10000, 10000, 12000, 9000, 8000, 7999, 10360}
	superBias := rng.Intn(4) // 0: no supers
	for i := 0; i < n; i++ {
		a := accts[perm[i]]
		role := uint32(0)
		if superBias > 0 && rng.Intn(4) < superBias {
			role = 1
		}
		node := nodetypes.Node{Creator: a.Bech(), Peer: "", Reputation: reps[rng.Intn(len(reps))], Status: statuses[rng.Intn(len(statuses))],
			LastAliveHeight: int64(rng.Intn(3)), Role: role}
		k.SetNode(ctx, node)
		if rng.Intn(8) != 0 {
			total := int64(1000 * (1 + rng.Intn(5)))
			used := int64(0)
			if rng.Intn(3) == 0 {
				used = total - int64(rng.Intn(600))
			}
			k.SetPledge(ctx, nodetypes.Pledge{Creator: a.Bech(), TotalStoragePledged: sdk.NewInt64Coin(Denom, 0), TotalShardPledged: sdk.NewInt64Coin(Denom, 0),
				Reward: sdk.NewInt64DecCoin(Denom, 0), RewardDebt: sdk.NewInt64DecCoin(Denom, 0), TotalStorage: total, UsedStorage: used})
		}
	}
	if rng.Intn(3) != 0 {
		k.SetNodeRound(ctx, uint8(rng.Intn(6)))
	}
	r.Step(c.CtxV(), "SelPopulate", L(S("SelPopulate")), "ok")
}

func (r *Recorder) selRandomSP(rng *rand.Rand, accts []*Account) {
	c := r.c
	// seed classes: empty, tiny, small, 256-bit
	switch rng.Intn(6) {
	case 0:
		c.AppHash = nil
	case 1:
		c.AppHash = []byte{byte(rng.Intn(10))}
	case 2:
		c.AppHash = big.NewInt(int64(rng.Intn(100000))).Bytes()
	default:
		b := make([]byte, 32)
		rng.Read(b)
		c.AppHash = b
	}
	count := rng.Intn(7) - 1
	if rng.Intn(3) == 0 {
		count = 1 + rng.Intn(3)
	}
	var ignore []string
	for _, a := range accts {
		if rng.Intn(5) == 0 {
			ignore = append(ignore, a.Bech())
		}
	}
	if rng.Intn(6) == 0 {
		ignore = append(ignore, "sao1notanode")
	}
	size := int64(100 * (1 + rng.Intn(8)))
	ctxv := c.CtxV()
	ctx := c.deliverCtx()
	var res []nodetypes.Node
	g := guard(5*time.Second, func() { res = c.App.NodeKeeper.RandomSP(ctx, count, ignore, size) })
	var obs V
	if g == "" {
		names := make([]string, 0)
		for _, x := range res {
			names = append(names, x.Creator)
		}
		obs = LS(names)
	} else if g == "hang" {
		obs = S("hang")
	} else {
		obs = S("panic")
	}
	r.Step(ctxv, "SelRandomSP", L(S("SelRandomSP"), Z(int64(count)), LS(ignore), Z(size), obs), "ok")
}

func runSelectHistory(r *Recorder, rng *rand.Rand, accts []*Account, nOps int, sweep int) {
	r.BeginBlock()
	// small-domain sweep of RandomIndex: every total <= 10, count <= 5, seeds 0..sweep-1 (offset by the PRNG)
	base := int64(rng.Intn(1000)) * int64(sweep)
	for total := 0; total <= 10; total++ {
		for count := -1; count <= 5; count++ {
			for s := 0; s < sweep; s++ {
				r.selRandomIndex(big.NewInt(base+int64(s)), total, count)
			}
			// the exhausted-seed corner and a large seed
			r.selRandomIndex(big.NewInt(0), total, count)
			b := make([]byte, 32)
			rng.Read(b)
			r.selRandomIndex(new(big.Int).SetBytes(b), total, count)
		}
	}
	for total := 11; total <= 120; total += 1 + rng.Intn(9) {
		b := make([]byte, 32)
		rng.Read(b)
		r.selRandomIndex(new(big.Int).SetBytes(b), total, 1+rng.Intn(total/2))
		r.selRandomIndex(big.NewInt(int64(rng.Intn(1000))), total, 1+rng.Intn(6))
	}
	for i := 0; i < nOps/4; i++ {
		n := rng.Intn(14)
		r.selSelectNodes(rng, n, rng.Intn(n+3))
	}
	for i := 0; i < nOps; i++ {
		if i%4 == 0 {
			r.populate(rng, accts)
		}
		r.selRandomSP(rng, accts)
	}
	r.c.AppHash = nil
	r.EndBlock()
}
