package main

import (
	"encoding/binary"
	"fmt"
	"math/big"

	didtypes "github.com/SaoNetwork/sao/x/did/types"
	markettypes "github.com/SaoNetwork/sao/x/market/types"
	nodekeeper "github.com/SaoNetwork/sao/x/node/keeper"
	nodetypes "github.com/SaoNetwork/sao/x/node/types"
	ordertypes "github.com/SaoNetwork/sao/x/order/types"
	"github.com/cosmos/cosmos-sdk/store/prefix"
	sdk "github.com/cosmos/cosmos-sdk/types"
	authtypes "github.com/cosmos/cosmos-sdk/x/auth/types"
	stakingtypes "github.com/cosmos/cosmos-sdk/x/staking/types"
)

func decV(d sdk.Dec) V {
	if d.IsNil() {
		return Z(0)
	}
	return ZB(d.BigInt())
}
func intV(i sdk.Int) V {
	if i.IsNil() {
		return Z(0)
	}
	return ZB(i.BigInt())
}

func f32V(f float32) V {
	bf := new(big.Float).SetFloat64(float64(f))
	i, acc := bf.Int(nil)
	if acc != big.Exact {
		// non-integral reputation: outside the model's domain, flagged by a huge marker
		return L(S("nonintegral"), ZB(i))
	}
	return ZB(i)
}

func (c *Chain) dumpRest(ctx sdk.Context) []Table {
	app := c.App
	var tabs []Table

	// ---- node
	var nodes, pledges, debts []kv
	for _, n := range app.NodeKeeper.GetAllNode(ctx) {
		nodes = append(nodes, kv{n.Creator, L(S(n.Peer), f32V(n.Reputation), ZU(uint64(n.Status)), Z(n.LastAliveHeight),
			LS(n.TxAddresses), ZU(uint64(n.Role)), S(n.Validator))})
	}
	for _, p := range app.NodeKeeper.GetAllPledge(ctx) {
		pledges = append(pledges, kv{p.Creator, L(intV(p.TotalStoragePledged.Amount), intV(p.TotalShardPledged.Amount),
			decV(p.Reward.Amount), decV(p.RewardDebt.Amount), Z(p.TotalStorage), Z(p.UsedStorage))})
	}
	for _, d := range app.NodeKeeper.GetAllPledgeDebt(ctx) {
		debts = append(debts, kv{d.Sp, intV(d.Debt.Amount)})
	}
	tabs = append(tabs, Table{"node.Node", SMap(nodes)}, Table{"node.Pledge", SMap(pledges)}, Table{"node.PledgeDebt", SMap(debts)})
	pool, found := app.NodeKeeper.GetPool(ctx)
	if found {
		tabs = append(tabs, Table{"node.Pool", L(L(intV(pool.TotalPledged.Amount), intV(pool.TotalReward.Amount), decV(pool.AccPledgePerByte.Amount),
			decV(pool.AccRewardPerByte.Amount), decV(pool.RewardPerBlock.Amount), decV(pool.NextRewardPerBlock.Amount),
			Z(pool.TotalStorage), Z(pool.RewardedBlockCount)))})
	} else {
		tabs = append(tabs, Table{"node.Pool", L()})
	}
	nodeKey := app.GetKey(nodetypes.StoreKey)
	st := ctx.KVStore(nodeKey)
	// round-robin cursor
	rs := prefix.NewStore(st, nodetypes.KeyPrefix(nodetypes.NodeRoundKeyPrefix))
	if b := rs.Get(nodetypes.NodeRoundKey()); b != nil && len(b) > 0 {
		tabs = append(tabs, Table{"node.NodeRound", L(Z(int64(b[0])))})
	} else {
		tabs = append(tabs, Table{"node.NodeRound", L()})
	}
	// faults: id index and (provider, shard) index
	var faultIds, faultIdx, fishing []kv
	fs := prefix.NewStore(st, nodetypes.KeyPrefix(nodetypes.FaultIdKeyPrefix))
	it := sdk.KVStorePrefixIterator(fs, []byte{})
	for ; it.Valid(); it.Next() {
		var f nodetypes.Fault
		if err := app.AppCodec().Unmarshal(it.Value(), &f); err != nil {
			faultIds = append(faultIds, kv{string(it.Key()), L(S("undecodable"))})
			continue
		}
		faultIds = append(faultIds, kv{string(it.Key()), L(S(f.FaultId), ZU(f.OrderId), S(f.DataId), ZU(f.ShardId), S(f.CommitId),
			S(f.Provider), S(f.Reporter), S(f.Confirms), ZU(uint64(f.Status)), ZU(f.Penalty))})
	}
	it.Close()
	fx := prefix.NewStore(st, nodetypes.KeyPrefix(nodetypes.FaultKeyPrefix))
	it = sdk.KVStorePrefixIterator(fx, []byte{})
	for ; it.Valid(); it.Next() {
		k := it.Key()
		// provider bytes ++ 8-byte shard id ++ "/"
		if len(k) >= 9 {
			prov := string(k[:len(k)-9])
			sid := binary.BigEndian.Uint64(k[len(k)-9 : len(k)-1])
			faultIdx = append(faultIdx, kv{string(k), L(S(prov), ZU(sid), S(string(it.Value())))})
		} else {
			faultIdx = append(faultIdx, kv{string(k), L(S("rawkey"), Z(0), S(string(it.Value())))})
		}
	}
	it.Close()
	fr := prefix.NewStore(st, nodetypes.KeyPrefix(nodetypes.FishingRewardKey))
	it = sdk.KVStorePrefixIterator(fr, []byte{})
	for ; it.Valid(); it.Next() {
		fishing = append(fishing, kv{string(it.Key()), S(string(it.Value()))})
	}
	it.Close()
	tabs = append(tabs, Table{"node.FaultById", SMap(faultIds)}, Table{"node.FaultIndex", SMap(faultIdx)}, Table{"node.FishingReward", SMap(fishing)})
	np := app.NodeKeeper.GetParams(ctx)
	apy, _ := sdk.NewDecFromStr(np.AnnualPercentageYield)
	sth, _ := sdk.NewDecFromStr(np.ShareThreshold)
	tabs = append(tabs, Table{"node.Params", L(L(intV(np.BlockReward.Amount), intV(np.Baseline.Amount), decV(apy), Z(np.HalvingPeriod), Z(np.AdjustmentPeriod),
		decV(sth), S(np.FishmenInfo), ZU(np.PenaltyBase), ZU(np.MaxPenalty), Z(np.VstorageThreshold), Z(np.OfflineTriggerHeight)))})

	// ---- order
	var orders, shards []kvz
	for _, o := range app.OrderKeeper.GetAllOrder(ctx) {
		orders = append(orders, kvz{o.Id, orderV(o)})
	}
	for _, s := range app.OrderKeeper.GetAllShard(ctx) {
		shards = append(shards, kvz{s.Id, shardV(s)})
	}
	tabs = append(tabs, Table{"order.Order", ZMap(orders)}, Table{"order.OrderCount", L(ZU(app.OrderKeeper.GetOrderCount(ctx)))},
		Table{"order.Shard", ZMap(shards)}, Table{"order.ShardCount", L(ZU(app.OrderKeeper.GetShardCount(ctx)))})

	// ---- model
	var metas, models []kv
	var expdata []kvz
	for _, m := range app.ModelKeeper.GetAllMetadata(ctx) {
		upd := int64(0)
		if m.Update {
			upd = 1
		}
		metas = append(metas, kv{m.DataId, L(S(m.Owner), S(m.Alias), S(m.GroupId), ZU(m.OrderId), LS(m.Tags), S(m.Cid), LS(m.Commits),
			S(m.ExtendInfo), Z(upd), S(m.Commit), S(m.Rule), ZU(m.Duration), ZU(m.CreatedAt), LS(m.ReadonlyDids), LS(m.ReadwriteDids),
			Z(int64(m.Status)), LU(m.Orders))})
	}
	for _, m := range app.ModelKeeper.GetAllModel(ctx) {
		models = append(models, kv{m.Key, S(m.Data)})
	}
	for _, e := range app.ModelKeeper.GetAllExpiredData(ctx) {
		expdata = append(expdata, kvz{e.Height, LS(e.Data)})
	}
	tabs = append(tabs, Table{"model.Metadata", SMap(metas)}, Table{"model.Model", SMap(models)}, Table{"model.ExpiredData", ZMap(expdata)})

	// ---- sao
	var timeouts, expshards []kvz
	for _, t := range app.SaoKeeper.GetAllTimeoutOrder(ctx) {
		timeouts = append(timeouts, kvz{t.Height, LU(t.OrderList)})
	}
	for _, e := range app.SaoKeeper.GetAllExpiredShard(ctx) {
		expshards = append(expshards, kvz{e.Height, LU(e.ShardList)})
	}
	tabs = append(tabs, Table{"sao.TimeoutOrder", ZMap(timeouts)}, Table{"sao.ExpiredShard", ZMap(expshards)})

	// ---- market
	var workers []kv
	for _, w := range app.MarketKeeper.GetAllWorker(ctx) {
		workers = append(workers, kv{w.Workername, L(ZU(w.Storage), decV(w.Reward.Amount), decV(w.IncomePerSecond.Amount), Z(w.LastRewardAt))})
	}
	tabs = append(tabs, Table{"market.Worker", SMap(workers)})

	// ---- bank: actors + module accounts, supply of the bond denom
	var bals []kv
	for _, a := range c.accountList() {
		b := app.BankKeeper.GetBalance(ctx, a.Addr, Denom)
		bals = append(bals, kv{a.Bech(), intV(b.Amount)})
	}
	for _, m := range []string{nodetypes.ModuleName, ordertypes.ModuleName, markettypes.ModuleName, didtypes.ModuleName} {
		addr := authtypes.NewModuleAddress(m)
		b := app.BankKeeper.GetBalance(ctx, addr, Denom)
		bals = append(bals, kv{"module:" + m, intV(b.Amount)})
	}
	tabs = append(tabs, Table{"bank.Balance", SMap(bals)}, Table{"bank.Supply", L(intV(app.BankKeeper.GetSupply(ctx, Denom).Amount))})

	// ---- staking: shares only
	var vals, dels []kv
	for _, v := range app.StakingKeeper.GetAllValidators(ctx) {
		vals = append(vals, kv{v.OperatorAddress, L(decV(v.DelegatorShares), intV(v.Tokens), Z(int64(v.Status)))})
		for _, d := range app.StakingKeeper.GetValidatorDelegations(ctx, v.GetOperator()) {
			dels = append(dels, kv{delKey(d.DelegatorAddress, d.ValidatorAddress), L(S(d.DelegatorAddress), S(d.ValidatorAddress), decV(d.Shares))})
		}
	}
	tabs = append(tabs, Table{"staking.Validator", SMap(vals)}, Table{"staking.Delegation", SMap(dels)})
	_ = stakingtypes.ModuleName

	// ---- process global (verif hook)
	tabs = append(tabs, Table{"proc.sharesBeforeModified", L(decV(nodekeeper.VerifSharesBeforeModified()))})
	return tabs
}

func orderV(o ordertypes.Order) V {
	return L(S(o.Creator), S(o.Owner), S(o.Provider), S(o.Cid), ZU(o.Duration), Z(int64(o.Status)), Z(int64(o.Replica)), LU(o.Shards),
		intV(o.Amount.Amount), ZU(o.Size_), ZU(uint64(o.Operation)), ZU(o.CreatedAt), ZU(o.Timeout), S(o.DataId), S(o.Commit),
		decV(o.UnitPrice.Amount), S(o.PaymentDid))
}

func shardV(s ordertypes.Shard) V {
	ri := make(vl, 0)
	for _, r := range s.RenewInfos {
		ri = append(ri, L(ZU(r.OrderId), intV(r.Pledge.Amount), ZU(r.Duration)))
	}
	return L(ZU(s.OrderId), Z(int64(s.Status)), ZU(s.Size_), S(s.Cid), intV(s.Pledge.Amount), S(s.From), S(s.Sp), ZU(s.Duration), ZU(s.CreatedAt), ri)
}

func (c *Chain) accountList() []*Account {
	out := make([]*Account, 0, len(c.Accounts))
	for _, a := range c.Accounts {
		out = append(out, a)
	}
	return out
}

// delKey orders delegations the way the staking store does: by raw address bytes.
func delKey(del, val string) string {
	d, _ := sdk.AccAddressFromBech32(del)
	v, _ := sdk.ValAddressFromBech32(val)
	return fmt.Sprintf("%x|%x", []byte(d), []byte(v))
}
