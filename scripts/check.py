#!/usr/bin/env python3
"""Per-property check. Usage: check.py <CID> [--tier quick|thorough] [--replay file]

 1. prepare.sh: rebuild harness / translator / Coq / runner from /repo's current tree
 2. Coq side: the property's theorem file and its generated obligations must have
    compiled; Print Assumptions is collected
 3. correspondence: generated histories are run on the real application and, step by
    step, on the extracted model; the property's projection is compared; the property's
    monitors (extracted boolean invariants) are evaluated on the implementation states
 4. verdict, evidence file, VIOLATION / KNOWN-FINDING lines
"""
import sys, os, json, time, subprocess, hashlib, re, glob, fcntl, shutil
from concurrent.futures import ThreadPoolExecutor

V = os.path.dirname(os.path.dirname(os.path.abspath(__file__)))
sys.path.insert(0, os.path.join(V, 'scripts'))
import props  # noqa

REPO = os.environ.get('REPO', '/repo')
BUILD = os.path.join(V, 'build')


def sh(cmd, **kw):
    return subprocess.run(cmd, shell=True, stdout=subprocess.PIPE, stderr=subprocess.STDOUT, text=True, **kw)


# ---------------------------------------------------------------- s-expressions
def parse_sexp(s):
    i = 0
    n = len(s)

    def val():
        nonlocal i
        while i < n and s[i] in ' \t\r\n':
            i += 1
        c = s[i]
        if c == '(':
            i += 1
            out = []
            while True:
                while i < n and s[i] in ' \t\r\n':
                    i += 1
                if s[i] == ')':
                    i += 1
                    return out
                out.append(val())
        if c == '"':
            i += 1
            b = bytearray()
            while s[i] != '"':
                if s[i] == '\\':
                    b.append(int(s[i + 1:i + 3], 16))
                    i += 3
                else:
                    b.append(ord(s[i]))
                    i += 1
            i += 1
            return b.decode('latin-1')
        j = i
        while i < n and (s[i] == '-' or s[i].isdigit()):
            i += 1
        return int(s[j:i])
    return val()


# ---------------------------------------------------------------- build
def prepare():
    r = sh(f'bash {V}/scripts/prepare.sh')
    failed = os.path.join(BUILD, 'prepare.failed')
    if r.returncode != 0 or os.path.exists(failed):
        what = open(failed).read().strip() if os.path.exists(failed) else 'unknown'
        return False, what, r.stdout
    return True, '', r.stdout


def prune_runs(keep=6, max_age_s=2 * 3600):
    """Recorded histories are kept per tree (build/runs/<tree>-<seed>-<tier>) so that the twenty checks of one tree share
    them; a new tree gets a new directory. Old ones are removed here: all but the `keep` most recent, once older than
    max_age_s (nothing a running check uses is that old)."""
    root = os.path.join(BUILD, 'runs')
    try:
        ds = sorted((os.path.join(root, d) for d in os.listdir(root)), key=lambda x: os.path.getmtime(x), reverse=True)
        now = time.time()
        for d in ds[keep:]:
            if now - os.path.getmtime(d) > max_age_s:
                shutil.rmtree(d, ignore_errors=True)
    except OSError:
        pass


def tree_stamp():
    p = os.path.join(BUILD, 'prepare.stamp')
    return open(p).read().strip() if os.path.exists(p) else 'nostamp'


def vo_ok(rel):
    """did theories/<rel>.v compile in the last make?"""
    v = os.path.join(V, 'coq', 'theories', rel + '.v')
    vo = os.path.join(V, 'coq', 'theories', rel + '.vo')
    return os.path.exists(vo) and os.path.getmtime(vo) >= os.path.getmtime(v)


def coq_theorems(rel):
    """theorem names + Print Assumptions output of a property/obligation file"""
    path = os.path.join(V, 'coq', 'theories', rel + '.v')
    if not os.path.exists(path):
        return [], {}, 'missing'
    src = open(path).read()
    names = re.findall(r'^\s*(?:Theorem|Lemma|Corollary|Example)\s+([A-Za-z0-9_\']+)', src, re.M)
    r = sh(f'cd {V}/coq && timeout 900 coqc -Q theories SaoVerif -w -notation-overridden,-ambiguous-paths theories/{rel}.v')
    out = r.stdout
    if r.returncode != 0:
        return names, {}, out[-2000:]
    # parse Print Assumptions blocks: they follow in order of the Print commands
    printed = re.findall(r'Print Assumptions\s+([A-Za-z0-9_\']+)\s*\.', src)
    blocks = re.split(r'(?=Closed under the global context|Axioms:)', out)
    blocks = [b for b in blocks if b.startswith('Closed under') or b.startswith('Axioms:')]
    assum = {}
    for nm, b in zip(printed, blocks):
        assum[nm] = 'closed' if b.startswith('Closed') else b.strip()
    return names, assum, ''


# ---------------------------------------------------------------- histories
def run_profile(profile, count, ops, seed, tier):
    """Run `count` histories of a profile on the real app and on the model. Shared
    between the checks of one tree/seed/tier through a directory under build/runs."""
    stamp = tree_stamp()
    d = os.path.join(BUILD, 'runs', f'{stamp[:16]}-{seed}-{tier}', profile)
    os.makedirs(d, exist_ok=True)
    lock = open(os.path.join(d, '.lock'), 'w')
    fcntl.flock(lock, fcntl.LOCK_EX)
    try:
        done = os.path.join(d, 'DONE')
        if not os.path.exists(done):
            def one(i):
                hs = seed * 100003 + i * 7919 + props.PROFILE_SALT.get(profile, 0)
                hf = os.path.join(d, f'h{i}.sx')
                if profile.startswith('twin:'):
                    base = profile[len('twin:'):]
                    st = os.path.join(d, f'h{i}.stream')
                    r = sh(f'timeout 1500 {BUILD}/saoh gen --profile {base} --seed {hs} --ops {ops} --out {hf} --stream {st}')
                    open(os.path.join(d, f'h{i}.sum'), 'w').write(r.stdout)
                    every = 1 if base.startswith('scenario:') else 6
                    r2 = sh(f'timeout 1500 {BUILD}/saoh replay --stream {st} --seed {hs + 17} --restart-every {every}')
                    open(os.path.join(d, f'h{i}.twin'), 'w').write(r2.stdout)
                    open(os.path.join(d, f'h{i}.res'), 'w').write('')
                    os.remove(hf)
                    return r.returncode, r2.returncode
                r = sh(f'timeout 1500 {BUILD}/saoh gen --profile {profile} --seed {hs} --ops {ops} --out {hf}')
                open(os.path.join(d, f'h{i}.sum'), 'w').write(r.stdout)
                r2 = sh(f'timeout 1500 {BUILD}/runner {hf} > {d}/h{i}.res 2> {d}/h{i}.err')
                return r.returncode, r2.returncode
            with ThreadPoolExecutor(max_workers=int(os.environ.get('VERIF_JOBS', '16'))) as ex:
                rcs = list(ex.map(one, range(count)))
            open(done, 'w').write(json.dumps(rcs))
    finally:
        fcntl.flock(lock, fcntl.LOCK_UN)
    return d


def load_results(d):
    """yields (history index, history file, step line no, result list)"""
    for res in sorted(glob.glob(os.path.join(d, 'h*.res'))):
        i = int(re.search(r'h(\d+)\.res', res).group(1))
        hf = res[:-4] + '.sx'
        for line in open(res, errors='replace'):
            line = line.rstrip('\n')
            if not line:
                continue
            sp = line.find(' ')
            try:
                yield i, hf, int(line[:sp]), parse_sexp(line[sp + 1:])
            except Exception:
                yield i, hf, -1, ['badresult', line[:200]]


def step_of(hf, lineno):
    with open(hf, errors='replace') as f:
        for k, line in enumerate(f, 1):
            if k == lineno:
                return line.rstrip('\n')
    return ''


# ---------------------------------------------------------------- known findings
def load_known():
    out = []
    p = os.path.join(V, 'KNOWN_FINDINGS.txt')
    if not os.path.exists(p):
        return out
    for line in open(p):
        line = line.strip()
        if not line.startswith('known:'):
            continue
        kv = dict(re.findall(r'(\w+)=("[^"]*"|\S+)', line[len('known:'):]))
        kv = {k: v.strip('"') for k, v in kv.items()}
        kv['raw'] = line
        out.append(kv)
    return out


# ---------------------------------------------------------------- main
def main():
    prune_runs()
    a = sys.argv[1:]
    cid = a[0]
    tier = os.environ.get('VERIF_TIER', 'quick')
    if '--tier' in a:
        tier = a[a.index('--tier') + 1]
    seed = int(os.environ.get('VERIF_SEED', '1'))
    t0 = time.time()
    P = props.PROPS[cid]
    os.makedirs(os.path.join(V, 'evidence'), exist_ok=True)
    os.makedirs(os.path.join(V, 'replays'), exist_ok=True)
    evidence_path = os.path.join(V, 'evidence', cid + os.environ.get('VERIF_EVIDENCE_SUFFIX', '') + '.json')

    violations = []   # (kind, replay dict)
    known_lines = []
    notes = []

    ok, what, log = prepare()
    if not ok:
        # the framework could not be built against this tree: nothing is shown to hold
        rp = os.path.join(V, 'replays', f'{cid}-build.json')
        json.dump({'property': cid, 'broken': 'build:' + what, 'log': log[-4000:]}, open(rp, 'w'), indent=1)
        write_evidence(evidence_path, cid, tier, seed, P, {}, [], 1, time.time() - t0, [f'build failed at {what}'], [], {})
        print(f'VIOLATION property={cid} replay={rp} no-failing-input-found')
        return 1

    # ---- Coq obligations
    obligations = []      # (name, discharged?, detail)
    trusted = ['Coq 8.16.1 kernel (coqc; vm_compute in witnesses and generated obligations; no native_compute)']
    coq_files = [P['theorems']] + P.get('obligation_files', [])
    assumptions_seen = {}
    for rel in coq_files:
        if os.environ.get('VERIF_ALLOW_MISSING') and not os.path.exists(os.path.join(V, 'coq', 'theories', rel + '.v')):
            notes.append(f'{rel} missing (experiment mode)')
            continue
        names, assum, err = coq_theorems(rel)
        built = vo_ok(rel) and not err
        for nm in names:
            obligations.append((f'{rel}:{nm}', built, '' if built else (err or 'did not compile')[-600:]))
        for nm, a_ in assum.items():
            assumptions_seen[f'{rel}:{nm}'] = a_
        if not built:
            notes.append(f'{rel} does not compile')
    # thorough tier: the independent checker re-checks the property's compiled theorems and everything
    # they depend on, and lists the axioms of the whole context (cached per tree)
    if tier == 'thorough' and os.path.exists(os.path.join(V, 'coq', 'theories', P['theorems'] + '.vo')):
        # one coqchk run per tree over ALL property files (they share almost all of their dependencies: ~3 min for
        # the twenty together), shared by the twenty checks through a cache file
        libs = ' '.join('SaoVerif.Properties.' + c for c in sorted(props.PROPS)
                        if os.path.exists(os.path.join(V, 'coq', 'theories', 'Properties', c + '.vo')))
        lib = 'SaoVerif.' + P['theorems'].replace('/', '.')
        cache = os.path.join(BUILD, 'coqchk-' + tree_stamp() + '.log')
        lk = open(cache + '.lock', 'w')
        fcntl.flock(lk, fcntl.LOCK_EX)
        try:
            if not os.path.exists(cache):
                out_ = sh(f'cd {V}/coq && timeout 5400 coqchk -silent -o -Q theories SaoVerif {libs} 2>&1 | tail -40').stdout
                open(cache, 'w').write('LIBS ' + libs + '\n' + out_)
        finally:
            fcntl.flock(lk, fcntl.LOCK_UN)
        out = open(cache).read()
        m_ax = re.search(r'\* Axioms:(.*?)\n\s*\n\* Constants', out, re.S)
        ax_txt = ' '.join(m_ax.group(1).split()) if m_ax else 'coqchk gave no summary: ' + out[-300:]
        clean = bool(m_ax) and ax_txt == '<none>' and 'type-in-type: <none>' in out and 'unsafe (co)fixpoints: <none>' in out and 'positivity is assumed: <none>' in out \
            and lib in out.splitlines()[0]
        obligations.append((f'coqchk -o (all property files, incl. {lib}): no axioms, no unchecked fixpoints, positivity or universes', clean, '' if clean else ax_txt[:600]))
        trusted.append('coqchk -silent -o: Axioms: ' + ax_txt[:300])
    axioms = sorted({a_ for a_ in assumptions_seen.values() if a_ != 'closed'})
    trusted.append('Print Assumptions: ' + ('all property theorems closed under the global context' if not axioms else '; '.join(axioms)))
    bad_ax = [a_ for a_ in axioms if not props.axioms_allowed(a_)]
    if bad_ax:
        obligations.append(('no-undeclared-axioms', False, '; '.join(bad_ax)))

    # ---- correspondence
    cov = {'profiles': {}, 'op_histogram': {}, 'outcome_histogram': {}, 'squares_compared': 0, 'squares_unmodelled': 0,
           'squares_out_of_domain': 0, 'mismatches_in_projection': 0, 'monitor_evaluations': 0, 'monitor_failures': 0,
           'nontrivial_steps': 0}
    samples = []
    mism = []      # (profile, hist, file, line, what)
    monfail = []   # (profile, hist, file, line, names)
    distinct = set()
    halts = []
    known_all = [k for k in load_known() if k.get('property') == cid]
    profiles = list(P.get('profiles', []))
    for sc in P.get('scenarios', []) + [k['scenario'] for k in known_all if k.get('scenario') and not k.get('clause', '').startswith('twin.')]:
        if not any(pr['name'] == 'scenario:' + sc for pr in profiles):
            profiles.insert(0, {'name': 'scenario:' + sc, 'quick': 1, 'thorough': 1, 'ops': 0})
    reproduced = set()
    active = {}
    for prof in profiles:
        name = prof['name']
        count = prof[tier]
        if count <= 0:
            continue
        d = run_profile(name, count, prof.get('ops', 60), seed, tier)
        pc = {'histories': count, 'steps': 0}
        for sf in glob.glob(os.path.join(d, 'h*.sum')):
            try:
                js = json.loads(open(sf).read().strip().splitlines()[-1])
            except Exception:
                notes.append(f'harness produced no summary: {sf}: ' + open(sf).read()[-300:])
                mism.append((name, -1, sf, 0, 'harness-failed'))
                continue
            for k, v in js.get('ops', {}).items():
                cov['op_histogram'][k] = cov['op_histogram'].get(k, 0) + v
            for k, v in js.get('outcomes', {}).items():
                cov['outcome_histogram'][k] = cov['outcome_histogram'].get(k, 0) + v
                if P.get('halt_is_violation') and k.split(':')[-1] in ('halted', 'hung', 'hang'):
                    kf = [x for x in known_all if x.get('clause') == 'live.halt' and name == 'scenario:' + x.get('scenario', '?')]
                    if kf:
                        reproduced.add(kf[0].get('id'))
                    else:
                        halts.append((name, sf[:-4] + '.sx', k, js.get('halted', ''), int(re.search(r'h(\d+)\.sum', sf).group(1))))
        for hi, hf, ln, res in load_results(d):
            pc['steps'] += 1
            tag = res[0] if res else 'empty'
            if tag == 'unmodelled':
                cov['squares_unmodelled'] += 1
                continue
            if tag == 'outofdomain':
                cov['squares_out_of_domain'] += 1
                continue
            if tag != 'compared':
                mism.append((name, hi, hf, ln, 'runner:' + json.dumps(res)[:200]))
                continue
            # ["compared", family, model class, outcome ok, [diff], detail, [monitor failures], changed]
            fam, mcls, ook, diff, detail, mons, changed = res[1], res[2], res[3], res[4], res[5], res[6], res[7]
            mons_mine = [m for m in mons if props.monitor_of(cid, m)]
            cov['monitor_evaluations'] += 1
            hkey = (name, hi)
            act = active.setdefault(hkey, set())
            # a listed finding is identified by its own clause; once that clause has fired in a
            # history, the clauses listed as its consequences ("covers") are attributed to it
            for k in known_all:
                if k.get('clause') in mons:
                    act.add(k.get('id'))
                    if name == 'scenario:' + k.get('scenario', '?'):
                        reproduced.add(k.get('id'))
            if mons_mine:
                cov['monitor_failures'] += 1
                rest = []
                for m in mons_mine:
                    if any(k.get('clause') == m or (k.get('id') in act and m in k.get('covers', '').split(',')) for k in known_all):
                        cov['monitor_failures_known'] = cov.get('monitor_failures_known', 0) + 1
                    else:
                        rest.append(m)
                if rest:
                    monfail.append((name, hi, hf, ln, rest))
            if not props.family_of(cid, fam):
                continue
            cov['squares_compared'] += 1
            if changed:
                cov['nontrivial_steps'] += 1
                distinct.add(hashlib.sha1((fam + '|' + mcls + '|' + detail + '|' + str(hi) + ':' + str(ln)).encode()).hexdigest())
            rel = [t for t in diff if props.in_projection(cid, t)]
            if ook != 1:
                if fam == 'select':
                    rel += [t for t in ('select', 'outcome-class') if props.in_projection(cid, t)]
                elif props.in_projection(cid, 'outcome-class') or props.in_projection(cid, '*') or rel:
                    rel.append('outcome-class')
            if rel:
                cov['mismatches_in_projection'] += 1
                mism.append((name, hi, hf, ln, ','.join(rel) + ' model:' + mcls + ' ' + detail))
            if len(samples) < 3 and changed:
                samples.append({'profile': name, 'history': hi, 'line': ln, 'step': step_of(hf, ln)[:600], 'model': mcls})
        if name.startswith('twin:'):
            tw = cov.setdefault('twin', {'replays': 0, 'blocks': 0, 'txs': 0, 'simulations': 0, 'checktxs': 0, 'queries': 0, 'restarts': 0,
                                         'divergences': 0, 'divergences_known_residue': 0})
            for tf in sorted(glob.glob(os.path.join(d, 'h*.twin'))):
                try:
                    tj = json.loads(open(tf).read().strip().splitlines()[-1])
                except Exception:
                    mism.append((name, -1, tf, 0, 'twin replay produced no summary: ' + open(tf).read()[-300:]))
                    continue
                tw['replays'] += 1
                for k in ('blocks', 'txs', 'simulations', 'checktxs', 'queries', 'restarts'):
                    tw[k] += tj.get(k, 0)
                for dv in tj.get('divergences') or []:
                    tw['divergences'] += 1
                    clause = 'twin.residue_divergence' if (tj.get('residue_seen', 0) > 0 and (tj.get('restarts', 0) + tj.get('simulations', 0)) > 0) else 'twin.divergence'
                    kf = [k for k in known_all if k.get('clause') == clause or clause in k.get('covers', '').split(',')]
                    if kf:
                        tw['divergences_known_residue'] += 1
                        if name == 'twin:scenario:' + kf[0].get('scenario', '?'):
                            reproduced.add(kf[0].get('id'))
                    else:
                        monfail.append((name, int(re.search(r'h(\d+)\.twin', tf).group(1)), tf[:-5] + '.stream', 0, [clause + ' ' + json.dumps(dv)[:300]]))
            cov['squares_compared'] += tw['txs']
        cov['profiles'][name] = pc

    # ---- guard of extraction + runner.ml: a sample of this property's squares is re-evaluated inside Coq
    prof_dirs = [os.path.join(BUILD, 'runs', f'{tree_stamp()[:16]}-{seed}-{tier}', pr['name']) for pr in profiles
                 if pr[tier] > 0 and not pr['name'].startswith('twin:')]
    prof_dirs = [d for d in prof_dirs if os.path.isdir(d)]
    if prof_dirs and os.environ.get('VERIF_INCOQ', '') != '0':
        nsq = int(os.environ.get('VERIF_INCOQ', '12' if tier == 'quick' else '300'))
        key = hashlib.sha1(('|'.join(prof_dirs) + f'|{nsq}').encode()).hexdigest()[:16]
        cache = os.path.join(BUILD, 'incoq', f'{key}.json')
        os.makedirs(os.path.dirname(cache), exist_ok=True)
        lk = open(cache + '.lock', 'w')
        fcntl.flock(lk, fcntl.LOCK_EX)
        try:
            if not os.path.exists(cache):
                rr = sh(f'python3 {V}/scripts/incoq.py {" ".join(prof_dirs)} --n {nsq} --seed {seed}')
                open(cache, 'w').write(rr.stdout.strip().splitlines()[-1] if rr.stdout.strip() else '{}')
        finally:
            fcntl.flock(lk, fcntl.LOCK_UN)
        try:
            ic = json.loads(open(cache).read())
        except Exception:
            ic = {}
        ic_ok = bool(ic) and ic.get('coqc_rc') == 0 and ic.get('squares', 0) > 0 and ic.get('agree') == ic.get('squares')
        obligations.append((f"extraction guard: {ic.get('squares', 0)} sampled squares re-evaluated inside Coq (vm_compute of Driver.check_step) agree with the extracted OCaml runner",
                            ic_ok, '' if ic_ok else json.dumps(ic)[:600]))
        cov['incoq'] = ic

    # ---- classification against known findings
    known = known_all
    unlisted_mon = list(monfail)
    for k in known:
        if k.get('id') in reproduced or not k.get('scenario') or any(k.get('clause') in a for a in [set().union(*active.values())] if active) and False:
            known_lines.append(f"KNOWN-FINDING: property={cid} {k.get('id')} {k.get('what', '')}")
        else:
            notes.append(f"known finding {k.get('id')} did not reproduce on this tree (scenario {k.get('scenario')}); entry kept, nothing suppressed")

    corr_ok = not mism
    obligations.append(('correspondence: every sampled square commutes on the projection ' + ','.join(P['projection']), corr_ok,
                        '' if corr_ok else f'{len(mism)} mismatching squares, first: {mism[0][4]}'))

    # a halt in a history in which the root clause of a listed finding fired earlier, and which that finding lists
    # as its consequence (covers=...,live.halt), belongs to that finding
    def halt_known(h):
        for k in known_all:
            if 'live.halt' in k.get('covers', '').split(',') and k.get('id') in active.get((h[0], h[4]), set()):
                if h[0] == 'scenario:' + k.get('scenario', '?'):
                    reproduced.add(k.get('id'))
                cov['halts_known'] = cov.get('halts_known', 0) + 1
                return True
        return False
    halts = [h for h in halts if not halt_known(h)]

    # ---- verdict
    nviol = 0
    out_lines = []
    if halts:
        name, hf, what, why, _hi = halts[0]
        rp = os.path.join(V, 'replays', f'{cid}-{seed}-halt.json')
        keep = os.path.join(V, 'replays', f'{cid}-{seed}-halt.sx')
        if os.path.exists(hf):
            shutil.copyfile(hf, keep)
        json.dump({'property': cid, 'kind': 'the implementation halted or hung', 'profile': name, 'what': what, 'detail': why[:2000],
                   'history_file': keep, 'replay': f'{BUILD}/saoh gen --profile {name} (same seed) reproduces the halt'}, open(rp, 'w'), indent=1)
        out_lines.append(f'VIOLATION property={cid} replay={rp}')
        nviol += len(halts)
    if unlisted_mon:
        name, hi, hf, ln, names = unlisted_mon[0]
        rp = os.path.join(V, 'replays', f'{cid}-{seed}-monitor.json')
        keep = os.path.join(V, 'replays', f'{cid}-{seed}-h{hi}.sx')
        shutil.copyfile(hf, keep)
        json.dump({'property': cid, 'kind': 'monitor failure on implementation state', 'violated': names, 'profile': name,
                   'history_file': keep, 'line': ln, 'step': step_of(hf, ln)[:4000],
                   'replay': f'{BUILD}/runner {keep}  # line {ln}; regenerate with saoh gen --profile {name}'}, open(rp, 'w'), indent=1)
        out_lines.append(f'VIOLATION property={cid} replay={rp}')
        nviol += len(unlisted_mon)
    broken = [o for o in obligations if not o[1]]
    # a mismatching square on which the implementation panics or hangs inside provider selection or a
    # block phase, where the model terminates normally, is itself a failing input for the liveness properties
    crash = None
    if P.get('crash_is_witness') and mism and not unlisted_mon and not halts:
        for name, hi, hf, ln, whatm in mism[:400]:
            if not (os.path.exists(hf) and hf.endswith('.sx')) or 'model:ok' not in whatm:
                continue
            st = step_of(hf, ln)
            m1 = re.search(r'\("Sel\w+" .{0,4000}? "(panic|hang)"\) "', st[:6000])
            m2 = re.search(r'^\("step" \([^()]*\) \("(BeginBlock|EndBlock|Blocks)"[^"]*(?:\([^()]*\))?[^"]*\) "(panic|hang|halted|hung)', st[:6000])
            if m1 or m2:
                crash = (name, hi, hf, ln, whatm, (m1.group(1) if m1 else m2.group(2)))
                break
    if crash:
        name, hi, hf, ln, whatm, how = crash
        rp = os.path.join(V, 'replays', f'{cid}-{seed}-crash.json')
        keep = os.path.join(V, 'replays', f'{cid}-{seed}-h{hi}.sx')
        shutil.copyfile(hf, keep)
        json.dump({'property': cid, 'kind': f'the implementation ends in {how} on an input on which the model (and the property) require normal termination',
                   'profile': name, 'history_file': keep, 'line': ln, 'mismatch': whatm, 'step': step_of(hf, ln)[:4000],
                   'broken': [{'obligation': o[0], 'detail': o[2]} for o in broken],
                   'replay': f'{BUILD}/runner {keep}  # line {ln}; regenerate with saoh gen --profile {name}'}, open(rp, 'w'), indent=1)
        out_lines.append(f'VIOLATION property={cid} replay={rp}')
        nviol += 1
    searched = []
    if broken and not unlisted_mon and not halts and not crash and not os.environ.get('VERIF_NO_SEARCH'):
        # a proof obligation or the correspondence broke but no monitor failed on the sampled histories: search further
        # histories (other seeds) of the implementation for a concrete failing input before giving up
        for extra in range(1, int(os.environ.get('VERIF_SEARCH_ROUNDS', '3')) + 1):
            s2 = seed + 7919 * extra
            env = dict(os.environ, VERIF_SEED=str(s2), VERIF_NO_SEARCH='1', VERIF_EVIDENCE_SUFFIX='.search', VERIF_INCOQ='0')
            rr = subprocess.run(f'python3 {V}/scripts/check.py {cid} --tier {tier}', shell=True, stdout=subprocess.PIPE, stderr=subprocess.STDOUT, text=True, env=env)
            found = [l for l in rr.stdout.splitlines() if l.startswith('VIOLATION') and not l.rstrip().endswith('no-failing-input-found')]
            searched.append({'seed': s2, 'found': bool(found)})
            if found:
                out_lines.append(found[0])
                nviol += 1
                notes.append(f'failing input found by the search at seed {s2} after the obligation broke at seed {seed}')
                break
        try:
            os.remove(os.path.join(V, 'evidence', cid + '.search.json'))
        except OSError:
            pass
    if broken and not unlisted_mon and not halts and not crash and not out_lines:
        rp = os.path.join(V, 'replays', f'{cid}-{seed}-broken.json')
        info = {'property': cid, 'kind': 'proof obligation or correspondence no longer checks',
                'broken': [{'obligation': o[0], 'detail': o[2]} for o in broken]}
        if mism:
            name, hi, hf, ln, whatm = mism[0]
            if os.path.exists(hf) and hf.endswith('.sx'):
                keep = os.path.join(V, 'replays', f'{cid}-{seed}-h{hi}.sx')
                shutil.copyfile(hf, keep)
                info.update({'history_file': keep, 'line': ln, 'mismatch': whatm, 'step': step_of(hf, ln)[:4000]})
        info['searched'] = searched
        json.dump(info, open(rp, 'w'), indent=1)
        out_lines.append(f'VIOLATION property={cid} replay={rp} no-failing-input-found')
        nviol += len(broken)

    write_evidence(evidence_path, cid, tier, seed, P, cov, obligations, nviol, time.time() - t0, notes, samples,
                   {'trusted': trusted, 'assumptions': assumptions_seen, 'distinct': len(distinct), 'known': [k['raw'] for k in known]})
    for l in known_lines:
        print(l)
    for l in out_lines:
        print(l)
    if not out_lines:
        print(f'OK property={cid} tier={tier} obligations={len(obligations)} squares={cov["squares_compared"]} wall={time.time()-t0:.1f}s')
    return 1 if out_lines else 0


def write_evidence(path, cid, tier, seed, P, cov, obligations, nviol, wall, notes, samples, extra):
    coverage = {
        'obligations': max(1, len(obligations)),
        'discharged': sum(1 for o in obligations if o[1]),
        'checker_cmd': f'bash scripts/prepare.sh (coq_makefile + make, full .vo build) ; coqc theories/{P["theorems"]}.v ; python3 scripts/check.py {cid} --tier {tier}',
        'trusted_base': extra.get('trusted', []) + props.TRUSTED_COMMON + P.get('trusted', []),
        'obligation_list': [{'name': o[0], 'discharged': o[1], **({'detail': o[2]} if o[2] else {})} for o in obligations],
        'print_assumptions': extra.get('assumptions', {}),
        'evaluations': cov.get('squares_compared', 0),
        'distinct_nontrivial': extra.get('distinct', 0),
        'rule': 'a square = one implementation step (tx or block boundary) re-executed by the extracted model from the abstracted '
                'implementation pre-state and compared on this property\'s projection; non-trivial = the step changed the state; '
                'distinct = distinct (history, step) pairs among those',
        'samples': samples or [{'note': 'no state-changing sample in this run'}],
        'correspondence': cov,
        'known_findings': extra.get('known', []),
        'notes': notes,
        'theorem_strength': P.get('strength', ''),
    }
    ev = {'property_id': cid, 'tier': tier, 'seed': seed, 'level': 'proof', 'coverage': coverage,
          'assumptions': P.get('assumptions', []), 'wall_s': round(wall, 2), 'violations': nviol}
    json.dump(ev, open(path, 'w'), indent=1)


if __name__ == '__main__':
    sys.exit(main())
