#!/usr/bin/env python3
"""Guard of the extraction and of runner.ml (DESIGN section 4.4).

Re-evaluates a sample of correspondence squares INSIDE Coq: for each sampled step of a
recorded history the five s-expressions (pre-state, ctx, op, outcome, post-state) and the
result line the extracted OCaml runner printed are written as Gallina [value] terms into a
.v file, and one coqc run checks by vm_compute that

    value_eqb (Driver.check_step pre ctx op outcome post) <runner's result> = true

for every one of them. A disagreement means the extracted program (or the hand-written
parser/printer around it) does not compute what the Coq definitions compute.

usage: incoq.py <run dir> [<run dir> ...] [--n 40] [--seed 1]
prints one JSON line: {"squares": n, "agree": k, "disagree": [...], "coqc_s": t}
"""
import sys, os, re, glob, json, random, subprocess, time

V = os.path.dirname(os.path.dirname(os.path.abspath(__file__)))
sys.path.insert(0, os.path.join(V, 'scripts'))
from check import parse_sexp  # noqa


def coq_string(s):
    """Coq term for a byte string (latin-1 decoded): printable runs as literals, other bytes via B n"""
    if s == '':
        return '""'
    parts = []
    run = []
    for ch in s:
        n = ord(ch)
        if 32 <= n <= 126:
            run.append('""' if ch == '"' else ch)
        else:
            if run:
                parts.append('"' + ''.join(run) + '"')
                run = []
            parts.append('B %d' % n)
    if run:
        parts.append('"' + ''.join(run) + '"')
    if len(parts) == 1 and not parts[0].startswith('B'):
        return parts[0]
    return '(' + ' ++ '.join(parts) + ')'


def coq_value(v):
    if isinstance(v, int):
        return 'VZ (%d)' % v
    if isinstance(v, str):
        return 'VS ' + coq_string(v)
    return 'VL [' + '; '.join(coq_value(x) for x in v) + ']'


def squares_of(run_dir):
    """yields (history file, line no, pre, ctx, op, outcome, post, result) for every step of every history"""
    for res in sorted(glob.glob(os.path.join(run_dir, 'h*.res'))):
        hf = res[:-4] + '.sx'
        if not os.path.exists(hf) or os.path.getsize(res) == 0:
            continue
        results = {}
        for line in open(res, errors='replace'):
            sp = line.find(' ')
            if sp > 0 and line[:sp].isdigit():
                results[int(line[:sp])] = line[sp + 1:].rstrip('\n')
        yield hf, results


def main():
    a = sys.argv[1:]
    n = 40
    seed = 1
    dirs = []
    i = 0
    while i < len(a):
        if a[i] == '--n':
            n = int(a[i + 1]); i += 2
        elif a[i] == '--seed':
            seed = int(a[i + 1]); i += 2
        else:
            dirs.append(a[i]); i += 1
    rnd = random.Random(seed)
    # choose (history, line) pairs first, then parse only those histories
    index = []
    for d in dirs:
        for hf, results in squares_of(d):
            for ln in results:
                index.append((hf, ln, results[ln]))
    index.sort()
    picks = rnd.sample(index, min(n, len(index)))
    by_hist = {}
    for hf, ln, r in picks:
        by_hist.setdefault(hf, {})[ln] = r
    defs = []
    names = []
    k = 0
    for hf in sorted(by_hist):
        want = by_hist[hf]
        pre = None
        with open(hf, errors='replace') as f:
            for lineno, line in enumerate(f, 1):
                line = line.rstrip('\n')
                if not line:
                    continue
                need = lineno in want
                if not any(l >= lineno for l in want):
                    break
                if not (need or (lineno + 1) in want):
                    continue
                v = parse_sexp(line)
                if v[0] == 'genesis':
                    pre = v[1]
                    continue
                if v[0] != 'step':
                    pre = None
                    continue
                ctx, op, outcome, post = v[1], v[2], v[3], v[4]
                if need and pre is not None:
                    exp = parse_sexp(want[lineno])
                    nm = 'c%d' % k
                    k += 1
                    names.append((nm, hf, lineno))
                    defs.append('Definition %s : bool := value_eqb (check_step (%s) (%s) (%s) (%s) (%s)) (%s).' % (
                        nm, coq_value(pre), coq_value(ctx), coq_value(op), coq_value(outcome), coq_value(post), coq_value(exp)))
                pre = post
    out_dir = os.path.join(V, 'build', 'incoq', 'p%d' % os.getpid())
    os.makedirs(out_dir, exist_ok=True)
    vf = os.path.join(out_dir, 'cases.v')
    with open(vf, 'w') as f:
        f.write('From SaoVerif Require Import Base.Prelude Model.Driver.\n')
        f.write('Definition B (n : nat) : string := String (Ascii.ascii_of_nat n) EmptyString.\n')
        for d in defs:
            f.write(d + '\n')
        for nm, _, _ in names:
            f.write('Definition r_%s := Eval vm_compute in %s.\nPrint r_%s.\n' % (nm, nm, nm))
    t0 = time.time()
    r = subprocess.run(f'cd {out_dir} && timeout 3000 coqc -Q {V}/coq/theories SaoVerif -w -notation-overridden,-ambiguous-paths cases.v',
                       shell=True, stdout=subprocess.PIPE, stderr=subprocess.STDOUT, text=True)
    dt = time.time() - t0
    got = dict(re.findall(r'r_(c\d+) = (true|false)', r.stdout))
    disagree = [{'history': hf, 'line': ln} for nm, hf, ln in names if got.get(nm) != 'true']
    res = {'squares': len(names), 'agree': sum(1 for nm, _, _ in names if got.get(nm) == 'true'), 'disagree': disagree[:20],
           'coqc_s': round(dt, 1), 'coqc_rc': r.returncode}
    if r.returncode != 0:
        res['coqc_tail'] = r.stdout[-1500:]
    import shutil
    if r.returncode == 0 and not disagree:
        shutil.rmtree(out_dir, ignore_errors=True)
    print(json.dumps(res))
    return 0 if (r.returncode == 0 and not disagree and names) else 1


if __name__ == '__main__':
    sys.exit(main())
