#!/bin/bash
# Builds everything the checks need from /repo's current working tree and /verif's
# sources: Go harness (tag verif), translator -> Generated/SourceFacts.v, the Coq
# development (full .vo build), the extracted OCaml runner. Idempotent and incremental;
# safe to call concurrently (flock).
set -u
V=$(cd "$(dirname "$0")/.." && pwd)
REPO=${REPO:-/repo}
export GOFLAGS=-mod=mod GOPROXY=off GOSUMDB=off GOTOOLCHAIN=local CGO_ENABLED=1
mkdir -p "$V/build" "$V/build/ext" "$V/build/logs" "$V/coq/theories/Generated"
exec 9>"$V/build/prepare.lock"
flock 9

tree_hash() {
  {
    git -C "$REPO" rev-parse HEAD 2>/dev/null
    git -C "$REPO" diff HEAD --no-ext-diff 2>/dev/null
    git -C "$REPO" ls-files --others --exclude-standard 2>/dev/null | while read -r f; do echo "$f"; cat "$REPO/$f" 2>/dev/null; done
    # verif sources that influence the build
    (cd "$V" && find coq/theories coq/extract coq/_CoqProject harness translator runner scripts -type f \
        \( -name '*.v' -o -name '*.go' -o -name '*.ml' -o -name '*.sh' -o -name '*.py' -o -name '_CoqProject' \) \
        ! -path 'coq/theories/Generated/*' -print0 | sort -z | xargs -0 sha1sum)
  } | sha1sum | cut -d' ' -f1
}

H=$(tree_hash)
if [ -f "$V/build/prepare.stamp" ] && [ "$(cat "$V/build/prepare.stamp")" = "$H" ] && [ -x "$V/build/saoh" ] && [ -x "$V/build/runner" ]; then
  echo "prepare: up to date ($H)"
  exit 0
fi
rm -f "$V/build/prepare.stamp"
fail() { echo "prepare: FAILED at $1 (see $V/build/logs/$1.log)"; echo "$1" > "$V/build/prepare.failed"; exit 3; }
rm -f "$V/build/prepare.failed"

# 1. Go harness against /repo
"$V/scripts/mkgomod.sh" || fail mkgomod
(cd "$V/harness" && go build -tags verif -o "$V/build/saoh" . ) > "$V/build/logs/harness.log" 2>&1 || fail harness

# 2. translator -> Generated/SourceFacts.v
if [ -f "$V/translator/main.go" ]; then
  (cd "$V/translator" && go build -o "$V/build/translator" . ) > "$V/build/logs/translator.log" 2>&1 || fail translator
  "$V/build/translator" -repo "$REPO" -out "$V/coq/theories/Generated/SourceFacts.v.new" >> "$V/build/logs/translator.log" 2>&1 || fail translator
  if ! cmp -s "$V/coq/theories/Generated/SourceFacts.v.new" "$V/coq/theories/Generated/SourceFacts.v"; then
    mv "$V/coq/theories/Generated/SourceFacts.v.new" "$V/coq/theories/Generated/SourceFacts.v"
  else
    rm -f "$V/coq/theories/Generated/SourceFacts.v.new"
  fi
fi

# 3. Coq: full .vo build. -k: a broken obligation must not hide the others.
(cd "$V/coq" && coq_makefile -f _CoqProject -o Makefile > /dev/null 2>&1 && timeout 3000 make -k -j16 ) > "$V/build/logs/coq.log" 2>&1
echo $? > "$V/build/coq.status"

# 4. forbidden constructs
if grep -rnE '\b(Admitted|admit|Axiom|Parameter|Conjecture|Admit Obligations)\b|Unset Guard|bypass_check|type-in-type|impredicative-set' "$V/coq/theories" "$V/coq/extract" --include='*.v' | grep -v '^\S*:[0-9]*:\s*(\*' > "$V/build/logs/forbidden.log"; then
  # allow the words inside comments only
  if grep -vE '\(\*.*\b(Admitted|admit|Axiom|Parameter|Conjecture)\b.*\*\)' "$V/build/logs/forbidden.log" | grep -q .; then
    fail forbidden
  fi
fi

# 5. extraction + OCaml runner (needs Model/*.vo only)
(cd "$V/build/ext" && rm -f model.ml model.mli && timeout 600 coqc -Q "$V/coq/theories" SaoVerif "$V/coq/extract/Extract.v" \
   && cp "$V/runner/runner.ml" . && ocamlfind ocamlopt -O3 -w -a model.mli model.ml runner.ml -o "$V/build/runner" ) > "$V/build/logs/extract.log" 2>&1 || fail extract

echo "$H" > "$V/build/prepare.stamp"
echo "prepare: built ($H), coq status $(cat "$V/build/coq.status")"
exit 0
