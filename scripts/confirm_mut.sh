#!/bin/bash
# usage: confirm_mut.sh <worktree> <outdir> <demo file name> <go test -run pattern>
# Confirms a candidate seeded change in a scratch worktree: demo passes without it, repo builds with it, demo fails with it,
# and the x/... suite gives the same per-test results with and without it. Leaves the worktree reverted.
wt=$1; out=$2; demo=$3; pat=$4
export GOFLAGS=-mod=mod GOPROXY=off GOSUMDB=off GOTOOLCHAIN=local
norm() { grep -E '^\s*(ok|FAIL|---|\?)' | sed -E 's/[0-9]+\.[0-9]+s//g; s/\(cached\)//g' | sort; }
cd $wt || exit 2
git checkout -q -- x app 2>/dev/null
cp $out/$demo app/$demo
if [ ! -f /tmp/wtout/base_tests.norm ]; then
  go test -vet=off -count=1 -v ./x/... 2>&1 | norm > /tmp/wtout/base_tests.norm
fi
go test -vet=off -count=1 -run "$pat" ./app/ > $out/confirm_without.log 2>&1; r0=$?
git apply $out/patch.diff || { echo "patch does not apply"; exit 2; }
go build ./x/... ./app/... ./cmd/... > $out/confirm_build.log 2>&1; rb=$?
go test -vet=off -count=1 -run "$pat" ./app/ > $out/confirm_with.log 2>&1; r1=$?
go test -vet=off -count=1 -v ./x/... 2>&1 | norm > $out/mut_tests.norm
if cmp -s /tmp/wtout/base_tests.norm $out/mut_tests.norm; then same=true; else same=false; fi
git checkout -q -- x app
echo "{\"demo_without_change_exit\": $r0, \"build_exit\": $rb, \"demo_with_change_exit\": $r1, \"existing_tests_same\": $same, \"passing_tests\": $(grep -c -- '--- PASS' $out/mut_tests.norm)}" | tee $out/confirm.json
