#!/bin/bash
# Generates harness/go.mod (and translator/go.mod) against /repo: same replace lines, same go.sum.
set -e
REPO=${REPO:-/repo}
V=$(cd "$(dirname "$0")/.." && pwd)
{
  echo "module saoverif/harness"
  echo
  echo "go 1.18"
  echo
  echo "require github.com/SaoNetwork/sao v0.0.0"
  echo
  echo "replace github.com/SaoNetwork/sao => $REPO"
  grep '^replace ' $REPO/go.mod
} > $V/harness/go.mod
cp $REPO/go.sum $V/harness/go.sum
