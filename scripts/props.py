"""Per-property configuration of the checks: theorem file, generated-obligation files,
history profiles, projection (tables / fields compared), monitors, op families."""

PROFILE_SALT = {'did': 11, 'node': 23, 'select': 37, 'sao': 41, 'staking': 53}

TRUSTED_COMMON = [
    'extraction: ExtrOcamlBasic only (Extract Inductive for bool, option, unit, list, prod, sumbool, sumor; no Extract Constant); '
    'Z/positive/N/nat/string/ascii stay the extracted inductives; OCaml 4.13.1; runner/runner.ml (parser/printer of the wire format)',
    'correspondence harness: harness/*.go drives the real app.App through InitChain/BeginBlock/DeliverTx/EndBlock/Commit and dumps '
    'the stores through the keepers\' own getters; its generators are sampled (coverage below), not exhaustive',
    'modelled, not verified: cosmos-sdk baseapp/bank/staking/params, Tendermint, IAVL, protobuf, gas metering and events (absent from the model)',
]

ALLOWED_AXIOMS = ()  # none expected; std-library axioms would be named here


def axioms_allowed(txt):
    return False


# prefix match on "table" or "table#field"
def _match(pats, t):
    return any(t == p or t.startswith(p + '#') or t.startswith(p + '+') or (p.endswith('.') and t.startswith(p)) for p in pats)


def in_projection(cid, t):
    return _match(PROPS[cid]['projection'], t)


def monitor_of(cid, m):
    return _match(PROPS[cid].get('monitors', []), m)


def family_of(cid, fam):
    return fam in PROPS[cid].get('families', [])


PROPS = {
    'C17': {
        'theorems': 'Properties/C17',
        'obligation_files': [],
        'profiles': [{'name': 'did', 'quick': 16, 'thorough': 400, 'ops': 120}],
        'projection': ['did.'],
        'monitors': ['did.'],
        'families': ['did'],
        'strength': 'full: Inv_did (18 clauses over the ten tables) is proved preserved by every operation of the did machine for '
                    'every history; per-operation theorems for binding proofs, creator binding, rotation list exactness, key-DID '
                    'payment immutability. "Fresh proof that the account accepts that DID" is refuted: see KNOWN_FINDINGS (D17).',
        'trusted': ['oracles in did operations: secp256k1/EIP-191 signature verification, sha256 doc id, the sao-did URL parser '
                    '(op_sane is checked on every generated operation)'],
        'assumptions': ['crypto and URL parser are oracles computed by the harness with the chain\'s own libraries'],
    },
}
