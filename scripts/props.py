"""Per-property configuration of the checks: theorem file, generated-obligation files,
history profiles, projection (tables / fields compared), monitors, op families."""

PROFILE_SALT = {'did': 11, 'node': 23, 'select': 37, 'sao': 41, 'saolong': 43, 'staking': 53}

TRUSTED_COMMON = [
    'extraction: ExtrOcamlBasic only (Extract Inductive for bool, option, unit, list, prod, sumbool, sumor; no Extract Constant); '
    'Z/positive/N/nat/string/ascii stay the extracted inductives; OCaml 4.13.1; runner/runner.ml (parser/printer of the wire format)',
    'correspondence harness: harness/*.go drives the real app.App through InitChain/BeginBlock/DeliverTx/EndBlock/Commit and dumps '
    'the stores through the keepers\' own getters; its generators are sampled (coverage below), not exhaustive',
    'translator/main.go (go/types) regenerating Generated/SourceFacts.v',
    'modelled, not verified: cosmos-sdk baseapp/bank/staking/params, Tendermint, IAVL, protobuf, gas metering and events (absent from the model); '
    'cryptography and the sao-did URL parser are oracles computed by the harness with the chain\'s own libraries',
]


def axioms_allowed(txt):
    return False


def _match(pats, t):
    for p in pats:
        if p == '*' or t == p or t.startswith(p + '#') or t.startswith(p + '+') or (p.endswith('.') and t.startswith(p)):
            return True
    return False


def in_projection(cid, t):
    return _match(PROPS[cid]['projection'], t)


def monitor_of(cid, m):
    return _match(PROPS[cid].get('monitors', []), m)


def family_of(cid, fam):
    return fam in PROPS[cid].get('families', [])


# profile presets: (name, quick count, thorough count, ops per history)
def P(name, quick, thorough, ops):
    return {'name': name, 'quick': quick, 'thorough': thorough, 'ops': ops}


# thorough tier: 6-10 times the quick tier (a first version with 600/300/400 histories took hours for one check on 16 cores)
DID = P('did', 16, 160, 120)
NODE = P('node', 16, 128, 150)
SELECT = P('select', 8, 48, 120)
SAO = P('sao', 32, 256, 150)
SAOLONG = P('saolong', 8, 48, 60)
STAKING = P('staking', 16, 128, 150)

ALL_FAM = ['did', 'node', 'sao', 'block', 'bank', 'staking', 'fault', 'select']

PROPS = {
    'C01': {
        'theorems': 'Properties/C01', 'obligation_files': ['Obligations/ObAmbient'],
        'profiles': [SAO, STAKING, DID, NODE, P('twin:sao', 4, 24, 150), P('twin:staking', 6, 32, 150), P('twin:did', 2, 8, 120), P('twin:node', 2, 8, 150),
                     P('twin:scenario:d10-residue', 1, 1, 0), P('twin:scenario:twin-gov-params', 1, 1, 0), P('twin:scenario:twin-multimsg-rollback', 1, 1, 0)],
        'projection': ['*'], 'monitors': ['frame.rejected_unchanged', 'twin.'], 'families': ['did', 'node', 'sao', 'block', 'bank', 'staking', 'fault'],
        'extra': ['twin'],
    },
    'C02': {
        'theorems': 'Properties/C02', 'scenarios': ['flow-timeout-giveup', 'flow-rollover-coincide', 'flow-renew2-migrate', 'flow-fault-not-held', 'flow-renew-migrate-expire'], 'obligation_files': ['Obligations/ObShape'],
        'profiles': [SAO, SAOLONG, NODE, SELECT, STAKING],
        'projection': ['outcome-class'], 'monitors': ['live.'], 'families': ALL_FAM,
        'halt_is_violation': True, 'crash_is_witness': True,
    },
    'C03': {
        'theorems': 'Properties/C03', 'scenarios': ['flow-offline-super', 'flow-stake-before-pledge'], 'obligation_files': ['Obligations/ObAmbient'],
        'profiles': [STAKING, NODE, P('twin:sao', 4, 24, 150), P('twin:staking', 6, 32, 150), P('twin:did', 2, 8, 120), P('twin:node', 2, 8, 150),
                     P('twin:scenario:d10-residue', 1, 1, 0), P('twin:scenario:twin-gov-params', 1, 1, 0), P('twin:scenario:twin-multimsg-rollback', 1, 1, 0)],
        'projection': ['proc.sharesBeforeModified', 'node.Node#5', 'node.Node#6'], 'monitors': ['proc.', 'twin.'], 'families': ['staking', 'node', 'block'],
    },
    'C04': {
        'theorems': 'Properties/C04', 'scenarios': ['flow-debt-claim', 'flow-renew2-migrate', 'flow-timeout-giveup', 'flow-debt-release', 'flow-rollover-coincide', 'flow-sponsor-rollback', 'flow-short-renewal', 'flow-renew-migrate-expire'], 'obligation_files': ['Obligations/ObShape'],
        'profiles': [SAO, SAOLONG],
        'projection': ['bank.Balance', 'market.Worker', 'order.Order#8', 'order.Order#6', 'order.Order#5'],
        'monitors': ['solv.market', 'solv.order', 'cons.', 'frame.supply'], 'families': ['sao', 'block', 'node'],
    },
    'C05': {
        'theorems': 'Properties/C05', 'scenarios': ['flow-sponsor-rollback', 'flow-renewed-versions', 'flow-late-ready', 'flow-unnamed-rollback'], 'obligation_files': ['Proofs/Refinement'],
        'profiles': [SAO, SAOLONG],
        'projection': ['bank.Balance', 'order.Order+keys', 'order.Shard+keys', 'model.Metadata', 'model.Model', 'model.ExpiredData'],
        'monitors': ['sched.expdata_live', 'sched.meta_scheduled', 'sched.meta_expiry_is_shard_end', 'ref.model_alias', 'rollback.'], 'families': ['sao', 'block'],
    },
    'C06': {
        'theorems': 'Properties/C06', 'scenarios': ['flow-debt-claim', 'flow-timeout-giveup', 'flow-debt-release', 'flow-rollover-coincide', 'flow-short-renewal', 'flow-renew-many-poor'], 'obligation_files': ['Obligations/ObShape', 'Proofs/Refinement'],
        'profiles': [SAO, SAOLONG, NODE],
        'projection': ['bank.Balance', 'bank.Supply', 'node.PledgeDebt', 'did.DidBalances'],
        'monitors': ['solv.'], 'families': ['sao', 'block', 'node', 'bank'],
    },
    'C07': {
        'theorems': 'Properties/C07', 'scenarios': ['flow-debt-claim', 'flow-renew2-migrate', 'flow-debt-release', 'flow-short-renewal', 'flow-renew-many-poor', 'flow-capacity-edge'], 'obligation_files': [],
        'profiles': [SAO, SAOLONG, NODE],
        'projection': ['bank.Balance', 'node.Pledge#0', 'node.Pledge#1', 'node.Pledge#4', 'node.Pledge#5', 'node.PledgeDebt', 'order.Shard#4', 'order.Shard#9'],
        'monitors': ['agg.used_bounds', 'agg.shpledged_is_sum', 'agg.used_is_sum', 'frame.node_msgs', 'solv.node', 'coll.release_exact'], 'families': ['sao', 'block', 'node'],
    },
    'C08': {
        'theorems': 'Properties/C08', 'scenarios': ['flow-debt-claim', 'flow-capacity-edge'], 'obligation_files': ['Obligations/ObShape', 'Proofs/Refinement'],
        'profiles': [NODE, SAO, SAOLONG],
        'projection': ['bank.Supply', 'node.Pool', 'node.Pledge#2', 'node.Pledge#3', 'node.Pledge#4', 'node.PledgeDebt'],
        'monitors': ['agg.pool_is_sum', 'frame.supply', 'solv.node', 'mint.'], 'families': ['block', 'node', 'sao'],
    },
    'C09': {
        'theorems': 'Properties/C09', 'scenarios': ['flow-forged-owner', 'flow-stale-order', 'flow-renewed-versions'], 'obligation_files': [],
        'profiles': [SAO, SAOLONG],
        'projection': ['model.'], 'monitors': ['authz.store', 'authz.renew', 'authz.terminate', 'authz.permission', 'frame.models'],
        'families': ['sao', 'block'],
    },
    'C10': {
        'theorems': 'Properties/C10', 'scenarios': ['flow-forged-owner', 'flow-sponsor-rollback'], 'obligation_files': [],
        'profiles': [SAO, NODE, DID],
        'projection': ['order.Order+keys', 'order.Order#5', 'order.Shard#1', 'order.Shard#6', 'node.Node', 'node.Pledge', 'bank.Balance', 'did.Did', 'did.AccountList'],
        'monitors': ['authz.complete', 'authz.cancel', 'authz.payer', 'frame.node_msgs', 'did.did_has_acc', 'did.list_sound', 'did.list_complete'], 'families': ['sao', 'node', 'did'],
    },
    'C11': {
        'theorems': 'Properties/C11', 'scenarios': ['flow-renew2-migrate', 'flow-rollover-coincide', 'flow-short-renewal', 'flow-renewed-versions', 'flow-renew-migrate-expire'], 'obligation_files': ['Obligations/ObShape', 'Proofs/Refinement'],
        'profiles': [SAOLONG, SAO],
        'projection': ['order.Shard+keys', 'order.Shard#0', 'order.Shard#7', 'order.Shard#8', 'order.Shard#9', 'order.Order+keys', 'model.Metadata+keys', 'model.Metadata#11',
                       'sao.ExpiredShard', 'model.ExpiredData', 'node.Pledge#5', 'node.Pledge#1', 'market.Worker'],
        'monitors': ['ref.completed_scheduled', 'sched.meta_scheduled', 'sched.expdata_live', 'sched.meta_covers_shards', 'sched.meta_covers_renewals', 'sched.meta_expiry_is_shard_end', 'sched.future'], 'families': ['block', 'sao'],
    },
    'C12': {
        'theorems': 'Properties/C12', 'scenarios': ['flow-timeout-giveup', 'flow-late-ready', 'flow-silent-super'], 'obligation_files': ['Obligations/ObShape'],
        'profiles': [SAO, SAOLONG],
        'projection': ['order.Order#5', 'order.Order#6', 'order.Order#7', 'order.Order#8', 'order.Order+keys', 'sao.TimeoutOrder', 'order.Shard#1'],
        'monitors': ['sched.timeout_scheduled', 'sched.long_timeout_scheduled', 'sched.timeouts_future', 'sel.order_sps_distinct'], 'families': ['block', 'sao'],
    },
    'C13': {
        'theorems': 'Properties/C13', 'scenarios': ['flow-renew2-migrate', 'flow-rollover-coincide', 'flow-unnamed-rollback'], 'obligation_files': ['Proofs/Refinement'],
        'profiles': [SAO, SAOLONG],
        'projection': ['order.Order#7', 'order.Order+keys', 'order.Shard#0', 'order.Shard+keys', 'model.Metadata+keys', 'model.Metadata#1', 'model.Metadata#2',
                       'model.Model', 'sao.ExpiredShard'],
        'monitors': ['ref.'], 'families': ['sao', 'block'],
    },
    'C14': {
        'theorems': 'Properties/C14', 'scenarios': ['flow-debt-claim', 'flow-renew2-migrate', 'flow-debt-release', 'flow-rollover-coincide', 'flow-short-renewal', 'flow-renew-many-poor', 'flow-capacity-edge', 'flow-renew-migrate-expire'], 'obligation_files': ['Proofs/Refinement'],
        'profiles': [SAO, SAOLONG, NODE],
        'projection': ['node.Pledge#0', 'node.Pledge#1', 'node.Pledge#4', 'node.Pledge#5', 'market.Worker#0', 'market.Worker#2', 'node.Pool#0', 'node.Pool#6',
                       'order.Shard#2', 'order.Shard#4'],
        'monitors': ['agg.'], 'families': ['sao', 'block', 'node'],
    },
    'C15': {
        'theorems': 'Properties/C15', 'scenarios': ['flow-timeout-giveup', 'flow-renew2-migrate', 'flow-silent-super'], 'obligation_files': ['Obligations/ObShape'],
        'profiles': [SELECT, SAO],
        'projection': ['select', 'node.NodeRound', 'order.Shard#6', 'order.Shard+keys'],
        'monitors': ['sel.'], 'families': ['select', 'sao', 'block'], 'crash_is_witness': True,
    },
    'C16': {
        'theorems': 'Properties/C16', 'scenarios': ['flow-renewed-versions'], 'obligation_files': ['Proofs/Refinement'],
        'profiles': [SAO, SAOLONG, P('genesis', 12, 96, 120)],
        'projection': ['order.OrderCount', 'order.ShardCount', 'order.Order+keys', 'order.Shard+keys', 'model.Metadata#3', 'model.Metadata#6',
                       'model.Metadata#9', 'model.Metadata#15', 'model.Metadata#16'],
        'monitors': ['ids.', 'ver.'], 'families': ['sao', 'block', 'genesis'],
    },
    'C17': {
        'theorems': 'Properties/C17', 'scenarios': ['flow-did-self-join'], 'obligation_files': ['Proofs/Refinement'],
        'profiles': [DID],
        'projection': ['did.'], 'monitors': ['did.'], 'families': ['did'],
    },
    'C18': {
        'theorems': 'Properties/C18', 'scenarios': ['flow-genesis-many'], 'obligation_files': ['Obligations/ObGenesis'],
        'profiles': [P('genesis', 12, 96, 120)],
        'projection': ['*'], 'monitors': ['genesis.'], 'families': ['genesis'],
    },
    'C19': {
        'theorems': 'Properties/C19', 'scenarios': ['flow-fault-not-held'], 'obligation_files': ['Proofs/Refinement'],
        'profiles': [SAO],
        'projection': ['node.FaultById', 'node.FaultIndex', 'node.FishingReward', 'bank.Balance', 'node.Pledge', 'order.', 'model.Metadata'],
        'monitors': ['frame.faults', 'authz.faults', 'authz.recover_own', 'authz.report_valid'], 'families': ['fault'],
    },
    'C20': {
        'theorems': 'Properties/C20', 'scenarios': ['flow-offline-super', 'flow-stake-before-pledge', 'flow-slashed-validator'], 'obligation_files': ['Obligations/ObShape'],
        'profiles': [STAKING, NODE],
        'projection': ['node.Node#5', 'node.Node#6'], 'monitors': ['super.', 'proc.success_leaves_no_residue'], 'families': ['staking', 'node', 'block'],
    },
}
