#!/bin/bash
# usage: try_mutation.sh <patch.diff> <CID> [<CID> ...]   -- applies a seeded change to /repo, runs the checks, undoes it
patch=$1; shift
cd /verif
git -C /repo apply "$(readlink -f "$patch")" || { echo "patch does not apply"; exit 2; }
for cid in "$@"; do
  echo "--- $cid"
  VERIF_EVIDENCE_SUFFIX=.mut VERIF_ALLOW_MISSING=1 python3 scripts/check.py $cid --tier quick 2>&1 | tail -4
  python3 - <<PY
import json
ev=json.load(open('/verif/evidence/$cid.mut.json'))
c=ev['coverage']
print('  obligations',c['obligations'],'discharged',c['discharged'],'mismatches',c['correspondence'].get('mismatches_in_projection'),'monitor_failures',c['correspondence'].get('monitor_failures'))
print('  broken:',[ (o['name'][:60],o.get('detail','')[:200]) for o in c['obligation_list'] if not o['discharged']])
PY
done
git -C /repo checkout -- .
git -C /repo status --short | head -3
