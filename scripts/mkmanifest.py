#!/usr/bin/env python3
"""Writes MANIFEST.json from the per-property descriptions below."""
import json, os
V = os.path.dirname(os.path.dirname(os.path.abspath(__file__)))
COMMON_NOTE = ("Trusted: the Coq 8.16.1 kernel (vm_compute in witnesses/obligations, no native_compute, no axioms: every Print Assumptions is "
               "'Closed under the global context'); extraction with ExtrOcamlBasic only + runner/runner.ml; the Go correspondence harness (sampled histories, "
               "coverage in the evidence) and its abstraction of the stores through the keepers' own getters; the translator; cosmos-sdk/Tendermint/IAVL/"
               "protobuf/gas/events are modelled or absent, cryptography and the sao-did URL parser are oracles. ")
T = {
 'C01': ("The model's step is a function of block context, state and operation only; generated obligations re-derived from the Go source on every run show that no wall-clock, randomness, goroutine, env or extra package variable reaches consensus code and which map ranges exist; theorems show the map ranges order-insensitive and that only staking hooks touch the one process variable (residue refuted: finding D10). Tied to the code by step-wise refinement of every sampled history and by a twin-replica test (second process, different schedule of Simulate/CheckTx/queries/restarts) comparing code, data, gas, events, EndBlock responses and commit hashes.",
         "Gas, events and the app hash are not in the model: their equality is carried by the twin-replica test (sampled), not by a theorem.", "Coq theorems + generated source-fact obligations + step-wise refinement + twin-replica differential test"),
 'C02': ("Theorem: no transaction or block phase of the model fails to return, for every state/op/seed (selection loops proved terminating after repairs D1, D3). Absence of panics in Begin/EndBlock is not a theorem (needs global invariants; false for validated parameters: finding D19, exhibited); every halt or hang of the real application in any generated history (incl. histories crossing every scheduled height and fast-halving parameter sets) is reported with that history as replay.",
         "Panic-freedom of the block phases is tested (halts observed on the implementation), not proved.", "Coq termination theorem + halt/hang detection on the real app over generated histories"),
 'C03': ("Theorems: only staking transactions/simulations touch the one process-level variable; successful SDK-shaped staking transactions leave it zero; with it zero a restart changes nothing in any later run; refuted with residue (finding D10). Generated obligation: it is the only package-level variable written in consensus code. Tied by step-wise refinement on staking histories (incl. failing delegations and gas simulations) and by in-process restarts in the twin-replica test.",
         "Restart is emulated in-process (new App over the same DB + reset of the process variable through the verif hook).", "Coq theorems + refutation witness + refinement + restart differential test"),
 'C04': ("Per-operation theorems: Store charges exactly one account exactly the quoted price; first completion moves exactly it to the market escrow (force-push refuted/partial); cancellation refunds exactly it; all operations but the reward mint conserve coins. The history-level equation income+refunds=charged is evaluated by monitors on the implementation (market escrow has no orphan funds beyond dust, solvency) at every block boundary, not proved.",
         "History-level conservation is monitored on sampled histories, not proved.", "Coq per-operation theorems + refinement + conservation monitors"),
 'C05': ("Theorem: the postcondition of CancelOrder (message and timeout path): exact refund to the payer, order and its shards gone, no pledge/worker/debt change, model rolled back to its last committed version or removed with its alias. Tied by refinement on histories with cancels, timeouts, re-assignments and re-creation of the same data id.",
         "", "Coq postcondition theorems + refinement"),
 'C06': ("Theorems: coins only move (sum of balances changes exactly by the supply change; supply changes only in BeginBlock, upwards). The solvency inequalities are monitors evaluated on the implementation state after every step / block boundary (order, node, market escrows), not proved; findings D13, D23 violate them.",
         "Solvency itself is monitored on sampled histories, not proved.", "Coq conservation theorems + solvency monitors on the real app"),
 'C07': ("Per-operation theorems: a shard release pays its collateral less recorded debt to its provider only and lowers that provider's counters; RemoveVstorage only for free capacity, to the signer only; AddVstorage takes what it books. used<=total and used = sum of live shards are monitors.",
         "Global capacity invariants are monitored, not proved.", "Coq per-operation theorems + refinement + monitors"),
 'C08': ("Theorems over all histories: minted m with 0<=m<=BlockReward, counter and escrow move by m; credited-unclaimed potential phi rises by at most m per block (pro rata), a claim lowers it by whole coins of the claimer only, nothing else changes it or the supply; hence claimed+claimable <= initial+minted. Generated obligation: one MintCoins site. The per-age cap is carried by refinement on fast-halving parameter sets.",
         "Hypotheses Settled / non-negative capacities (preserved by every op; proved) ; per-age cap not a theorem.", "Coq invariant/potential proofs + generated obligation + refinement"),
 'C09': ("Theorems: signature verification is sound w.r.t. a handler-independent specification (key of the DID's own document history); rejected requests and unrelated operations change no model; accepted Store/Terminate/UpdatePermission (and Renew under the model<->order link) are signed by the owner or, for updates/termination, a read-write grantee, and touch only the named model. The same clauses run as per-operation monitors on every accepted request of the real app.",
         "Renew needs the link hypothesis (refuted without it on an ill-formed state).", "Coq authorization theorems + per-operation monitors + refinement"),
 'C10': ("Theorems: accepted Complete comes from (an address registered by) the assigned provider; accepted Cancel from the creator or through the order's own gateway; node messages leave other accounts untouched; in Store only the legitimate payer's balance goes down. Renewal payer refuted (finding D20). Same clauses run as monitors on the real app with an attacker actor.",
         "", "Coq authorization theorems + per-operation monitors + refinement"),
 'C11': ("Per-operation theorems: completion schedules release at exactly created+duration; the end-blocker removes a completed shard only if scheduled at this height (or its order times out never completed); expiry releases or rotates to the queued renewal and re-schedules. History-level schedule invariants are monitors on the real app on histories crossing every scheduled height.",
         "Global schedule invariants are monitored, not proved.", "Coq per-operation theorems + refinement over long histories + schedule monitors"),
 'C12': ("Step theorems: fully stored orders are left alone; Ready schedules the first check; an unresolved check re-schedules, cancels or reduces (or the refund fails: cancel_stuck). Bounded response over histories is not proved; refutations exhibit the two D15 ways an order stays unresolved.",
         "Progress over whole histories is not proved.", "Coq step theorems + refutations + monitors"),
 'C13': ("Theorem: the links a Store creates are consistent (new shards exist, name the order, are fresh; the model names the order). The four relations of the statement are monitors evaluated on the real app after every step.",
         "Global referential integrity is monitored, not proved.", "Coq local theorem + referential monitors on the real app"),
 'C14': ("Theorem over all histories: network totals equal the sums over providers. Per-provider equalities are monitors on the real app after every step (finding D23 violates them).",
         "Per-provider sums monitored, not proved.", "Coq invariant proof + aggregate monitors"),
 'C15': ("Machine-checked theorems about the model of RandomSP / GetNextSuperNodes / SelectNodes / RandomIndex for every node population, ignore list, count and seed: chosen providers are distinct, registered, eligible, not ignored, at most the requested number; a new order gets exactly replica providers or is rejected; the selection terminates. Tied by calling the real keeper functions on generated populations (incl. a small-domain sweep of RandomIndex) and through the application histories.",
         "pow10 ceiling of RandomIndex modelled as smallest power of ten >= total (sampled for totals <= 120); seeds < 10^400.", "Coq proofs about pure kernels + direct differential testing"),
 'C16': ("Theorem: ids stay below their counters, counters never decrease, new ids are at or above the old counter (under per-call size bounds and integrity of the migrated shard; unconditional form refuted). Base-version check monitored per accepted update and refuted by finding D16.",
         "", "Coq invariant step theorem + refutation + monitors"),
 'C17': ("Machine-checked invariant over the ten DID tables for every operation history, plus per-operation theorems (binding proof by the account's own key, bound creator, rotation handles exactly the stored accounts, payment account cannot be unbound, key-DID payment address self-set and immutable). Tied by step-wise refinement on all ten tables and invariant monitors. 'Proof shows the account accepts that DID' refuted (finding D17).",
         "", "Coq inductive invariant + refinement"),
 'C18': ("Theorems: export/import is exact on every table the genesis files carry, idempotent, and the re-initialised chain behaves identically when the four tables without a genesis field are empty; refuted otherwise (finding D18). Generated obligation re-derives which store prefixes lack genesis fields. Tied by real export (ExportAppStateAndValidators + Validate) and InitChain of a fresh app at random block boundaries, continuing the history on it.",
         "The theorem is thin; assurance comes from the obligation and the real export/import comparison.", "Coq theorems + generated obligation + real export/import differential test"),
 'C19': ("Theorems: fault reports and recoveries change only the two fault tables and the fishing-reward table; nothing else changes those; only registered fishmen report, only the accused provider or a fishman recovers.",
         "Penalty arithmetic modelled for Penalty = 0 (the only reachable value).", "Coq frame theorems + refinement + monitors"),
 'C20': ("Theorems: promotion by Reset/AddVstorage only when status, pledge and share hold; RemoveVstorage below threshold demotes; hook promotions of SDK-shaped Delegate/Unbond without residue hold in the final state; refuted with residue (finding D10). super.role_ok monitored on the real staking module.",
         "Staking module itself is not modelled (event sequences read back from the real keeper).", "Coq theorems + refutation + refinement against the real staking module"),
}
m = json.load(open(os.path.join(V, 'MANIFEST.json')))
checks = []
for cid in sorted(T):
    text, note, tech = T[cid]
    checks.append({
        'property_id': cid,
        'quick_cmd': f'python3 scripts/check.py {cid} --tier quick',
        'thorough_cmd': f'python3 scripts/check.py {cid} --tier thorough',
        'evidence_file': f'evidence/{cid}.json',
        'replay_cmd_template': 'python3 scripts/replay.py {path}',
        'engine': 'coq-model',
        'level_claimed': {'category': 'proof', 'text': text, 'design_ref': f'DESIGN.md section 9 {cid}'},
        'level_note': COMMON_NOTE + note,
        'technique': tech,
    })
m['checks'] = checks
for e in m['engines']:
    e['serves_properties'] = sorted(T)
m['hooks']['source_commits'] = ['986b549']
m['not_applicable'] = []
m['notes'] = ("Every property is decided with the Coq development plus its tie to the code; repairs of genuine defects are the 'fix:' commits in /repo "
              "(see KNOWN_FINDINGS.txt 'fixed:' lines), remaining defects are 'known:' lines there.")
json.dump(m, open(os.path.join(V, 'MANIFEST.json'), 'w'), indent=1)
print(len(checks), 'checks')
