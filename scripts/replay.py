#!/usr/bin/env python3
"""Replays a violation file written by check.py: re-runs the stored history through the
extracted model and prints the offending step with the model's verdict."""
import sys, json, os, subprocess
V = os.path.dirname(os.path.dirname(os.path.abspath(__file__)))
r = json.load(open(sys.argv[1]))
print(json.dumps({k: v for k, v in r.items() if k not in ('step',)}, indent=1))
hf = r.get('history_file')
if hf and os.path.exists(hf):
    subprocess.run(['bash', os.path.join(V, 'scripts', 'prepare.sh')], stdout=subprocess.DEVNULL)
    if str(r.get('profile', '')).startswith('twin:'):
        # the stored file is the recorded consensus-input stream of replica A: replay it on a second replica under a few
        # schedules of restarts / simulations / queries until one diverges
        every = '1' if ':scenario:' in r['profile'] else '6'
        for sd in range(1, 9):
            o = subprocess.run([os.path.join(V, 'build', 'saoh'), 'replay', '--stream', hf, '--seed', str(sd), '--restart-every', every],
                               stdout=subprocess.PIPE, text=True).stdout.strip().splitlines()
            try:
                j = json.loads(o[-1])
            except Exception:
                print('replay produced no summary:', o[-3:]); break
            print(f"schedule seed {sd}: blocks {j.get('blocks')} restarts {j.get('restarts')} simulations {j.get('simulations')} divergences {len(j.get('divergences') or [])}")
            if j.get('divergences'):
                print('first divergence:', json.dumps(j['divergences'][0])[:600]); break
        sys.exit(0)
    out = subprocess.run([os.path.join(V, 'build', 'runner'), hf], stdout=subprocess.PIPE, text=True).stdout
    for line in out.splitlines():
        if line.startswith(str(r.get('line', -1)) + ' '):
            print('model verdict at the step:', line)
    print('implementation step:', r.get('step', '')[:2000])
