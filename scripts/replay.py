#!/usr/bin/env python3
"""Replays a violation file written by check.py: re-runs the stored history through the
extracted model and prints the offending step with the model's verdict."""
import sys, json, os, subprocess
V = os.path.dirname(os.path.dirname(os.path.abspath(__file__)))
r = json.load(open(sys.argv[1]))
print(json.dumps({k: v for k, v in r.items() if k not in ('step',)}, indent=1))
hf = r.get('history_file')
if hf and os.path.exists(hf):
    subprocess.run(['bash', os.path.join(V, 'scripts', 'prepare.sh')], stdout=subprocess.DEVNULL)
    out = subprocess.run([os.path.join(V, 'build', 'runner'), hf], stdout=subprocess.PIPE, text=True).stdout
    for line in out.splitlines():
        if line.startswith(str(r.get('line', -1)) + ' '):
            print('model verdict at the step:', line)
    print('implementation step:', r.get('step', '')[:2000])
