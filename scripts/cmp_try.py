import sys,re
def load(f):
    d={}
    for l in open(f):
        m=re.match(r'(\d+) (.*?) \| (.*)',l)
        if m: d[m.group(2)]=(int(m.group(1)),m.group(3))
        elif l.startswith('halts'): d['halts']=(int(l.split()[1]),'')
    return d
b=load(sys.argv[1]); m=load(sys.argv[2])
out=[]
for k in sorted(set(b)|set(m)):
    bv=b.get(k,(0,''))[0]; mv=m.get(k,(0,''))[0]
    if bv!=mv: out.append(f'  {k}: base {bv} -> {mv}  e.g. {m.get(k,("",""))[1][:150]}')
print('\n'.join(out) if out else '  (no difference from baseline)')
