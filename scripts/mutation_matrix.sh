#!/bin/bash
# usage: mutation_matrix.sh [<seeded dir name> ...]   -- for each seeded change: apply to /repo, run the quick check of
# its property, undo; prints one line per change. Never leaves /repo modified.
cd /verif
names="$@"; [ -z "$names" ] && names=$(ls seeded | grep '^C')
for n in $names; do
  cid=${n%%-*}
  git -C /repo status --short | grep -q . && { echo "/repo not clean"; exit 2; }
  git -C /repo apply /verif/seeded/$n/patch.diff || { echo "$n patch-does-not-apply"; continue; }
  t0=$(date +%s)
  out=$(VERIF_ALLOW_MISSING=1 timeout 3000 python3 scripts/check.py $cid --tier quick 2>&1 | grep -E "^(VIOLATION|OK)" | tr '\n' ';' | cut -c1-400)
  t1=$(date +%s)
  git -C /repo checkout -- .
  echo "$n | $((t1-t0))s | $out"
done
