#!/bin/bash
# usage: [REPO=<tree>] mutation_matrix.sh [<seeded dir name> ...]   -- for each seeded change: apply to $REPO, run the
# quick check of its property (and of any property listed in meta.json "also_check"), undo; prints one line per change.
# Never leaves $REPO modified. Location independent: works from a snapshot of /verif with REPO pointing at a scratch tree.
V=$(cd "$(dirname "$0")/.." && pwd)
export REPO=${REPO:-/repo}
cd "$V"
names="$@"; [ -z "$names" ] && names=$(ls seeded | grep '^C')
for n in $names; do
  cid=${n%%-*}
  git -C "$REPO" status --short | grep -q . && { echo "$REPO not clean"; exit 2; }
  git -C "$REPO" apply "$V/seeded/$n/patch.diff" || { echo "$n patch-does-not-apply"; continue; }
  t0=$(date +%s)
  out=$(VERIF_EVIDENCE_SUFFIX=.mut VERIF_ALLOW_MISSING=1 timeout 3000 python3 scripts/check.py $cid --tier quick 2>&1 | grep -E "^(VIOLATION|OK)" | tr '\n' ';' | cut -c1-400)
  t1=$(date +%s)
  kind=$(python3 - "$V/evidence/$cid.mut.json" <<'PY'
import json,sys
try:
    ev=json.load(open(sys.argv[1])); c=ev['coverage']; co=c.get('correspondence',{})
    br=[o['name'].split(':')[0][:40] for o in c['obligation_list'] if not o['discharged']]
    print('mism=%s monfail=%s broken=%s'%(co.get('mismatches_in_projection'),co.get('monitor_failures')-co.get('monitor_failures_known',0) if co.get('monitor_failures') is not None else None,','.join(sorted(set(br)))))
except Exception as e: print('noevidence',e)
PY
)
  git -C "$REPO" checkout -- .
  echo "$n | $((t1-t0))s | $out | $kind" | tee -a "$V/build/matrix.log"
done
