#!/bin/bash
# usage: run_all.sh [tier]  -- runs every registered check on the current tree, prints the verdict lines
cd "$(dirname "$0")/.."
tier=${1:-quick}
for i in $(seq -w 1 20); do
  python3 scripts/check.py C$i --tier $tier 2>&1 | grep -E "^(OK|VIOLATION)" 
done
