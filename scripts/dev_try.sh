#!/bin/bash
# usage: dev_try.sh <patch|none> <harness-dir> [profiles...]   -- rough signal only (no projection / known filtering)
set -u
PATCH=$1; HD=$2; shift 2
PROFS=${*:-"sao,32,150,41 node,16,150,23 staking,16,150,53 did,16,120,11 saolong,8,60,43 select,8,120,37 genesis,12,120,0"}
export GOFLAGS=-mod=mod GOPROXY=off GOSUMDB=off GOTOOLCHAIN=local
WT=/tmp/dev/wt
git -C $WT checkout -- . ; [ "$PATCH" != none ] && { git -C $WT apply "$PATCH" || exit 2; }
rm -rf /tmp/dev/h3; cp -r $HD /tmp/dev/h3; sed -i 's#=> /repo#=> /tmp/dev/wt#' /tmp/dev/h3/go.mod
(cd /tmp/dev/h3 && go build -tags verif -o /tmp/dev/saoh3 .) || exit 3
O=/tmp/dev/try/$(basename $(dirname "$PATCH"))_$$; rm -rf $O; mkdir -p $O
for pr in $PROFS; do IFS=, read prof n ops salt <<<"$pr"
  for i in $(seq 0 $((n-1))); do hs=$((${SEED:-1}*100003 + i*7919 + salt))
    ( /tmp/dev/saoh3 gen --profile $prof --seed $hs --ops $ops --out $O/${prof//:/_}-$i.sx > $O/${prof//:/_}-$i.sum 2>&1; /verif/build/runner $O/${prof//:/_}-$i.sx > $O/${prof//:/_}-$i.res 2>$O/${prof//:/_}-$i.err ) &
    while [ $(jobs -r | wc -l) -ge 8 ]; do sleep 0.2; done
  done
done; wait
python3 - $O <<'PY'
import glob,sys,re,collections,json
O=sys.argv[1]; bad=collections.Counter(); ex={}
halt=0
for f in glob.glob(O+'/*.sum'):
    try:
        j=json.loads(open(f).read().strip().split('\n')[-1])
        if j.get('halted'): halt+=1; ex.setdefault('HALT',f+' '+j['halted'][:100])
    except Exception as e: pass
for f in sorted(glob.glob(O+'/*.res')):
    for line in open(f,errors='replace'):
        m=re.match(r'(\d+) \("compared" "(\w+)" "(\w+)" (\d) \((.*?)\) "(.*?)" \((.*?)\) (\d+)\)',line)
        if not m:
            if '"unmodelled"' in line or '"outofdomain"' in line: continue
            bad['unparsed']+=1; ex.setdefault('unparsed',f+': '+line[:200]); continue
        ln,fam,mcls,ook,diff,detail,mons,ch=m.groups()
        if ook!='1' or diff.strip():
            k='MISMATCH '+fam; bad[k]+=1; ex.setdefault(k,f+':'+ln+' '+diff[:200])
        for mm in re.findall(r'"([^"]+)"',mons):
            k='MON '+mm.split(' ')[0]; bad[k]+=1; ex.setdefault(k,f+':'+ln)
print('halts',halt)
for k,v in bad.most_common(): print(v,k,'|',ex[k])
PY
rm -f $O/*.sx
