#!/usr/bin/env python3
"""Generates a Properties/CXX.v file that restates selected theorems of Proofs/*.v at
full length and closes each with `exact`, followed by Print Assumptions.
usage: mkprops.py CXX header.txt imports "Proofs/File:thm1,thm2" ["Proofs/Other:thm3"] """
import sys, re, os
V = os.path.dirname(os.path.dirname(os.path.abspath(__file__)))
cid, header_file, imports = sys.argv[1], sys.argv[2], sys.argv[3]
out = ['(* ' + open(header_file).read().strip() + ' *)', imports, 'From RecordUpdate Require Import RecordUpdate.', 'Import RecordSetNotations.', '']
for spec in sys.argv[4:]:
    rel, names = spec.split(':', 1)
    src = open(os.path.join(V, 'coq', 'theories', rel + '.v')).read()
    for nm in names.split(','):
        comment = ''
        if '|' in nm:
            nm, comment = nm.split('|', 1)
        m = re.search(r'^(?:Theorem|Lemma|Example|Corollary)\s+' + re.escape(nm) + r'\b(.*?)\n\s*Proof\.', src, re.S | re.M)
        if not m:
            sys.exit(f'theorem {nm} not found in {rel}')
        stmt = m.group(1).rstrip()
        if not stmt.endswith('.'):
            sys.exit(f'cannot delimit statement of {nm}')
        if comment:
            out.append('(* ' + comment + ' *)')
        out.append(f'Theorem {cid}_{nm}{stmt}\nProof. first [exact {nm} | apply {nm}]. Qed.\nPrint Assumptions {cid}_{nm}.\n')
open(os.path.join(V, 'coq', 'theories', 'Properties', cid + '.v'), 'w').write('\n'.join(out))
print('wrote', cid)
