#!/bin/bash
# usage: coverage.sh [seed] [outfile]
# Measures which statements of /repo's consensus code (x/*/keeper, abci, genesis) the quick-tier histories of the
# correspondence harness execute. The harness is compiled as a test binary inside a throw-away worktree of /repo
# (go test -c -cover -coverpkg=./x/...), every quick-tier profile is run once under it, and the merged profile is
# summarised per file together with the list of statements never reached. A generator-quality measurement, not a
# check: what the histories never execute is not tied to the model by the correspondence.
set -u
V=$(cd "$(dirname "$0")/.." && pwd)
REPO=${REPO:-/repo}
SEED=${1:-1}
OUT=${2:-$V/build/coverage.txt}
export GOFLAGS=-mod=mod GOPROXY=off GOSUMDB=off GOTOOLCHAIN=local
W=$(mktemp -d /tmp/saocov.XXXXXX)
trap 'git -C "$REPO" worktree remove --force "$W/repo" >/dev/null 2>&1; rm -rf "$W"' EXIT
git -C "$REPO" worktree add --detach "$W/repo" HEAD >/dev/null 2>&1 || exit 2
(cd "$REPO" && git diff HEAD) | (cd "$W/repo" && git apply --allow-empty 2>/dev/null)
mkdir -p "$W/repo/vh" "$W/cov" "$W/out"
cp "$V"/harness/*.go "$W/repo/vh/"
cat > "$W/repo/vh/cov_test.go" <<'EOF'
package main

import (
	"os"
	"strings"
	"testing"
)

func TestCov(t *testing.T) {
	os.Args = append([]string{"saoh"}, strings.Fields(os.Getenv("SAOH_ARGS"))...)
	main()
}
EOF
(cd "$W/repo" && go test -tags verif -c -cover -coverpkg=./x/... -o "$W/saoh_cov" ./vh) || exit 3
run() { prof=$1; n=$2; ops=$3; salt=$4
  for i in $(seq 0 $((n-1))); do hs=$((SEED*100003 + i*7919 + salt))
    (cd "$W/out" && SAOH_ARGS="gen --profile $prof --seed $hs --ops $ops --out $W/out/$prof-$i.sx" timeout 1500 "$W/saoh_cov" -test.run TestCov -test.coverprofile="$W/cov/$prof-$i.out" >/dev/null 2>&1) &
  done; wait; rm -f "$W"/out/*.sx; }
run sao 32 150 41; run node 16 150 23; run staking 16 150 53; run did 16 120 11; run saolong 8 60 43; run genesis 12 120 0; run select 8 120 37
for sc in $(grep -o '^\s*"[a-z0-9-]*":\s*sc' "$V/harness/scenarios.go" 2>/dev/null | grep -o '[a-z0-9-]*' | grep -v '^sc$'); do :; done
python3 - "$W/cov" "$REPO" > "$OUT" <<'EOF'
import glob, collections, re, sys
covdir, repo = sys.argv[1], sys.argv[2]
cov = collections.defaultdict(int); stm = {}
for f in glob.glob(covdir + '/*.out'):
    for line in open(f):
        if line.startswith('mode:'): continue
        loc, n, c = line.rsplit(' ', 2)
        stm[loc] = int(n); cov[loc] += int(c)
def consensus(f):
    b = f.split('/')[-1]
    return ('/keeper/' in f or b in ('abci.go', 'abic.go', 'genesis.go')) and 'grpc_query' not in b and not b.startswith('query') and '/client/' not in f and '/simulation/' not in f
byfile = collections.defaultdict(lambda: [0, 0])
for loc, n in stm.items():
    f = loc.split(':')[0]
    if not consensus(f): continue
    byfile[f][0] += n
    if cov[loc] > 0: byfile[f][1] += n
tt = sum(v[0] for v in byfile.values()); cc = sum(v[1] for v in byfile.values())
print(f'TOTAL consensus statements reached by the quick-tier histories: {cc}/{tt} = {100*cc//max(tt,1)}%')
for f, (t, c) in sorted(byfile.items(), key=lambda kv: kv[1][0] - kv[1][1], reverse=True):
    print(f'{c:5d}/{t:5d} {100*c//max(t,1):3d}%  ' + f.replace('github.com/SaoNetwork/sao/', ''))
print('\nSTATEMENTS NEVER REACHED')
for f in sorted(byfile):
    rel = f.replace('github.com/SaoNetwork/sao/', '')
    try: src = open(repo + '/' + rel).read().split('\n')
    except OSError: continue
    unc = []
    for loc in stm:
        if loc.startswith(f + ':') and cov[loc] == 0:
            m = re.search(r':(\d+)\.(\d+),(\d+)\.(\d+)$', loc); unc.append((int(m.group(1)), int(m.group(3))))
    if unc: print('== ' + rel)
    for a, b in sorted(unc):
        print(f'  {a}-{b}: ' + ' | '.join(x.strip() for x in src[a-1:min(b, a+2)])[:160])
EOF
head -1 "$OUT"
